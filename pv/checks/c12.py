"""C12 PSF photometry recovers rendered scenes and keeps its bookkeeping straight.

M1: exact-recovery oracle on noise-free scenes rendered from the same model (pv.gen.c12_scene) + bookkeeping
oracles written from the documentation (pv.ref.c12_oracle: union-find single linkage, fit-window pixel counts,
flag bits).  M2 relations on the real code: every group fitted alone == fitted inside the full call (exact), input
rows permuted (row-wise equal), image x 2^m with scaled initial fluxes (exact), image x k (fluxes x k),
IterativePSFPhotometry(maxiters=1) == PSFPhotometry (exact), residual == data - model image (exact).
"""
from __future__ import annotations

import numpy as np

from pv import core
from pv.gen import c12_scene as G
from pv.ref import c12_oracle as O

ID = 'C12'
RULE = ('one random scene per case: 1-8 point sources in 1-4 clusters (members 1.2-2.4 FWHM apart, clusters so far '
        'apart that an un-modelled source contributes <= 1e-9 of the peak inside another fit window, measured), FWHM '
        '2-4 px, fit_shape 5..9 (also non-square), model drawn per class from {CircularGaussianPRF, GaussianPRF (fixed '
        'and free widths), CircularGaussianPSF (fixed/free), MoffatPSF, ImagePSF (oversampled, (y,x) factors), '
        'GriddedPSFModel (2-3 x 2-3 grid, sources also outside the grid), GaussianPSF (fixed / free widths+theta)}; initial positions within 0.7 px, fluxes x '
        '0.7..1.4; class adds the hostile feature (interleaved group membership in the input order, edge/off-image '
        'sources, masks with garbage underneath, unmasked NaN/inf, error maps/NDData, local background column or '
        'estimator, xy_bounds binding or not, fixed parameters, finder-based init, supplied group_id / id, '
        'fitter_maxiters too small, non-model perturbation, units, direct SourceGrouper calls). User-suppliable columns take '
        'non-canonical valid content: group_id with zero-based / gapped / negative / near-dtype-max labels in every numpy '
        'integer dtype or a list (true clusters, merged clusters, one group for all, one group per source, interleaved '
        'membership; in 15 % of the cases of every grouper class), id as permutation of 1..N in several dtypes or '
        'arbitrary unique ids, every documented x/y/flux alias with garbage decoy columns of lower precedence, integer '
        'x/y/flux columns, per-source local_bkg. Generic axes drawn independently of the class (about half plain): image '
        'magnitude (fluxes, errors, backgrounds) 1e-4..1e8 and extreme 2**-60..2**40 / 1e-20..1e10, arrays in Fortran / '
        'strided / offset / big-endian / float32 / transposed-view layout, fit_shape and xy_bounds as list / array / numpy '
        'ints / scalar, elongated images, extra error map / mask / bounds / units / NDData in any class; class degenerate: '
        'no detection, off-image source, fully masked window, zero error, constant image. non-trivial = the '
        'scene has >= 2 sources or a masked/trimmed fit window or a binding bound; distinct by digest of (image, '
        'init table, mask, error, options)')
CLASSES = ['isolated', 'grouped', 'interleaved', 'edge', 'masked', 'nonfinite', 'error', 'localbkg', 'bounds',
           'fixed', 'free_shape', 'finder', 'supplied_group', 'supplied_id', 'maxiters', 'perturbed', 'units',
           'one_group', 'starved', 'fit_2dgaussian', 'shared_model', 'degenerate', 'grouper_only']
MUST_REACH = ['photutils.psf.photometry:PSFPhotometry.__call__',
              'photutils.psf.photometry:PSFPhotometry._prepare_init_params',
              'photutils.psf.photometry:PSFPhotometry._make_psf_model',
              'photutils.psf.photometry:PSFPhotometry._define_fit_data',
              'photutils.psf.photometry:PSFPhotometry._fit_sources',
              'photutils.psf.photometry:PSFPhotometry._parse_fit_results',
              'photutils.psf.photometry:PSFPhotometry._order_by_id',
              'photutils.psf.photometry:PSFPhotometry._calc_fit_metrics',
              'photutils.psf.photometry:PSFPhotometry._define_flags',
              'photutils.psf.photometry:PSFPhotometry._make_mask',
              'photutils.psf.photometry:IterativePSFPhotometry.__call__',
              'photutils.psf.photometry:ModelImageMixin.make_model_image',
              'photutils.psf.photometry:ModelImageMixin.make_residual_image',
              'photutils.psf.groupers:SourceGrouper._group_sources',
              'photutils.background.local_background:LocalBackground.__call__',
              'photutils.datasets.images:make_model_image',
              'photutils.psf.utils:fit_2dgaussian']
ANCHOR_FILES = ['psf/photometry.py', 'psf/groupers.py', 'psf/utils.py', 'background/local_background.py',
                'datasets/images.py']
MIN_NONTRIVIAL = {'quick': 250, 'thorough': 3000}
ASSUMPTIONS = ['the PSF model classes themselves are judged by C13 and make_model_image by C18; here they are only '
               'required to be the same function when rendering and when fitting',
               'astropy TRFLSQFitter / scipy least_squares converge on noise-free data from starts within 0.7 px '
               '(calibrated: see max_deviation)',
               'a recovery failure is attributed to photutils only when an independent fit of the same group (own fit '
               'windows and ordering, same astropy TRFLSQFitter call, same start) does recover the truth; '
               'otherwise the optimiser left its basin / stopped short and the case is counted under notes.recovery_undecided_* '
               'or notes.scale_relation_undecided_* / notes.permutation_relation_undecided_* (same rule for the image x k and the '
               'row-permutation relations: scipy TRF with x_scale=1 is not '
               'scale free on one-sided edge-clipped windows) '
               '(3 of 17123 thorough scenes)',
               'astropy Table/QTable semantics (group_by, join) are trusted',
               'DAOStarFinder (class finder) is judged by C14; cases where it does not return one detection within '
               '1 px of every true source are skipped (precondition of the property)']

# recovery tolerances. Measured on the unchanged tree over 17123 scenes (thorough tier, seed 0): isolated fits
# |dx|,|dy| <= 3.6e-9 px, flux 1.9e-8, free shape 1.6e-8, residual 1.9e-8 of the peak; group fits 3.3e-7 px, 4.5e-7,
# 2.2e-7, 4.5e-8 (worst: CircularGaussianPSF with free fwhm); image x k: isolated 2.9e-6 px / 3.4e-7, groups 6.2e-5 px /
# 2.1e-6. A mis-assigned group member is off by >= 1.2 FWHM (> 2.4 px) and by the flux ratio.
TOL_ISO = dict(pos=1e-4, flux=1e-5, resid=1e-6, shape=1e-4)
TOL_GRP = dict(pos=1e-2, flux=1e-2, resid=1e-3, shape=1e-2)


def plan(tier):
    if tier == 'thorough':
        return dict(shards=16, cases=6000, timeout=2400, budget_s=560)
    return dict(shards=8, cases=500, timeout=600, budget_s=65)


def selftest():
    O.selftest()
    # generator facts independent of photutils: window() of the generator == fit_window() of the oracle
    rng = np.random.default_rng(3)
    for _ in range(200):
        shape = (int(rng.integers(5, 30)), int(rng.integers(5, 30)))
        fs = (int(rng.choice([3, 5, 7])), int(rng.choice([3, 5, 7])))
        x, y = rng.uniform(-2, shape[1] + 1), rng.uniform(-2, shape[0] + 1)
        y0, y1, x0, x1, cx, cy = G.window(shape, fs, x, y)
        rows, cols, cx2, cy2 = O.fit_window(shape, fs, x, y)
        assert (cx, cy) == (cx2, cy2)
        assert (len(rows), len(cols)) == (max(y1 - y0, 0), max(x1 - x0, 0))


# ----------------------------------------------------------------------------------------
# option generation per class
# ----------------------------------------------------------------------------------------
GAUSS_FIXED = ['cgprf', 'gprf', 'cgpsf', 'gpsf']
GAUSS_FREE = ['cgprf_free', 'gprf_free', 'cgpsf_free', 'gpsf_free']
IMAGE = ['imagepsf', 'gridded']
ALL_FIXED = GAUSS_FIXED + IMAGE + ['moffat', 'wrapped']


def _pick(rng, seq):
    return seq[int(rng.integers(0, len(seq)))]


def _options(case):
    rng, cls = case.rng, case.cls
    o = dict(kind=_pick(rng, ALL_FIXED + ['cgprf', 'cgprf']), sizes=None, order='shuffled', grouping='grouper',
             edge=None, mask=None, nonfinite=False, error=None, bkg=None, bounds=None, fixed=None, finder=False,
             maxiters=None, perturbed=False, units=False, ids=None, nddata=False, int_columns=False,
             fit_shape=_pick(rng, [(5, 5), (7, 7), (9, 9), (7, 7), (5, 7), (9, 5)]))
    nsrc_sizes = lambda: [int(_pick(rng, [1, 1, 2, 2, 3])) for _ in range(int(rng.integers(1, 5)))]  # noqa: E731
    if cls == 'isolated':
        o['sizes'] = [1] * int(rng.integers(1, 7))
        o['grouping'] = _pick(rng, ['none', 'grouper', 'none'])
    elif cls == 'grouped':
        o['sizes'] = nsrc_sizes()
        if max(o['sizes']) == 1:
            o['sizes'][0] = 2
        o['order'] = _pick(rng, ['sorted', 'shuffled'])
    elif cls == 'interleaved':
        o['sizes'] = [int(_pick(rng, [2, 3])) for _ in range(int(rng.integers(2, 4)))]
        if rng.random() < 0.5:
            o['sizes'].append(1)
        o['order'] = 'interleaved'
    elif cls == 'edge':
        o['sizes'] = nsrc_sizes()
        o['edge'] = _pick(rng, ['left', 'right', 'bottom', 'top', 'left', 'right', 'bottom', 'top', 'bl', 'br', 'tl', 'tr'])
        if len(o['edge']) == 2:
            o['sizes'] = [1]                      # one source in a corner (two borders at once)
        o['kind'] = _pick(rng, GAUSS_FIXED + ['imagepsf', 'gridded'])
    elif cls == 'masked':
        o['sizes'] = nsrc_sizes()
        o['mask'] = _pick(rng, ['random', 'random', 'centre'])
    elif cls == 'nonfinite':
        o['sizes'] = nsrc_sizes()
        o['nonfinite'] = True
        o['mask'] = _pick(rng, [None, 'elsewhere', 'random'])
    elif cls == 'error':
        o['sizes'] = nsrc_sizes()
        o['error'] = _pick(rng, ['random', 'poisson', 'constant'])
        o['nddata'] = rng.random() < 0.3
        if rng.random() < 0.3:
            o['mask'] = 'random'
    elif cls == 'localbkg':
        o['sizes'] = [1] * int(rng.integers(1, 5))
        o['bkg'] = _pick(rng, ['column', 'column_per_source', 'estimator', 'estimator_plane'])
        o['kind'] = _pick(rng, GAUSS_FIXED + ['imagepsf'])
        o['grouping'] = _pick(rng, ['none', 'grouper'] + (['big', 'big'] if o['bkg'] == 'column_per_source' else []))
        if o['bkg'] in ('column', 'column_per_source') and rng.random() < 0.4:
            o['ids'] = 'permutation'          # unsorted id column + per-source background (include_localbkg rendering)
    elif cls == 'bounds':
        o['sizes'] = nsrc_sizes()
        o['bounds'] = _pick(rng, ['loose', 'binding', 'binding', 'tuple', 'xnone', 'ynone'])
    elif cls == 'fixed':
        o['sizes'] = nsrc_sizes()
        o['fixed'] = _pick(rng, ['xy', 'flux', 'x', 'y'])
    elif cls == 'free_shape':
        o['sizes'] = nsrc_sizes()
        o['kind'] = _pick(rng, GAUSS_FREE)
    elif cls == 'finder':
        o['sizes'] = [1] * int(rng.integers(1, 6))
        o['finder'] = True
        o['kind'] = _pick(rng, ['cgprf', 'cgpsf', 'gprf'])
        o['grouping'] = _pick(rng, ['none', 'grouper'])
        o['fit_shape'] = _pick(rng, [(5, 5), (7, 7)])
    elif cls == 'supplied_group':
        o['sizes'] = nsrc_sizes()
        o['grouping'] = _pick(rng, ['supplied', 'supplied', 'supplied', 'supplied_merge', 'supplied_one',
                                    'supplied_own'])
        if o['grouping'] == 'supplied_own':
            o['sizes'] = [1] * int(rng.integers(1, 7))       # every source its own group: no blends allowed
        o['order'] = _pick(rng, ['shuffled', 'interleaved'])
        if rng.random() < 0.25:
            o['ids'] = _pick(rng, ['permutation', 'arbitrary'])
        o['int_columns'] = bool(rng.random() < 0.15)
    elif cls == 'supplied_id':
        o['sizes'] = nsrc_sizes()
        o['ids'] = _pick(rng, ['permutation', 'permutation', 'arbitrary'])
        if rng.random() < 0.3:
            o['grouping'] = _pick(rng, ['supplied', 'supplied_merge', 'supplied_one'])
        o['order'] = _pick(rng, ['shuffled', 'interleaved'])
    elif cls == 'maxiters':
        # some clusters start exactly at the truth (converge at once), the others far: mixed convergence status with
        # interleaved group membership, so that a mis-ordered fit_info/flag-8 book-keeping becomes visible
        o['sizes'] = [int(_pick(rng, [1, 2, 2, 3])) for _ in range(int(rng.integers(2, 5)))]
        o['maxiters'] = int(rng.integers(1, 5))
        o['kind'] = _pick(rng, GAUSS_FIXED + GAUSS_FREE)
        o['order'] = _pick(rng, ['interleaved', 'interleaved', 'shuffled'])
        o['exact_clusters'] = [c for c in range(len(o['sizes'])) if rng.random() < 0.5]
    elif cls == 'perturbed':
        o['sizes'] = nsrc_sizes()
        o['perturbed'] = True
        o['kind'] = _pick(rng, GAUSS_FIXED + ['imagepsf', 'cgprf_free'])
        if rng.random() < 0.4:
            o['mask'] = 'random'
        if rng.random() < 0.3:
            o['error'] = 'random'
    elif cls == 'units':
        o['sizes'] = nsrc_sizes()
        o['units'] = True
        if rng.random() < 0.4:
            o['error'] = 'random'
        if rng.random() < 0.4:
            o['bkg'] = 'column' if max(o['sizes']) == 1 else None
    elif cls == 'starved':
        # the starved source is a singleton cluster interleaved with members of real groups (id order != group order)
        o['sizes'] = _pick(rng, [[1], [1, 1, 1], [2, 1], [2, 1, 2], [3, 1, 1]])
        o['mask'] = 'starved'
        o['kind'] = _pick(rng, GAUSS_FIXED + ['cgprf_free', 'imagepsf'])
        o['grouping'] = 'grouper' if max(o['sizes']) > 1 else _pick(rng, ['none', 'grouper'])
        o['order'] = _pick(rng, ['interleaved', 'shuffled'])
    elif cls == 'one_group':
        o['sizes'] = nsrc_sizes()
        o['grouping'] = 'big'
        o['kind'] = _pick(rng, GAUSS_FIXED + ['imagepsf'])
    if o['kind'] == 'moffat':
        # power-law wings: no finite isolation distance -> a single cluster fitted as one group
        o['sizes'] = [max(o['sizes'])] if o['grouping'] not in ('none',) else [1]
        if o['order'] == 'interleaved':
            o['order'] = 'shuffled'
    if o['grouping'] == 'none' and max(o['sizes']) > 1:
        o['grouping'] = 'grouper'
    if o['bkg'] is not None and max(o['sizes']) > 1:
        o['bkg'] = None
    # user-suppliable book-keeping columns with non-canonical but valid content, in every class that allows it
    if o['grouping'] == 'grouper' and not o['finder'] and rng.random() < 0.15:
        o['grouping'] = 'supplied'                    # the true clusters, as a group_id column
    if o['grouping'].startswith('supplied'):
        o['label_dtype'] = _pick(rng, LABEL_DTYPES)
        schemes = ['zero_based', 'zero_based', 'one_based', 'gaps', 'large']
        if o['label_dtype'] == 'list' or np.dtype(o['label_dtype']).kind == 'i':
            schemes.append('negative')
        o['label_scheme'] = _pick(rng, schemes)
    if cls in ('isolated', 'grouped', 'interleaved', 'masked', 'error', 'localbkg') and rng.random() < 0.12:
        o['int_columns'] = True                       # integer x/y/flux columns (e.g. x_peak from find_peaks)
    o['decoys'] = bool(rng.random() < 0.3)           # lower-precedence alias columns holding garbage
    _generic_axes(rng, cls, o)
    return o


def _generic_axes(rng, cls, o):
    """Axes drawn independently of the class (tools/generic_axes.txt); about half of the cases stay plain."""
    # (i) magnitude of the image and of every value-like input (fluxes, error, backgrounds scale with it)
    k = rng.random()
    if k < 0.5:
        o['mag'], o['mag_kind'] = 1.0, 'plain'
    elif k < 0.8:
        o['mag'], o['mag_kind'] = float(10.0 ** rng.uniform(-4, 8)), 'moderate'
    elif k < 0.9:
        o['mag'], o['mag_kind'] = float(2.0 ** int(rng.integers(-60, 41))), 'pow2_extreme'
    else:
        o['mag'], o['mag_kind'] = float(10.0 ** rng.uniform(-20, 10)), 'decimal_extreme'
    if o['mag'] != 1.0:
        o['int_columns'] = False
    # (v) option combinations: every non-default option may join any class
    plain_cls = cls in ('isolated', 'grouped', 'interleaved', 'edge', 'masked', 'error', 'bounds', 'fixed', 'free_shape',
                        'supplied_group', 'supplied_id', 'one_group', 'localbkg')
    if plain_cls:
        if o['error'] is None and rng.random() < 0.12:
            o['error'] = _pick(rng, ['random', 'poisson', 'constant'])
        if o['mask'] is None and rng.random() < 0.10:
            o['mask'] = 'random'
        if o['bounds'] is None and rng.random() < 0.10:
            o['bounds'] = _pick(rng, ['loose', 'tuple'])
        if (not o['units'] and not o['nddata'] and o['bkg'] in (None, 'column') and not o.get('int_columns')
                and rng.random() < 0.08):
            o['units'] = True
        if not o['units'] and not o['nddata'] and rng.random() < 0.06:
            o['nddata'] = True
    # (iii) memory layout / dtype of the arrays handed over
    o['layout'] = 'plain' if rng.random() < 0.55 else _pick(rng, ['fortran', 'strided', 'offset', 'bigendian',
                                                                    'float32', 'transposed_view'])
    # (ii) call form of the scalar / pair arguments
    o['argform'] = 'plain' if rng.random() < 0.5 else _pick(rng, ['list', 'array', 'npint', 'scalar_if_square'])
    # (iv) shape
    o['elongated'] = None if rng.random() < 0.8 else _pick(rng, ['wide', 'tall'])
    # second list (tools/generic_axes2.txt)
    # (ix) exact integer / half-integer coordinates: true positions on pixel centres / corners, initial positions
    # exactly on a pixel centre (k) or a pixel boundary (k + 0.5)
    o['snap_truth'] = bool(rng.random() < 0.15) and not o['edge']
    o['init_exact'] = None if (rng.random() < 0.8 or o['fixed'] or o.get('int_columns') or o['finder']
                               or o.get('exact_clusters')) else _pick(rng, ['integer', 'half'])
    if o['init_exact'] == 'half' and (o['bkg'] == 'column_per_source' or o['mask'] == 'starved'):
        o['init_exact'] = 'integer'       # (the generator lays pedestals / masks over the fit window itself)
    # (x) provenance: model copied / evaluated before, init table a slice of a larger table
    o['provenance'] = None if rng.random() < 0.75 else _pick(rng, ['model_used_before', 'table_slice', 'both'])
    # (xi) an all-False mask owned by the caller
    if plain_cls and o['mask'] is None and rng.random() < 0.08:
        o['mask'] = 'all_false'


def _lay(a, layout):
    """(float64 / bool C array of the values, object handed to the library)."""
    if a is None or layout == 'plain':
        return a, a
    if layout == 'float32':
        if a.dtype == bool:
            return a, a
        b = a.astype(np.float32)
        return b.astype(np.float64), b
    if layout == 'fortran':
        return a, np.asfortranarray(a)
    if layout == 'bigendian':
        return a, (a if a.dtype == bool else a.astype('>f8'))
    if layout == 'transposed_view':
        return a, np.ascontiguousarray(a.T).T
    if layout == 'strided':
        big = np.zeros((2 * a.shape[0], 2 * a.shape[1]), dtype=a.dtype)
        big[::2, ::2] = a
        return a, big[::2, ::2]
    big = np.zeros((a.shape[0] + 3, a.shape[1] + 3), dtype=a.dtype)
    big[2:-1, 2:-1] = a
    return a, big[2:-1, 2:-1]


def _argform(o, value, square_ok=True):
    f = o.get('argform', 'plain')
    if f == 'list':
        return list(value)
    if f == 'array':
        return np.array(value)
    if f == 'npint' and all(isinstance(v, (int, np.integer)) for v in value):
        return tuple(np.int64(v) for v in value)
    if f == 'scalar_if_square' and square_ok and value[0] == value[1]:
        return value[0]
    return value


LABEL_DTYPES = ['int64', 'int64', 'int32', 'int16', 'int8', 'uint8', 'uint16', 'uint32', 'uint64', 'list']
X_ALIASES = ['x_init', 'xinit', 'x', 'x_0', 'x0', 'xcentroid', 'x_centroid', 'x_peak', 'xcen', 'x_cen', 'xpos',
             'x_pos', 'x_fit', 'xfit']
FLUX_ALIASES = ['flux_init', 'fluxinit', 'flux', 'flux_0', 'flux0', 'flux_fit', 'fluxfit', 'source_sum',
                'segment_flux', 'kron_flux']


def _gen_labels(rng, k, scheme, dtype):
    """k distinct integer group labels (python ints) that fit into dtype."""
    info = np.iinfo('int64' if dtype == 'list' else dtype)
    if scheme == 'zero_based':          # e.g. the inverse of np.unique(..., return_inverse=True)
        vals = rng.permutation(k)
    elif scheme == 'one_based':
        vals = rng.permutation(k) + 1
    elif scheme == 'gaps':
        vals = rng.choice(np.arange(0, min(int(info.max), 1000) + 1), k, replace=False)
    elif scheme == 'large':
        return [int(info.max) - int(j) for j in rng.choice(np.arange(0, 40), k, replace=False)]
    else:                               # negative (signed only), always with at least one negative label and maybe 0
        lo = max(int(info.min), -60)
        vals = rng.choice(np.arange(lo, 61), k, replace=False)
        if not (vals < 0).any():
            vals[int(rng.integers(0, k))] = lo
        vals = np.array(list(dict.fromkeys(vals.tolist())))
        while len(vals) < k:
            vals = np.array(list(dict.fromkeys(vals.tolist() + [int(rng.integers(lo, 61))])))
    return [int(v) for v in vals]


# ----------------------------------------------------------------------------------------
# scene
# ----------------------------------------------------------------------------------------
def _interleave(cid, rng):
    """Input order in which members of the same cluster are never adjacent when avoidable (round robin)."""
    buckets = {}
    for i, c in enumerate(cid):
        buckets.setdefault(int(c), []).append(i)
    keys = list(buckets)
    rng.shuffle(keys)
    for k in keys:
        rng.shuffle(buckets[k])
    out = []
    while any(buckets[k] for k in keys):
        for k in keys:
            if buckets[k]:
                out.append(buckets[k].pop())
    return np.array(out)


def _build_scene(case, o):
    from astropy.table import Table
    rng = case.rng
    fwhm = float(rng.uniform(2.0, 4.0))
    fs = o['fit_shape']
    fit_half = max(fs) / 2.0
    support = 3.3 * fwhm if o['kind'] in IMAGE else None
    dsep = G.isolation_distance(dict(fwhm=fwhm, support=support, ratio=1.4), fit_half)
    if o['bkg'] in ('estimator', 'estimator_plane'):
        dsep = max(dsep, 2 * (9.5 * fwhm * G.FWHM2SIG * 1.2 + 6.0))
    xy, cid, shape = G.gen_clusters(rng, o['sizes'], fwhm, dsep, edge_pad=fit_half + 3 + (
        9.5 * fwhm * G.FWHM2SIG * 1.2 + 6.0 if o['bkg'] in ('estimator', 'estimator_plane') else 0),
        elongated=o.get('elongated') if not o['edge'] else None)
    n = len(xy)
    # edge: crop so that the extreme source sits at delta from the chosen edge (delta < 0: off the pixel grid)
    edge_src = None
    if o['edge']:
        parts = {'left': ['left'], 'right': ['right'], 'bottom': ['bottom'], 'top': ['top'], 'bl': ['left', 'bottom'],
                 'br': ['right', 'bottom'], 'tl': ['left', 'top'], 'tr': ['right', 'top']}[o['edge']]
        first = parts[0]
        edge_src = int(np.argmin(xy[:, 0])) if first == 'left' else int(np.argmax(xy[:, 0])) if first == 'right' \
            else int(np.argmin(xy[:, 1])) if first == 'bottom' else int(np.argmax(xy[:, 1]))
        for part in parts:
            # distance of the source from the border pixel centre; sometimes exactly on a pixel centre / pixel edge
            delta = float(rng.uniform(-0.9, 2.5)) if rng.random() < 0.75 else float(_pick(rng, [-0.5, 0.0, 0.5, 1.0, 2.0]))
            if part == 'left':
                xy[:, 0] -= xy[edge_src, 0] - delta
                shape = (shape[0], int(np.ceil(xy[:, 0].max() + fit_half + 3)))
            elif part == 'bottom':
                xy[:, 1] -= xy[edge_src, 1] - delta
                shape = (int(np.ceil(xy[:, 1].max() + fit_half + 3)), shape[1])
            elif part == 'right':
                shape = (shape[0], int(round(xy[edge_src, 0] + 1 + delta)))
            else:
                shape = (int(round(xy[edge_src, 1] + 1 + delta)), shape[1])
    if o.get('snap_truth'):
        for i in range(n):
            for a in (0, 1):
                if rng.random() < 0.6:
                    xy[i, a] = np.floor(xy[i, a]) + float(_pick(rng, [0.0, 0.5]))
    model, info = G.build_model(rng, o['kind'], fwhm, shape)
    # input order
    if o['order'] == 'sorted':
        order = np.arange(n)
    elif o['order'] == 'interleaved':
        order = _interleave(cid, rng)
    else:
        order = rng.permutation(n)
    xy, cid = xy[order], cid[order]
    if edge_src is not None:
        edge_src = int(np.nonzero(order == edge_src)[0][0])
    truth = Table()
    truth['x'] = xy[:, 0]
    truth['y'] = xy[:, 1]
    flux = np.exp(rng.uniform(np.log(50), np.log(500), n)) * o.get('mag', 1.0)
    if case.cls in ('isolated', 'grouped') and rng.random() < 0.15:
        flux[int(rng.integers(0, n))] *= -1.0          # negative source: flag 4
    truth['flux'] = flux
    for name in info['free']:
        if name == 'theta':
            truth[name] = getattr(model, name).value + rng.uniform(-10, 10, n)
        else:
            truth[name] = getattr(model, name).value * rng.uniform(0.9, 1.1, n)
    data, stack = G.render(model, info, truth, shape)
    peaks = np.abs(stack).reshape(n, -1).max(axis=1)
    # the true peak may lie off the image for edge sources: use the model peak at its own centre
    for i in range(n):
        m = model.copy()
        G.set_xyf(m, truth['x'][i], truth['y'][i], truth['flux'][i])
        for name in info['free']:
            setattr(m, name, truth[name][i])
        peaks[i] = max(peaks[i], abs(float(np.asarray(m(round(truth['x'][i]), round(truth['y'][i]))))))
    s = G.Scene()
    s.model, s.info, s.truth, s.data, s.stack, s.peaks = model, info, truth, data, stack, peaks
    s.shape, s.cid, s.fwhm, s.n, s.edge_src, s.dsep = shape, cid, fwhm, n, edge_src, dsep
    return s


def _init_table(case, s, o):
    from astropy.table import QTable, Table
    rng = case.rng
    n = s.n
    r = 0.7 * np.sqrt(rng.random(n))
    a = rng.uniform(0, 2 * np.pi, n)
    xi = np.asarray(s.truth['x']) + r * np.cos(a)
    yi = np.asarray(s.truth['y']) + r * np.sin(a)
    fi = np.asarray(s.truth['flux']) * rng.uniform(0.7, 1.4, n)
    exact = np.isin(s.cid, o.get('exact_clusters', []))
    if exact.any():
        xi[exact] = np.asarray(s.truth['x'])[exact]
        yi[exact] = np.asarray(s.truth['y'])[exact]
        fi[exact] = np.asarray(s.truth['flux'])[exact]
    if o.get('init_exact') == 'integer':
        xi, yi = np.round(np.asarray(s.truth['x'])), np.round(np.asarray(s.truth['y']))
    elif o.get('init_exact') == 'half':
        xi, yi = np.floor(np.asarray(s.truth['x'])) + 0.5, np.floor(np.asarray(s.truth['y'])) + 0.5
    if o['fixed'] in ('xy', 'x'):
        xi = np.asarray(s.truth['x']).copy()
    if o['fixed'] in ('xy', 'y'):
        yi = np.asarray(s.truth['y']).copy()
    if o['fixed'] == 'flux':
        fi = np.asarray(s.truth['flux']).copy()
    if o.get('int_columns') and not o['fixed'] and not exact.any() and not o['units']:
        # integer pixel positions / counts: still within a pixel of the truth (|dx|, |dy| <= 0.5)
        xi = np.round(np.asarray(s.truth['x'])).astype(np.int64)
        yi = np.round(np.asarray(s.truth['y'])).astype(np.int64)
        fi = np.round(fi).astype(np.int64)
    # every documented alias, x / y / flux chosen independently; optionally decoy columns with lower-precedence
    # aliases holding garbage ('searched in the above order, stopping at the first match')
    ia, ib, ic = (int(rng.integers(0, len(X_ALIASES))), int(rng.integers(0, len(X_ALIASES))),
                  int(rng.integers(0, len(FLUX_ALIASES))))
    names = (X_ALIASES[ia], 'y' + X_ALIASES[ib][1:], FLUX_ALIASES[ic])
    t = (QTable if (o['units'] or rng.random() < 0.3) else Table)()
    cols = [(names[0], xi), (names[1], yi), (names[2], fi)]
    if o.get('decoys'):
        if ia + 1 < len(X_ALIASES):
            cols.append((X_ALIASES[int(rng.integers(ia + 1, len(X_ALIASES)))], np.full(n, -999.0)))
        if ib + 1 < len(X_ALIASES):
            cols.append(('y' + X_ALIASES[int(rng.integers(ib + 1, len(X_ALIASES)))][1:], np.zeros(n)))
        if ic + 1 < len(FLUX_ALIASES):
            cols.append((FLUX_ALIASES[int(rng.integers(ic + 1, len(FLUX_ALIASES)))], np.full(n, 1e-3)))
    for j in rng.permutation(len(cols)):
        t[cols[j][0]] = cols[j][1]
    extra = {}
    for name in s.info['free']:
        if name == 'theta':
            v = np.asarray(s.truth[name]) + rng.uniform(-8, 8, n)
        else:
            v = np.asarray(s.truth[name]) * rng.uniform(0.85, 1.2, n)
        v[exact] = np.asarray(s.truth[name])[exact]
        cname = _pick(rng, [name, name + '_init', name + '_fit'])
        t[cname] = v
        extra[name] = v
    return t, names, xi, yi, fi, extra


def _make_mask_and_garbage(case, s, o, xi, yi, nfree):
    """Mask through the fit windows; what lies under the mask is garbage. Returns (data, mask)."""
    rng = case.rng
    data = s.data.copy()
    mask = None
    fs = o['fit_shape']
    scale = float(np.max(s.peaks))
    if o['mask'] in ('random', 'centre'):
        mask = np.zeros(s.shape, bool)
        for i in range(s.n):
            if rng.random() < 0.25 and o['mask'] != 'centre':
                continue
            rows, cols, cx, cy = O.fit_window(s.shape, fs, xi[i], yi[i])
            if len(rows) == 0 or len(cols) == 0:
                continue
            sub = rng.random((len(rows), len(cols))) < rng.uniform(0.04, 0.25)
            # keep the core well sampled: at most one masked pixel in the 3x3 about the true centre
            tx, ty = int(round(s.truth['x'][i])), int(round(s.truth['y'][i]))
            core_r = (np.abs(rows[:, None] - ty) <= 1) & (np.abs(cols[None, :] - tx) <= 1)
            idx = np.argwhere(sub & core_r)
            for k in idx[1:]:
                sub[k[0], k[1]] = False
            if o['mask'] == 'centre' and rng.random() < 0.7 and 0 <= cy < s.shape[0] and 0 <= cx < s.shape[1]:
                sub[core_r] = False
                sub[rows == cy, cols == cx] = True
            if sub.size - sub.sum() < nfree + 8:
                continue
            mask[np.ix_(rows, cols)] |= sub
        far = rng.random(s.shape) < 0.01
        mask |= far
        garbage = scale * 1e3 * rng.uniform(-1, 1, s.shape)
        if rng.random() < 0.4:
            garbage[rng.random(s.shape) < 0.3] = np.nan
        if rng.random() < 0.2:
            garbage[rng.random(s.shape) < 0.1] = np.inf
        data[mask] = garbage[mask]
    elif o['mask'] == 'starved':
        # one source keeps only m <= (number of free parameters) usable pixels: no covariance can be returned
        mask = np.zeros(s.shape, bool)
        singles = [j for j in range(s.n) if int(np.sum(s.cid == s.cid[j])) == 1]
        i = int(_pick(rng, singles))
        rows, cols, cx, cy = O.fit_window(s.shape, fs, xi[i], yi[i])
        sub = np.ones((len(rows), len(cols)), bool)
        m = int(rng.integers(1, nfree + 1))
        cand = [(a, b) for a in range(len(rows)) for b in range(len(cols))
                if abs(rows[a] - s.truth['y'][i]) <= 1.6 and abs(cols[b] - s.truth['x'][i]) <= 1.6]
        rng.shuffle(cand)
        for a, b in cand[:m]:
            sub[a, b] = False
        mask[np.ix_(rows, cols)] = sub
        data[mask] = scale * 1e3
        s.starved = i
    elif o['mask'] == 'all_false':
        mask = np.zeros(s.shape, bool)
    elif o['mask'] == 'elsewhere':
        mask = np.zeros(s.shape, bool)
        mask[0, 0] = True
        data[0, 0] = -scale
    if o['nonfinite']:
        for i in range(s.n):
            rows, cols, cx, cy = O.fit_window(s.shape, fs, xi[i], yi[i])
            if len(rows) < 3 or len(cols) < 3 or rng.random() < 0.3:
                continue
            for _ in range(int(rng.integers(1, 4))):
                ry, rx = int(_pick(rng, list(rows))), int(_pick(rng, list(cols)))
                if abs(ry - s.truth['y'][i]) <= 1.2 and abs(rx - s.truth['x'][i]) <= 1.2:
                    continue
                data[ry, rx] = _pick(rng, [np.nan, np.inf, -np.inf])
    return data, mask


# ----------------------------------------------------------------------------------------
# the check
# ----------------------------------------------------------------------------------------
class _NoFinder:
    """finder placeholder for IterativePSFPhotometry(maxiters=1) with init_params: must never be called."""
    called = 0

    def __call__(self, data, mask=None):
        _NoFinder.called += 1
        return None


def _col(t, name):
    v = t[name]
    return np.asarray(v.value if hasattr(v, 'unit') and hasattr(v, 'value') else v)


def _run_phot(o, s, model, grouper, data, mask, error, init, bounds, extra_kw=None, cls=None):
    from photutils.psf import PSFPhotometry
    kw = dict(grouper=grouper, xy_bounds=bounds)
    if o['maxiters'] is not None:
        kw['fitter_maxiters'] = o['maxiters']
    if extra_kw:
        kw.update(extra_kw)
    if kw.get('xy_bounds') is not None and np.ndim(kw['xy_bounds']) == 1 and None not in tuple(kw['xy_bounds']):
        kw['xy_bounds'] = _argform(o, tuple(kw['xy_bounds']))
    elif kw.get('xy_bounds') is not None and np.ndim(kw['xy_bounds']) == 0 and o.get('argform') == 'array':
        kw['xy_bounds'] = np.float64(kw['xy_bounds'])
    p = (cls or PSFPhotometry)(model, _argform(o, tuple(o['fit_shape'])), **kw)
    return p, p(data, mask=mask, error=error, init_params=init)


def run_case(case):
    if case.cls == 'grouper_only':
        return _case_grouper(case)
    if case.cls == 'fit_2dgaussian':
        return _case_fit2d(case)
    if case.cls == 'shared_model':
        return _case_shared_model(case)
    if case.cls == 'degenerate':
        return _case_degenerate(case)
    import astropy.units as u
    from astropy.modeling.fitting import NonFiniteValueError
    from astropy.nddata import NDData, StdDevUncertainty
    from astropy.table import QTable
    from photutils.background import LocalBackground
    from photutils.psf import IterativePSFPhotometry, PSFPhotometry, SourceGrouper
    rng = case.rng
    o = _options(case)
    s = _build_scene(case, o)
    n, fs = s.n, o['fit_shape']
    model = s.model
    if o.get('provenance') in ('model_used_before', 'both'):
        # a model with a history: evaluated at a few positions (fills the per-position caches of the gridded
        # model), parameters edited and restored, then a copy of it is handed to the photometry object
        keep = [float(getattr(model, q).value) for q in G.pnames(model)]
        for _ in range(3):
            G.set_xyf(model, float(rng.uniform(0, s.shape[1])), float(rng.uniform(0, s.shape[0])), 7.0)
            _ = model(np.arange(4.0) + 3, np.arange(4.0) + 2)
        G.set_xyf(model, *keep)
        model = model.copy()
        _ = model(np.arange(3.0), np.arange(3.0))
        case.note('axis2_provenance_model_used_before')
    if o['fixed']:
        model = model.copy()
        xn, yn, fn = G.pnames(model)
        if o['fixed'] in ('xy', 'x'):
            getattr(model, xn).fixed = True
        if o['fixed'] in ('xy', 'y'):
            getattr(model, yn).fixed = True
        if o['fixed'] == 'flux':
            getattr(model, fn).fixed = True
    nfree = 3 + len(s.info['free']) - {'xy': 2, 'x': 1, 'y': 1, 'flux': 1, None: 0}[o['fixed']]
    init, names, xi, yi, fi, extra = _init_table(case, s, o)
    mech = {'cls': case.cls, 'model': o['kind']}

    # ---- grouping ------------------------------------------------------------------
    grouper = None
    sep = None
    if o['grouping'] in ('grouper', 'big') or (o['grouping'].startswith('supplied') and rng.random() < 0.5):
        d = np.hypot(xi[:, None] - xi[None, :], yi[:, None] - yi[None, :])
        same = s.cid[:, None] == s.cid[None, :]
        inter = float(d[~same].min()) if (~same).any() else np.inf
        if o['grouping'] == 'big':
            sep = float(np.max(d) * 1.5 + 10.0)
        else:
            sep = 2.4 * s.fwhm + 1.5
            if not sep < inter - 0.5:
                case.skip('cluster_gap_too_small_for_grouper')
        grouper = SourceGrouper(sep)
    if o['grouping'] in ('grouper',):
        expect_gid = O.single_linkage(xi, yi, sep)
        if not O.same_partition(expect_gid, s.cid) or not O.tie_free(xi, yi, sep):
            case.skip('init_offsets_broke_cluster_linkage')
    elif o['grouping'] == 'big':
        expect_gid = np.ones(n, dtype=int)
    elif o['grouping'] == 'none':
        expect_gid = np.arange(1, n + 1)
    else:
        # supplied group_id column, documented to be used as is: arbitrary integer labels (zero-based, with gaps,
        # negative, near the dtype maximum), any numpy integer dtype or a plain list; one label per cluster,
        # 'merge' joins two clusters, 'one' puts everything into one group, 'own' gives every source its own group
        member = np.asarray(s.cid).copy()
        if o['grouping'] == 'supplied_merge' and len(o['sizes']) > 1:
            member[member == 1] = 0
        elif o['grouping'] == 'supplied_one':
            member[:] = 0
        elif o['grouping'] == 'supplied_own':
            member = np.arange(n)
        keys = list(dict.fromkeys(member.tolist()))
        labs = dict(zip(keys, _gen_labels(rng, len(keys), o['label_scheme'], o['label_dtype'])))
        supplied = [labs[int(c)] for c in member]
        init['group_id'] = supplied if o['label_dtype'] == 'list' else np.array(supplied, dtype=o['label_dtype'])
        expect_gid = O.first_appearance(member)
    fitgroup = np.asarray(expect_gid)
    gsize = O.group_sizes(fitgroup)

    # ---- ids -------------------------------------------------------------------------
    ids = np.arange(1, n + 1)
    if o['ids'] == 'permutation':
        ids = (rng.permutation(n) + 1).astype(_pick(rng, ['int64', 'int32', 'uint8', 'uint64']))
        init['id'] = ids
    elif o['ids'] == 'arbitrary':
        # unique ids that are not 1..N (zero-based, gaps). The id column is not documented as an input: either the
        # table is accepted (then rows must stay associated with their id) or it is refused with ValueError
        ids = rng.choice(np.arange(0, 500), n, replace=False)
        if rng.random() < 0.3:
            ids = np.arange(n)
        init['id'] = ids

    # ---- image, mask, error, background ----------------------------------------------
    data, mask = _make_mask_and_garbage(case, s, o, xi, yi, nfree)
    pert = None
    if o['perturbed']:
        yy, xx = np.mgrid[:s.shape[0], :s.shape[1]]
        amp = 0.03 * float(np.min(s.peaks))
        pert = amp * (np.sin(xx / rng.uniform(2, 5) + rng.uniform(0, 6)) * np.cos(yy / rng.uniform(2, 5))
                      + 0.3 * rng.normal(0, 1, s.shape))
        data = data + pert
    bkg_true = np.zeros(n)
    localbkg_estimator = None
    if o['bkg']:
        b = float(rng.uniform(-20, 50)) * o.get('mag', 1.0)
        if o['bkg'] == 'column':
            if o.get('int_columns'):
                b = float(int(b))
            data = data + b
            bkg_true[:] = b
            init['local_bkg'] = bkg_true.astype(np.int64) if o.get('int_columns') else bkg_true
        elif o['bkg'] == 'column_per_source':
            bkg_true = rng.uniform(-20, 50, n) * o.get('mag', 1.0)
            ped = np.zeros(s.shape)
            for i in range(n):
                rows, cols, _, _ = O.fit_window(s.shape, fs, xi[i], yi[i])
                ped[np.ix_(rows, cols)] += bkg_true[i]
            data = data + ped
            init['local_bkg'] = bkg_true
        else:
            rin = 9.5 * s.fwhm * G.FWHM2SIG * 1.2 if s.info['support'] is None else s.info['support'] * 1.45 + 1
            rout = rin + float(rng.uniform(2.5, 5))
            if o['bkg'] == 'estimator_plane':
                # tilted background: the fit is no longer exact (not demanded); the reported local_bkg must be the
                # documented sigma-clipped median over the pixels whose centres lie in the annulus
                yy, xx = np.mgrid[:s.shape[0], :s.shape[1]]
                data = data + b + o.get('mag', 1.0) * (rng.uniform(-0.5, 0.5) * xx + rng.uniform(-0.5, 0.5) * yy)
                from astropy.stats import SigmaClip
                sc = SigmaClip(sigma=3.0, maxiters=10)
                for i in range(n):
                    rr = np.hypot(xx - xi[i], yy - yi[i])
                    sel = (rr >= rin) & (rr < rout)
                    if mask is not None:
                        sel &= ~mask
                    if np.any(np.abs(rr - rin) < 1e-9) or np.any(np.abs(rr - rout) < 1e-9):
                        case.skip('annulus_edge_through_pixel_centre')
                    bkg_true[i] = float(np.median(sc(data[sel], masked=False)))
            else:
                data = data + b
                bkg_true[:] = b
            localbkg_estimator = LocalBackground(rin, rout)
    error = None
    if o['error']:
        sc = 0.05 * float(np.max(s.peaks))
        if o['error'] == 'random':
            error = sc * rng.uniform(0.3, 3.0, s.shape)
        elif o['error'] == 'poisson':
            error = np.sqrt(np.abs(s.data) + sc)
        else:
            error = np.full(s.shape, sc)

    # ---- memory layout / dtype of the arrays handed over (values unchanged, float32: the rounded values) -------
    lay = o.get('layout', 'plain')
    if o['nonfinite'] or o['perturbed'] or o['bkg'] in ('estimator', 'estimator_plane'):
        # (float32 input makes the annulus median itself a float32 computation: not a layout question)
        lay = lay if lay != 'float32' else 'fortran'
    data, data_obj = _lay(data, lay)
    mask, mask_obj = _lay(mask, lay if lay != 'float32' else 'strided')
    error, err_obj = _lay(error, lay)
    case.note('axis_layout_' + lay)
    case.note('axis_magnitude_' + o.get('mag_kind', 'plain'))
    case.note('axis_argform_' + o.get('argform', 'plain'))
    case.note('axis_shape_' + str(o.get('elongated')))

    # ---- bounds -------------------------------------------------------------------
    bounds = None
    bx = by = None
    if o['bounds']:
        kind = o['bounds']
        if kind == 'loose':
            bounds = float(rng.uniform(0.8, 2.0))
            bx = by = bounds
        elif kind == 'binding':
            bounds = float(rng.uniform(0.1, 0.45))
            bx = by = bounds
        elif kind == 'tuple':
            bx, by = float(rng.uniform(0.15, 1.5)), float(rng.uniform(0.15, 1.5))
            bounds = (bx, by)
        elif kind == 'xnone':
            by = float(rng.uniform(0.15, 1.5))
            bounds = (None, by)
        else:
            bx = float(rng.uniform(0.15, 1.5))
            bounds = (bx, None)
    tx, ty = np.asarray(s.truth['x']), np.asarray(s.truth['y'])
    limited = np.zeros(n, bool)
    if bx is not None:
        limited |= np.abs(tx - xi) >= bx - 1e-3
    if by is not None:
        limited |= np.abs(ty - yi) >= by - 1e-3
    # a bound-limited member spoils its whole group
    if getattr(s, 'starved', None) is not None:
        limited[s.starved] = True
    limited_grp = np.array([limited[fitgroup == g].any() for g in fitgroup])

    # ---- quantifier preconditions -------------------------------------------------------
    cont = G.contamination(s.stack, s.peaks, fitgroup, s.shape, fs, xi, yi)
    if cont > 1e-9 and not o['perturbed']:
        case.skip('unmodelled_neighbour_above_1e-9')
    case.dev('unmodelled_neighbour_contribution', cont)
    eff_mask = ~np.isfinite(data) if mask is None else (mask | ~np.isfinite(data))
    facts = [O.window_facts(data, mask, fs, xi[i], yi[i]) for i in range(n)]
    # initial position exactly on a pixel boundary (k + 0.5): the centre pixel may be either neighbour; when the two
    # choices differ in a judged fact the window-dependent comparisons of that source are not made
    amb = np.zeros(n, bool)
    for i in range(n):
        cxs = [facts[i]['cx']] + ([facts[i]['cx'] - 1] if not O.half_integer_free([xi[i]]) else [])
        cys = [facts[i]['cy']] + ([facts[i]['cy'] - 1] if not O.half_integer_free([yi[i]]) else [])
        if len(cxs) * len(cys) > 1:
            case.note('axis2_init_exactly_on_pixel_boundary')
            key = lambda f: (f['npix'], f['nmasked'], f['trimmed'], f['centre_ok'])  # noqa: E731
            alts = [O.window_facts(data, mask, fs, xi[i], yi[i], centre=(a, b)) for a in cxs for b in cys]
            amb[i] = len({key(f) for f in alts}) > 1
    if amb.any():
        case.note('axis2_half_integer_window_ambiguous_sources', int(amb.sum()))
    if any(f['npix'] == 0 for f in facts):
        case.skip('window_fully_masked')
    # determinacy: enough usable pixels per group
    for g in set(fitgroup.tolist()):
        mem = np.nonzero(fitgroup == g)[0]
        if sum(facts[i]['npix'] for i in mem) < nfree * len(mem) + 4 and o['mask'] != 'starved':
            case.skip('underdetermined_fit')

    # ---- units / containers ------------------------------------------------------------
    unit = None
    call_data, call_err, call_mask = data_obj, err_obj, mask_obj
    if o['units']:
        unit = u.Jy
        call_data = data_obj * unit
        call_err = None if error is None else err_obj * unit
        fl = init[names[2]]
        init[names[2]] = (np.asarray(fl) * 1e3) * u.mJy if rng.random() < 0.5 else np.asarray(fl) * unit
        if 'local_bkg' in init.colnames:
            init['local_bkg'] = np.asarray(init['local_bkg']) * unit
    if o['nddata']:
        call_data = NDData(data_obj, mask=mask_obj,
                           uncertainty=None if error is None else StdDevUncertainty(err_obj))

    # ---- finder ------------------------------------------------------------------------
    finder = None
    aper_r = None
    call_init = init
    if o.get('provenance') in ('table_slice', 'both') and not o['finder']:
        # the init table is a slice (view) of a larger table with unrelated rows before and after
        from astropy.table import vstack
        head, tail = init[:1].copy(), init[-1:].copy()
        for junk in (head, tail):
            for c in junk.colnames:
                if junk[c].dtype.kind == 'f':
                    junk[c] = junk[c] * 0 - 77.0 * (getattr(junk[c], 'unit', None) or 1)
        big = vstack([head, head, init, tail])
        call_init = big[2:2 + n]
        case.note('axis2_provenance_init_table_is_slice')
    for key, val in (('axis2_truth_on_pixel_centre_or_corner', o.get('snap_truth')),
                     ('axis2_init_exact_' + str(o.get('init_exact')), o.get('init_exact')),
                     ('axis2_mask_all_false', o['mask'] == 'all_false'),
                     ('axis2_border_' + str(o['edge']), o['edge']),
                     ('axis2_unequal_oversampling', len(set(s.info.get('oversampling', [1, 1]))) > 1),
                     ('axis2_even_epsf_size', any(s.info.get('even', [False])))):
        if val:
            case.note(key)
    if o['finder']:
        from photutils.detection import DAOStarFinder
        finder = DAOStarFinder(threshold=0.02 * float(np.min(np.abs(s.peaks))), fwhm=s.fwhm)
        aper_r = float(s.fwhm * rng.uniform(1.0, 1.6))
        call_init = None

    case.params = dict(kind=o['kind'], n=n, sizes=o['sizes'], fit_shape=list(fs), shape=list(s.shape),
                       fwhm=round(s.fwhm, 3), order=o['order'], grouping=o['grouping'],
                       sep=None if sep is None else round(sep, 3), edge=o['edge'], mask=o['mask'],
                       nonfinite=o['nonfinite'], error=o['error'], bkg=o['bkg'], bounds=o['bounds'], fixed=o['fixed'],
                       finder=o['finder'], ids=o['ids'], maxiters=o['maxiters'], perturbed=o['perturbed'],
                       units=o['units'], nddata=o['nddata'], cols=list(init.colnames),
                       labels=[o.get('label_scheme'), o.get('label_dtype')], int_columns=bool(o.get('int_columns')), info={k: v for k, v in s.info.items()
                                                                                    if k != 'grid'})
    case.digest = core.arr_digest(data, mask, error, xi, yi, fi, np.asarray(expect_gid), ids) + core.digest(
        case.params)
    trimmed_any = any(f['trimmed'] or f['nmasked'] for f in facts)
    case.nontrivial = bool(n >= 2 or trimmed_any or limited.any())

    snap = (np.array(data_obj, copy=True), None if mask is None else np.array(mask_obj, copy=True),
            None if error is None else np.array(err_obj, copy=True), init.copy())

    kw = dict(localbkg_estimator=localbkg_estimator, finder=finder, aperture_radius=aper_r)
    kw = {k: v for k, v in kw.items() if v is not None}
    try:
        if o['nddata']:
            p, tbl = _run_phot(o, s, model, grouper, call_data, None, None, call_init, bounds, kw)
        else:
            p, tbl = _run_phot(o, s, model, grouper, call_data, call_mask, call_err, call_init, bounds, kw)
    except (ValueError, IndexError) as exc:
        loc = core.exc_location(exc) or ''
        if o['ids'] == 'arbitrary' and (('Inconsistent data column lengths' in str(exc) and loc.endswith(':__call__'))
                                        or (isinstance(exc, IndexError) and loc.endswith(':_calc_fit_metrics'))):
            # 'id' is not a documented input column; ids that are not 1..N are refused (the inner join of the init
            # table with the fit table, whose ids are always 1..N, loses rows -> ValueError, or IndexError when no
            # row is left): not demanded by the property, counted
            case.note('arbitrary_ids_refused_' + type(exc).__name__)
            case.skip('supplied_ids_not_1_to_N_refused')
        if o['mask'] == 'starved' and 'array must not contain infs or NaNs' in str(exc):
            # the starved source has no more usable pixels than free parameters (the class exists for the
            # npixfit / flags book-keeping): on that under-determined problem the trusted optimiser may run away
            # until the Jacobian is non-finite and scipy's SVD refuses it (seen once in 14 249 thorough cases).
            # An optimiser failure on an under-determined fit, not a book-keeping matter: counted, not judged.
            case.note('starved_fit_optimizer_diverged_nonfinite_jacobian')
            case.skip('starved_fit_optimizer_diverged')
        raise
    except NonFiniteValueError as exc:
        case.check(False, 'nonfinite_pixels_are_automatically_masked',
                   {'cls': case.cls, 'nonfinite': bool(o['nonfinite']), 'mask_given': mask is not None,
                    'exc': 'NonFiniteValueError'}, msg=str(exc)[:200], at=core.exc_location(exc))
        return
    case.check(tbl is not None, 'returns_table', mech)
    if tbl is None:
        return

    # inputs untouched (C10 owns this; cheap ride-along so that a mutation cannot silently corrupt the oracle)
    same_in = (core.exact(np.asarray(data_obj), snap[0]) and (mask is None or np.array_equal(mask_obj, snap[1]))
               and (error is None or core.exact(np.asarray(err_obj), snap[2])) and init.colnames == snap[3].colnames
               and all(core.exact(_col(init, c), _col(snap[3], c)) for c in init.colnames))
    case.check(same_in, 'inputs_unchanged', mech)

    # ---- finder-based: associate rows with truth ------------------------------------------
    if o['finder']:
        fr = p.finder_results
        case.check(fr is not None and len(fr) == len(tbl), 'finder_results_kept', mech)
        fx, fy = _col(tbl, 'x_init'), _col(tbl, 'y_init')
        case.close(fx, np.asarray(fr['xcentroid']), 'init_positions_are_finder_centroids', mech=mech)
        case.close(fy, np.asarray(fr['ycentroid']), 'init_positions_are_finder_centroids', mech=mech)
        if len(tbl) != n:
            case.skip('finder_did_not_return_one_detection_per_source')
        dmat = np.hypot(fx[:, None] - tx[None, :], fy[:, None] - ty[None, :])
        match = dmat.argmin(axis=1)
        if len(set(match.tolist())) != n or float(dmat.min(axis=1).max()) > 1.0:
            case.skip('finder_detection_further_than_1px_from_truth')
        # re-index the truth into output row order
        perm = match
        tx, ty = tx[perm], ty[perm]
        tflux = np.asarray(s.truth['flux'])[perm]
        xi, yi = fx, fy
        facts = [O.window_facts(data, mask, fs, xi[i], yi[i]) for i in range(n)]
        if not (O.half_integer_free(xi) and O.half_integer_free(yi)):
            case.skip('init_on_pixel_boundary')
        if grouper is not None:
            expect_gid = O.single_linkage(xi, yi, sep)
            if not O.tie_free(xi, yi, sep):
                case.skip('grouper_tie')
        fitgroup = np.asarray(expect_gid)
        gsize = O.group_sizes(fitgroup)
        if gsize.max() > 1:
            case.skip('finder_sources_grouped')
        bkg_true = bkg_true[perm]
        ttruth = {name: np.asarray(s.truth[name])[perm] for name in s.info['free']}
        cont = G.contamination(s.stack[perm], s.peaks[perm], fitgroup, s.shape, fs, xi, yi)
        if cont > 1e-9:
            case.skip('unmodelled_neighbour_above_1e-9')
        peaks = s.peaks[perm]
        limited = limited_grp = np.zeros(n, bool)
    else:
        tflux = np.asarray(s.truth['flux'])
        ttruth = {name: np.asarray(s.truth[name]) for name in s.info['free']}
        peaks = s.peaks

    # ======================================================================================
    # bookkeeping
    # ======================================================================================
    case.check(len(tbl) == n, 'one_row_per_source', mech, rows=len(tbl), n=n)
    if len(tbl) != n:
        return
    out_id = _col(tbl, 'id')
    if o['ids'] in ('permutation', 'arbitrary'):
        # supplied ids: every output row must carry the initial values of the input row with the same id
        kept = case.check(sorted(out_id.tolist()) == sorted(ids.tolist()), 'supplied_ids_kept',
                          dict(mech, ids=o['ids']), obs=out_id.tolist(), exp=ids.tolist())
        if not kept:
            return
        pos = {int(v): k for k, v in enumerate(ids)}
        rowmap = np.array([pos[int(v)] for v in out_id])
        order_kept = bool(np.array_equal(rowmap, np.arange(n)))
        case.note('supplied_id_rows_in_input_order' if order_kept else 'supplied_id_rows_sorted_by_id')
    else:
        case.check(np.array_equal(out_id, np.arange(1, n + 1)), 'ids_are_1_to_N', mech, obs=out_id.tolist())
        rowmap = np.arange(n)
    # rows in input order: the init columns are the supplied values, row by row
    if not o['finder']:
        case.close(_col(tbl, 'x_init'), xi[rowmap], 'rows_in_input_order', mech=dict(mech, col='x_init'))
        case.close(_col(tbl, 'y_init'), yi[rowmap], 'rows_in_input_order', mech=dict(mech, col='y_init'))
        if unit is None:
            case.close(_col(tbl, 'flux_init'), fi[rowmap], 'rows_in_input_order', mech=dict(mech, col='flux_init'))
        else:
            case.close(_col(tbl, 'flux_init'), fi[rowmap], 'rows_in_input_order', rtol=1e-14,
                       mech=dict(mech, col='flux_init'))
        for name, v in extra.items():
            case.close(_col(tbl, name + '_init'), v[rowmap], 'rows_in_input_order', mech=dict(mech, col='extra_init'))
    R = rowmap      # output row k corresponds to scene source R[k]
    txo, tyo, tfo = tx[R], ty[R], tflux[R]
    # group ids
    gid = _col(tbl, 'group_id')
    gmech = dict(mech, grouping=o['grouping'])
    grp_ok = True
    if o['grouping'].startswith('supplied'):
        sup = [int(supplied[i]) for i in R]
        gmech = dict(gmech, labels=o['label_scheme'])
        grp_ok &= case.check(gid.dtype.kind in 'iu' and [int(v) for v in gid] == sup, 'supplied_group_id_honoured',
                             gmech, obs=[int(v) for v in gid] if gid.dtype.kind in 'iu' else repr(gid), exp=sup,
                             dtype=str(gid.dtype), supplied_dtype=o['label_dtype'])
    elif o['grouping'] == 'none':
        grp_ok &= case.check(np.array_equal(gid, out_id), 'ungrouped_group_id_equals_id', gmech, obs=gid.tolist())
    else:
        exp = np.asarray(expect_gid)[R]
        grp_ok &= case.check(O.same_partition(gid, exp), 'group_id_is_single_linkage_partition', gmech,
                             obs=gid.tolist(), exp=exp.tolist())
        if o['ids'] is None:
            case.check(np.array_equal(gid, O.first_appearance(exp)), 'group_id_numbered_by_first_appearance', gmech,
                       obs=gid.tolist(), exp=O.first_appearance(exp).tolist())
        # the grouper called directly gives the same answer
        direct = grouper(xi, yi)
        case.check(np.array_equal(np.asarray(direct), np.asarray(expect_gid)) if o['grouping'] == 'grouper'
                   else O.same_partition(direct, expect_gid), 'grouper_direct_call', gmech, obs=list(map(int, direct)))
    if grp_ok:
        case.check(np.array_equal(_col(tbl, 'group_size'), gsize[R]), 'group_size_is_cluster_size', gmech,
                   obs=_col(tbl, 'group_size').tolist(), exp=gsize[R].tolist())
    else:
        # consistent with the (wrong) group ids actually used? still a bookkeeping fact worth checking
        case.check(np.array_equal(_col(tbl, 'group_size'), O.group_sizes(gid)), 'group_size_matches_reported_group_id',
                   gmech, obs=_col(tbl, 'group_size').tolist())
    # local background column
    if o['bkg'] in ('column', 'column_per_source'):
        case.close(_col(tbl, 'local_bkg'), bkg_true[R], 'local_bkg_column_honoured', mech=mech)
    elif o['bkg'] == 'estimator':
        case.close(_col(tbl, 'local_bkg'), bkg_true[R], 'local_bkg_estimate', rtol=0, atol=1e-9 * float(peaks.max()),
                   mech=mech)
    elif o['bkg'] == 'estimator_plane':
        case.close(_col(tbl, 'local_bkg'), bkg_true[R], 'local_bkg_is_clipped_median_of_annulus', rtol=1e-10,
                   atol=1e-12 * float(peaks.max()), mech=mech)
    else:
        case.check(bool(np.all(_col(tbl, 'local_bkg') == 0)), 'local_bkg_zero_without_estimator', mech)
    # npixfit
    npix_exp = np.array([facts[i]['npix'] for i in R])
    nf_mech = dict(mech, nonfinite=bool(o['nonfinite']), mask_given=mask is not None)
    sure = ~amb[R] if not o['finder'] else np.ones(n, bool)
    case.check(np.array_equal(_col(tbl, 'npixfit')[sure], npix_exp[sure]), 'npixfit_counts_unmasked_window_pixels',
               nf_mech, obs=_col(tbl, 'npixfit').tolist(), exp=npix_exp.tolist())
    # cfit NaN <=> centre pixel unusable
    cfit = _col(tbl, 'cfit').astype(float).ravel()
    qfit = _col(tbl, 'qfit').astype(float).ravel()
    cen_ok = np.array([facts[i]['centre_ok'] for i in R])
    case.check(np.array_equal(np.isnan(cfit)[sure], ~cen_ok[sure]), 'cfit_nan_iff_centre_pixel_masked', mech,
               obs=np.isnan(cfit).tolist(), exp=(~cen_ok).tolist())
    # columns and units
    xf, yf, ff = _col(tbl, 'x_fit'), _col(tbl, 'y_fit'), _col(tbl, 'flux_fit')
    if unit is not None:
        for c in ('flux_init', 'flux_fit', 'flux_err', 'local_bkg'):
            if c == 'flux_err' and o['fixed'] == 'flux':
                # NaN placeholder column of a fixed parameter: the library leaves it unit-less; nothing documented
                case.note('fixed_flux_err_column_without_unit' if getattr(tbl[c], 'unit', None) != unit
                          else 'fixed_flux_err_column_with_unit')
                continue
            case.check(getattr(tbl[c], 'unit', None) == unit, 'flux_columns_carry_data_unit', dict(mech, col=c),
                       unit=str(getattr(tbl[c], 'unit', None)))
    # ---- flags ------------------------------------------------------------------------
    flags = _col(tbl, 'flags').astype(int)
    finfos = p.fit_info['fit_infos']
    xin, yin = _col(tbl, 'x_init'), _col(tbl, 'y_init')
    for k in range(n):
        fi_k = finfos[k]
        status = fi_k.get('status', None)
        ierr = fi_k.get('ierr', None)
        notconv = (ierr not in (1, 2, 3, 4)) if ierr is not None else (status in (-1, 0))
        covmiss = fi_k.get('param_cov', None) is None
        # independent of the (possibly mis-ordered) fit_info list: astropy returns no covariance when the group has
        # no more data points than free parameters
        mem = [j for j in range(n) if fitgroup[R[j]] == fitgroup[R[k]]]
        starving = sum(facts[R[j]]['npix'] for j in mem) <= nfree * len(mem)
        covmiss = True if starving else (None if covmiss else False)
        # 32: 'the fit x or y position is at the bounded value': set when within 1e-9 px of a bound, clear when
        # further than 1e-6 px from every bound, either in between
        dist = []
        if bx is not None:
            dist += [abs(xf[k] - (xin[k] - bx)), abs(xf[k] - (xin[k] + bx))]
        if by is not None:
            dist += [abs(yf[k] - (yin[k] - by)), abs(yf[k] - (yin[k] + by))]
        hit = False if not dist else (True if min(dist) <= 1e-9 else (False if min(dist) > 1e-6 else None))
        exp = O.flag_expectations(facts[R[k]], xf[k], yf[k], ff[k], s.shape, hit, notconv, covmiss)
        if not sure[k]:
            exp[1] = None
            exp[16] = None if exp[16] is True else exp[16]
        for bit, want in exp.items():
            got = bool(flags[k] & bit)
            if want is None:
                case.note(f'flag{bit}_either')
                continue
            if want:
                case.note(f'flag{bit}_expected_set')
            case.check(got == want, f'flag_{bit}_vs_definition', dict(mech, expected_set=bool(want)),
                       row=k, flags=int(flags[k]), x_fit=float(xf[k]), y_fit=float(yf[k]), flux_fit=float(ff[k]),
                       npixfit=int(npix_exp[k]), shape=list(s.shape))
        case.check(flags[k] & ~63 == 0, 'flags_only_documented_bits', mech, flags=int(flags[k]))
        # a bound can only be reported hit if the fit was asked to stay inside it
        if bx is not None:
            case.check(xin[k] - bx - 1e-12 <= xf[k] <= xin[k] + bx + 1e-12, 'fit_respects_xy_bounds', mech, axis='x')
        if by is not None:
            case.check(yin[k] - by - 1e-12 <= yf[k] <= yin[k] + by + 1e-12, 'fit_respects_xy_bounds', mech, axis='y')
    # fixed parameters keep their initial value exactly
    if o['fixed']:
        fm = dict(mech, fixed=o['fixed'])
        if o['fixed'] in ('xy', 'x'):
            case.close(xf, xin, 'fixed_parameter_keeps_init_value', mech=fm, col='x')
            case.check(bool(np.all(np.isnan(_col(tbl, 'x_err')))), 'fixed_parameter_error_is_nan', fm)
        if o['fixed'] in ('xy', 'y'):
            case.close(yf, yin, 'fixed_parameter_keeps_init_value', mech=fm, col='y')
            case.check(bool(np.all(np.isnan(_col(tbl, 'y_err')))), 'fixed_parameter_error_is_nan', fm)
        if o['fixed'] == 'flux':
            case.close(ff, _col(tbl, 'flux_init'), 'fixed_parameter_keeps_init_value', mech=fm, col='flux')
    # fixed shape parameters are not fitted: no *_fit column, and the fitted model table keeps the model value
    for pname in model.param_names:
        if pname in G.pnames(model):
            continue
        if model.fixed[pname]:
            case.check(pname + '_fit' not in tbl.colnames, 'fixed_shape_parameter_not_reported_as_fit', mech,
                       name=pname)
        else:
            case.check(pname + '_fit' in tbl.colnames and pname + '_err' in tbl.colnames,
                       'free_shape_parameter_reported', mech, name=pname)

    if hasattr(type(s.model), 'fit_deriv') and getattr(s.model, 'fit_deriv', None) is not None and o['kind'] in (
            'cgpsf', 'cgpsf_free', 'gpsf', 'gpsf_free') and rng.random() < 0.3:
        _check_fit_deriv(case, s.model, mech)

    # ======================================================================================
    # recovery (noise-free, converging fits only)
    # ======================================================================================
    do_recovery = (not o['perturbed']) and o['maxiters'] is None and grp_ok and o['bkg'] != 'estimator_plane'
    big = (2 * max(s.shape) + 1, 2 * max(s.shape) + 1)
    undecided = set()
    worst_dev = dict(pos=0.0, flux=0.0, shape=0.0)
    if do_recovery:
        pend = {}        # fit group -> list of (what, mech, ok, detail) of its members
        for k in range(n):
            i = R[k]
            if limited_grp[i]:
                case.note('recovery_not_demanded_bound_limited')
                if gsize[i] == 1 and getattr(s, 'starved', None) != i and 1e-2 <= o.get('mag', 1.0) <= 1e4:
                    # a single source whose true position lies beyond a bound ends on that bound
                    out_x = bx is not None and abs(txo[k] - xin[k]) > bx - 1e-3
                    out_y = by is not None and abs(tyo[k] - yin[k]) > by - 1e-3
                    for (fitv, initv, truev, b, ax, other_out) in ((xf[k], xin[k], txo[k], bx, 'x', out_y),
                                                                   (yf[k], yin[k], tyo[k], by, 'y', out_x)):
                        # (only when the truth is outside along this axis alone: with both axes binding the
                        # constrained optimum need not touch both bounds)
                        if b is not None and abs(truev - initv) > b + 0.02 and not other_out:
                            want = initv + np.sign(truev - initv) * b
                            case.dev('bound_limited_distance_from_bound', abs(fitv - want))
                            case.check(abs(fitv - want) <= 1e-6, 'bound_limited_fit_sits_on_bound', dict(mech, axis=ax),
                                       fit=float(fitv), bound=float(want), true=float(truev))
                continue
            tol = TOL_ISO if gsize[i] == 1 else TOL_GRP
            tag = 'isolated' if gsize[i] == 1 else 'grouped'
            rm = dict(mech, fit=tag)
            dpos = max(abs(xf[k] - txo[k]), abs(yf[k] - tyo[k]))
            dfl = abs(ff[k] / tfo[k] - 1)
            lst = pend.setdefault(int(fitgroup[i]), [])
            lst.append(('recovers_position', rm, bool(dpos <= tol['pos']), f'recovery_pos_{tag}[{o["kind"]}]', dpos,
                        dict(row=k, dpos=float(dpos), x_fit=float(xf[k]), y_fit=float(yf[k]), x_true=float(txo[k]),
                             y_true=float(tyo[k]), flags=int(flags[k]))))
            lst.append(('recovers_flux', rm, bool(dfl <= tol['flux']), f'recovery_flux_{tag}[{o["kind"]}]', dfl,
                        dict(row=k, dflux=float(dfl), flux_fit=float(ff[k]), flux_true=float(tfo[k]),
                             flags=int(flags[k]))))
            for name in s.info['free']:
                if 'theta' in s.info['free']:
                    # (x_fwhm, y_fwhm, theta) is only defined up to theta+180 and (swap widths, theta+90):
                    # compare the shape tensor R diag(wx^2, wy^2) R^T instead of the raw parameters
                    if name != 'theta':
                        continue
                    dv = _tensor_dev([_col(tbl, q + '_fit')[k] for q in ('x_fwhm', 'y_fwhm', 'theta')],
                                     [ttruth[q][i] for q in ('x_fwhm', 'y_fwhm', 'theta')])
                    name = 'shape_tensor'
                else:
                    dv = abs(_col(tbl, name + '_fit')[k] / ttruth[name][i] - 1)
                lst.append(('recovers_free_shape_parameter', rm, bool(dv <= tol['shape']),
                            f'recovery_shape_{tag}[{o["kind"]}]', dv, dict(name=name, dev=float(dv))))
        for g, lst in pend.items():
            if not all(okk for (_, _, okk, _, _, _) in lst):
                rows_g0 = [k for k in range(n) if int(fitgroup[R[k]]) == g]
                if o.get('mag_kind', 'plain') != 'plain' and any(int(flags[k]) & 8 for k in rows_g0):
                    # the library itself flags the rows (8: 'the fit may not have converged' - the trusted optimiser
                    # stopped on its evaluation limit) and the image magnitude is far from 1 (seen: Poisson-weighted
                    # group fit at 4e-17, 'maximum number of function evaluations is exceeded'): the convergence
                    # speed of scipy's TRF at such magnitudes is not photutils' book-keeping. Undecided, counted per
                    # magnitude kind; at plain magnitudes a flagged row is still judged with the arbitration below.
                    undecided.add(g)
                    case.note('recovery_undecided_library_flagged_nonconvergence[magnitude ' + o['mag_kind'] + ']')
                    continue
                # Arbitration: is this the optimiser leaving its basin (not photutils' business) or book-keeping?
                # Re-fit the group with an independent, straightforward use of the same astropy fitter on
                # correctly book-kept inputs (own windows, own ordering, same call mode).  Only when that fit
                # recovers the truth is the failure attributed to photutils.
                rows_g = [k for k in range(n) if int(fitgroup[R[k]]) == g]
                ok_ind = _independent_fit_recovers(model, tbl, rows_g, s, o, data, mask, error, bx, by,
                                                   txo, tyo, tfo, TOL_ISO if len(rows_g) == 1 else TOL_GRP,
                                                   shape_truth={q: ttruth[q][R] for q in s.info['free']})
                if not ok_ind:
                    undecided.add(g)
                    case.note('recovery_undecided_independent_fit_also_left_basin'
                              + ('' if o.get('mag_kind', 'plain') == 'plain' else '[magnitude ' + o['mag_kind'] + ']'))
                    continue
            for (what, rm, okk, devname, dev, det) in lst:
                case.dev(devname, dev)
                case.check(okk, what, rm, **det)
                if what == 'recovers_position':
                    worst_dev['pos'] = max(worst_dev['pos'], dev)
                elif what == 'recovers_flux':
                    worst_dev['flux'] = max(worst_dev['flux'], dev)
                elif what == 'recovers_free_shape_parameter':
                    worst_dev['shape'] = max(worst_dev['shape'], dev)
        # residual image ~ 0 wherever the data are usable
        if not limited_grp.any() and not undecided:
            res = np.asarray(_strip(p.make_residual_image(call_data if not o['nddata'] else data, psf_shape=big)))
            good = ~eff_mask
            bkgimg = 0.0
            if o['bkg'] in ('column', 'estimator'):
                bkgimg = bkg_true[0]
            elif o['bkg'] == 'column_per_source':
                good = good & False
            if good.any():
                rr = float(np.max(np.abs(res[good] - bkgimg))) / float(np.max(np.abs(peaks)))
                tag = 'isolated' if gsize.max() == 1 else 'grouped'
                case.dev(f'residual_over_peak_{tag}', rr)
                tol = TOL_ISO if gsize.max() == 1 else TOL_GRP
                # what the accepted deviations of the table themselves contribute to the residual (first order:
                # dpos / sigma + dflux, in units of the peak); only matters where the fitter converges loosely
                # (image magnitude far from 1: absolute gtol of the trusted fitter)
                # (free shape parameters: a relative width deviation d changes the peak by ~2 d; seen at thorough
                # seed 3: gpsf_free, residual 4.8e-5 against 2.6e-5 from position and flux alone)
                prop = 3.0 * (worst_dev['pos'] / (0.3 * s.fwhm) + worst_dev['flux'] + 2.0 * worst_dev['shape'])
                case.check(rr <= tol['resid'] + prop, 'residual_image_is_zero', dict(mech, fit=tag), rel=rr,
                           propagated=prop)

    s.undecided = bool(undecided)
    # qfit / cfit from their documented definitions (meaningful only when residuals are not round-off)
    if o['perturbed'] and grp_ok and O.half_integer_free(xi) and O.half_integer_free(yi):
        _check_metrics(case, p, tbl, s, o, model, data, mask, error, facts, R, fitgroup, mech)

    # ======================================================================================
    # relations on the real code
    # ======================================================================================
    if o['finder']:
        # PSFPhotometry from the finder == PSFPhotometry from the same positions supplied as init_params
        _rel_iterative(case, o, s, model, grouper, call_data, mask, call_err, None, bounds, kw, tbl, mech,
                       finder=finder, aper=aper_r)
        # the same positions supplied as init_params (finder not used): identical table
        from astropy.table import Table
        ip = Table()
        ip['x'] = np.asarray(p.finder_results['xcentroid'])
        ip['y'] = np.asarray(p.finder_results['ycentroid'])
        kw3 = {k: v for k, v in kw.items() if k != 'finder'}
        p3, t3 = _run_phot(o, s, model, grouper, call_data, mask, call_err, ip, bounds, kw3)
        fm = dict(mech, relation='finder_vs_init_params')
        for c in tbl.colnames:
            case.close(_col(t3, c), _col(tbl, c), 'finder_init_equals_same_positions_as_init_params', mech=dict(fm, col=c))
        return
    if o['kind'] in ('imagepsf', 'gridded') and not o['finder']:
        # image-based models: the default rendering window (psf_shape=None) is the array footprint, which depends on
        # the (y, x) oversampling factors and the array size along each axis: always looked at
        _default_window(case, p, tbl, s, o, model, call_data, data, dict(mech, relation='model_image'))
    rels = ['separate', _pick(rng, ['permute', 'scale_k', 'scale_k', 'iterative', 'model_image', 'separate', 'dtype',
                                    'dtype'])]
    if o['bkg'] in ('column', 'column_per_source'):
        rels.append('model_image')
    if o['nddata'] or o['units']:
        rels = [r for r in rels if r in ('iterative', 'model_image', 'permute')]
    for rel in dict.fromkeys(rels):
        if rel == 'separate':
            _rel_separate(case, o, s, model, grouper, data_obj, mask_obj, err_obj, init, bounds, kw, tbl, R, fitgroup, grp_ok,
                          mech)
        elif rel == 'permute' and n >= 2:
            _rel_permute(case, o, s, model, grouper, call_data, mask, call_err, init, bounds, kw, tbl, gsize, R,
                         grp_ok, mech, raw=(data, mask, error))
        elif rel == 'scale_k':
            _rel_scale(case, o, s, model, grouper, data_obj, mask_obj, err_obj, init, names, bounds, kw, tbl, gsize, R, rel,
                       grp_ok, mech, limited_grp)
        elif rel == 'dtype':
            _rel_dtype(case, o, s, model, grouper, init, names, bounds, kw, mech)
        elif rel == 'iterative':
            _rel_iterative(case, o, s, model, grouper, call_data, mask, call_err, init, bounds, kw, tbl, mech)
        elif rel == 'model_image':
            _rel_model_image(case, p, tbl, s, o, model, call_data, data, mech)


def _independent_fit_recovers(model, tbl, rows, s, o, data, mask, error, bx, by, txo, tyo, tfo, tol,
                              shape_truth=None, _alt=False):
    """Fit the group made of output rows `rows` from the initial values in the table, with own book-keeping.
    Initial positions exactly on a pixel boundary admit two fit windows: the arbiter must then succeed with both."""
    from astropy.modeling.fitting import TRFLSQFitter
    fs = o['fit_shape']
    if not _alt:
        xin0, yin0 = _col(tbl, 'x_init'), _col(tbl, 'y_init')
        if not (O.half_integer_free(xin0[rows]) and O.half_integer_free(yin0[rows])):
            if not _independent_fit_recovers(model, tbl, rows, s, o, data, mask, error, bx, by, txo, tyo, tfo, tol,
                                             shape_truth, _alt=True):
                return False
    xin, yin, fin, lb = _col(tbl, 'x_init'), _col(tbl, 'y_init'), _col(tbl, 'flux_init'), _col(tbl, 'local_bkg')
    comp = None
    xs, ys, zs, ws = [], [], [], []
    for k in rows:
        m = model.copy()
        G.set_xyf(m, float(xin[k]), float(yin[k]), float(fin[k]))
        xn, yn, fn = G.pnames(m)
        for name in s.info['free']:
            setattr(m, name, float(_col(tbl, name + '_init')[k]))
        if bx is not None:
            getattr(m, xn).bounds = (float(xin[k]) - bx, float(xin[k]) + bx)
        if by is not None:
            getattr(m, yn).bounds = (float(yin[k]) - by, float(yin[k]) + by)
        comp = m if comp is None else comp + m
        f = O.window_facts(data, mask, fs, xin[k], yin[k])
        if _alt:
            f = O.window_facts(data, mask, fs, xin[k], yin[k], centre=(
                f['cx'] - (0 if O.half_integer_free([xin[k]]) else 1), f['cy'] - (0 if O.half_integer_free([yin[k]]) else 1)))
        rr, cc = np.meshgrid(f['rows'], f['cols'], indexing='ij')
        good = f['good']
        xs.append(cc[good])
        ys.append(rr[good])
        zs.append(data[rr[good], cc[good]] - lb[k])
        if error is not None:
            ws.append(1.0 / error[rr[good], cc[good]])
    x, y, z = np.concatenate(xs), np.concatenate(ys), np.concatenate(zs)
    w = np.concatenate(ws) if ws else None
    try:
        # same call mode as PSFPhotometry's default fitter (analytic fit_deriv where the model has one): with right
        # book-keeping the two fits are then the same computation (fit_deriv itself is checked separately against
        # numerical derivatives: model_fit_deriv_matches_numerical_derivative)
        fit = TRFLSQFitter()(comp, x, y, z, weights=w, maxiter=100)
    except Exception:  # noqa: BLE001  (the arbiter failing means: undecided)
        return False
    # parameters of the sum are the members' parameter vectors concatenated in order
    names = list(model.param_names)
    P_ = len(names)
    ix, iy, ifl = (names.index(q) for q in G.pnames(model))
    vec = np.asarray(fit.parameters, float)
    for j, k in enumerate(rows):
        px, py, pf = vec[j * P_ + ix], vec[j * P_ + iy], vec[j * P_ + ifl]
        if max(abs(px - txo[k]), abs(py - tyo[k])) > tol['pos']:
            return False
        if abs(pf / tfo[k] - 1) > tol['flux']:
            return False
        if shape_truth:
            if 'theta' in shape_truth:
                got = [vec[j * P_ + names.index(q)] for q in ('x_fwhm', 'y_fwhm', 'theta')]
                if _tensor_dev(got, [shape_truth[q][k] for q in ('x_fwhm', 'y_fwhm', 'theta')]) > tol['shape']:
                    return False
            else:
                for q, tv in shape_truth.items():
                    if abs(vec[j * P_ + names.index(q)] / tv[k] - 1) > tol['shape']:
                        return False
    return True


def _check_fit_deriv(case, model, mech):
    """The analytic derivatives the default fitter uses == central differences of the model (the recovery oracle
    relies on them; CircularGaussianPSF once returned only the x_fwhm part of d/dfwhm)."""
    rng = case.rng
    names = list(model.param_names)
    vals = [float(getattr(model, q).value) for q in names]
    vals[names.index('flux')] = 10.0
    w = vals[names.index('fwhm')] if 'fwhm' in names else vals[names.index('x_fwhm')]
    x = rng.uniform(-1.5 * w, 1.5 * w, 40)
    y = rng.uniform(-1.5 * w, 1.5 * w, 40)
    ana = model.fit_deriv(x, y, *vals)
    for j, q in enumerate(names):
        h = 1e-6 * max(1.0, abs(vals[j]))
        up, dn = list(vals), list(vals)
        up[j] += h
        dn[j] -= h
        num = (np.asarray(model.evaluate(x, y, *up)) - np.asarray(model.evaluate(x, y, *dn))) / (2 * h)
        scale = float(np.max(np.abs(num))) + 1e-300
        case.check(bool(np.all(np.abs(np.asarray(ana[j]) - num) <= 1e-6 * scale)),
                   'model_fit_deriv_matches_numerical_derivative', dict(mech, param=q),
                   worst=float(np.max(np.abs(np.asarray(ana[j]) - num)) / scale))
        case.dev('fit_deriv_vs_numerical', float(np.max(np.abs(np.asarray(ana[j]) - num)) / scale))


def _tensor_dev(a, b):
    def tens(wx, wy, th):
        t = np.deg2rad(th)
        c, s_ = np.cos(t), np.sin(t)
        return np.array([wx ** 2 * c * c + wy ** 2 * s_ * s_, (wx ** 2 - wy ** 2) * c * s_,
                         wx ** 2 * s_ * s_ + wy ** 2 * c * c])
    ta, tb = tens(*a), tens(*b)
    return float(np.max(np.abs(ta - tb)) / (tb[0] + tb[2]))


def _strip(x):
    return x.value if hasattr(x, 'unit') and hasattr(x, 'value') else x


COMPARE_COLS = ['x_init', 'y_init', 'flux_init', 'local_bkg', 'x_fit', 'y_fit', 'flux_fit', 'x_err', 'y_err',
                'flux_err', 'npixfit', 'qfit', 'cfit', 'flags', 'group_size']


def _cmp_rows(case, a, arows, b, brows, what, mech, rtol=0.0, atol=0.0, cols=None):
    cols = cols or [c for c in a.colnames if c in b.colnames and c not in ('id', 'group_id', 'iter_detected')]
    ok = True
    for c in cols:
        va = _col(a, c)[arows].astype(float).ravel() if _col(a, c).dtype.kind in 'fiu' else _col(a, c)[arows]
        vb = _col(b, c)[brows].astype(float).ravel() if _col(b, c).dtype.kind in 'fiu' else _col(b, c)[brows]
        loose = c in ('x_err', 'y_err', 'flux_err', 'qfit', 'cfit') or c.endswith('_err')
        if rtol and loose:
            continue            # errors / metrics of a noise-free fit are round-off sized: no tolerance is meaningful
        ok &= case.close(va, vb, what, rtol=rtol, atol=atol, mech=dict(mech, col=c if not c.endswith('_fit') or c in (
            'x_fit', 'y_fit', 'flux_fit') else 'shape_fit'))
    return ok


def _rel_separate(case, o, s, model, grouper, data, mask, error, init, bounds, kw, tbl, R, fitgroup, grp_ok, mech):
    """Each group fitted alone (only its rows in init_params) == its rows in the full call: exact."""
    if not grp_ok or o['units'] or o['nddata']:
        return
    rng = case.rng
    groups = list(dict.fromkeys(fitgroup[R].tolist()))
    rng.shuffle(groups)
    for g in groups[:(4 if (o['maxiters'] is not None or o['mask'] == 'starved') else (2 if rng.random() < 0.3 else 1))]:
        rows_out = np.nonzero(fitgroup[R] == g)[0]
        if len(rows_out) == len(tbl):
            continue
        rows_in = np.sort(R[rows_out])                     # keep the relative input order
        sub = init[rows_in]
        if 'id' in sub.colnames:
            sub.remove_column('id')
        p2, t2 = _run_phot(o, s, model, grouper, data, mask, error, sub, bounds,
                           {k: v for k, v in kw.items() if k != 'finder'})
        # output rows of the full call that correspond to these inputs, in the same (input) order
        inv = {int(v): k for k, v in enumerate(R)}
        full_rows = np.array([inv[int(i)] for i in rows_in])
        case.note('groups_refitted_alone')
        _cmp_rows(case, t2, np.arange(len(t2)), tbl, full_rows, 'group_fitted_alone_equals_rows_of_full_call',
                  dict(mech, group_size=int(len(rows_in))))


def _rel_permute(case, o, s, model, grouper, data, mask, error, init, bounds, kw, tbl, gsize, R, grp_ok, mech,
                 raw=None):
    """Permuting the input rows permutes the output rows; single sources bit-for-bit, groups within tolerance."""
    if not grp_ok or o['ids'] is not None:
        return
    rng = case.rng
    n = len(init)
    perm = rng.permutation(n)
    if np.array_equal(perm, np.arange(n)):
        perm = np.roll(perm, 1)
    p2, t2 = _run_phot(o, s, model, grouper, data, mask, error, init[perm], bounds,
                       {k: v for k, v in kw.items() if k != 'finder'})
    if t2 is None or len(t2) != n:
        case.check(False, 'permuted_rows_same_results', mech, why='row count')
        return
    case.note('permutations_applied')
    # new row j  <-> old row perm[j]
    single = gsize[perm] == 1
    if single.any():
        _cmp_rows(case, t2, np.nonzero(single)[0], tbl, perm[single], 'permuted_rows_same_results',
                  dict(mech, fit='isolated'), cols=[c for c in COMPARE_COLS if c in tbl.colnames])
    multi = ~single
    if multi.any() and not o['perturbed'] and o['maxiters'] is None and not getattr(s, 'undecided', False):
        jm = np.nonzero(multi)[0]
        for c in ('npixfit', 'group_size', 'x_init', 'y_init', 'flux_init'):
            case.close(_col(t2, c)[jm], _col(tbl, c)[perm[jm]], 'permuted_rows_same_results',
                       mech=dict(mech, fit='grouped', col=c))
        # values of the unpermuted call, indexed by the rows of the permuted call
        bx_, by_, bf_ = _col(tbl, 'x_fit')[perm], _col(tbl, 'y_fit')[perm], _col(tbl, 'flux_fit')[perm]
        g2 = _col(t2, 'group_id')
        for g in dict.fromkeys(g2[jm].tolist()):
            j = np.array([k for k in jm if g2[k] == g])
            okx = core.same(_col(t2, 'x_fit')[j], bx_[j], 0, 2 * TOL_GRP['pos'])[0]
            oky = core.same(_col(t2, 'y_fit')[j], by_[j], 0, 2 * TOL_GRP['pos'])[0]
            okf = core.same(_col(t2, 'flux_fit')[j], bf_[j], 2 * TOL_GRP['flux'], 0)[0]
            if not (okx and oky and okf) and raw is not None:
                # Arbitration (as for recovery and image x k): the order of the sub-models inside the compound model
                # changes the optimiser's path.  The disagreement is attributed to photutils only when an independent
                # fit of this group in THIS row order from the same start reproduces the other order's result.
                if bounds is None:
                    bx = by = None
                elif np.ndim(bounds) == 0:
                    bx = by = float(bounds)
                else:
                    bx, by = bounds
                tol = dict(pos=2 * TOL_GRP['pos'], flux=2 * TOL_GRP['flux'])
                if not _independent_fit_recovers(model, t2, list(j), s, o, raw[0], raw[1], raw[2], bx, by, bx_, by_, bf_,
                                                 tol):
                    case.note('permutation_relation_undecided_independent_fit_in_that_order_also_differs')
                    continue
            case.close(_col(t2, 'x_fit')[j], bx_[j], 'permuted_rows_same_results', rtol=0, atol=2 * TOL_GRP['pos'],
                       mech=dict(mech, fit='grouped', col='x_fit'))
            case.close(_col(t2, 'y_fit')[j], by_[j], 'permuted_rows_same_results', rtol=0, atol=2 * TOL_GRP['pos'],
                       mech=dict(mech, fit='grouped', col='y_fit'))
            case.close(_col(t2, 'flux_fit')[j], bf_[j], 'permuted_rows_same_results', rtol=2 * TOL_GRP['flux'],
                       mech=dict(mech, fit='grouped', col='flux_fit'))


def _rel_scale(case, o, s, model, grouper, data, mask, error, init, names, bounds, kw, tbl, gsize, R, rel, grp_ok,
               mech, limited_grp):
    if not grp_ok or o['bkg'] in ('estimator', 'estimator_plane'):
        return
    rng = case.rng
    i2 = init.copy()
    # the start must stay 'within reach': initial fluxes are scaled with the image (a start 3.7x off in flux makes
    # blended group fits run out of iterations, which is the fitter's business, not the property's)
    k = float(_pick(rng, [2.0, 0.25, 1024.0, 3.7, 0.01, 1000.0, 0.3]))
    i2[names[2]] = _col(init, names[2]) * k
    if 'local_bkg' in i2.colnames:
        i2['local_bkg'] = _col(init, 'local_bkg') * k
    d2 = data * k
    e2 = None if error is None else error * k
    p2, t2 = _run_phot(o, s, model, grouper, d2, mask, e2, i2, bounds, {k_: v for k_, v in kw.items() if k_ != 'finder'})
    case.note('scalings_applied')
    sm = dict(mech, relation='scale_k')
    for c in ('npixfit', 'group_id', 'group_size', 'x_init', 'y_init'):
        case.close(_col(t2, c), _col(tbl, c), 'image_times_k_keeps_bookkeeping', mech=dict(sm, col=c))
    if o['perturbed'] or o['maxiters'] is not None or getattr(s, 'undecided', False):
        return
    if bounds is None:
        bx = by = None
    elif np.ndim(bounds) == 0:
        bx = by = float(bounds)
    else:
        bx, by = bounds
    fitgroup = _col(tbl, 'group_id')
    pend = {}
    for kk in range(len(tbl)):
        i = R[kk]
        if limited_grp[i]:
            continue
        tag = 'isolated' if gsize[i] == 1 else 'grouped'
        rt = 1e-4 if gsize[i] == 1 else 2 * TOL_GRP['flux']
        pt = 1e-4 if gsize[i] == 1 else 2 * TOL_GRP['pos']
        d = abs(_col(t2, 'flux_fit')[kk] / (k * _col(tbl, 'flux_fit')[kk]) - 1)
        dp = max(abs(_col(t2, 'x_fit')[kk] - _col(tbl, 'x_fit')[kk]), abs(_col(t2, 'y_fit')[kk] - _col(tbl, 'y_fit')[kk]))
        pend.setdefault(int(fitgroup[kk]), []).append((kk, tag, d, rt, dp, pt))
    for g, lst in pend.items():
        if any(d > rt or dp > pt for (_, _, d, rt, dp, pt) in lst):
            # Same arbitration as for the recovery checks: the scaled fit is attributed to photutils only when an
            # independent fit of the scaled problem (own book-keeping, same astropy TRFLSQFitter, same start) does
            # reproduce the unscaled result.  scipy's TRF measures trust region and xtol in a norm that mixes pixels
            # and counts (x_scale = 1): on a one-sided, edge-clipped window it stops short for some image scales.
            rows_g = [kk for (kk, *_rest) in lst]
            fl_a, fl_b = np.asarray(_col(tbl, 'flags'), int), np.asarray(_col(t2, 'flags'), int)
            if any((int(fl_b[kk]) & 8) and not (int(fl_a[kk]) & 8) for kk in rows_g):
                # the library itself reports that the SCALED fit may not have converged (flag 8: the trusted
                # optimiser stopped on its evaluation limit; seen at thorough seed 4: grouped fit, image 1e-11 x
                # 0.01) while the unscaled one did: the comparison is between a converged and an unconverged fit.
                # Undecided, counted (as in the recovery checks).
                case.note('scale_relation_undecided_library_flagged_nonconvergence')
                continue
            tol = dict(pos=max(pt for (*_a, pt) in lst), flux=max(rt for (_, _, _, rt, _, _) in lst))
            ok_ind = _independent_fit_recovers(model, t2, rows_g, s, o, np.asarray(d2, float), mask,
                                               None if e2 is None else np.asarray(e2, float), bx, by, _col(tbl, 'x_fit'),
                                               _col(tbl, 'y_fit'), k * _col(tbl, 'flux_fit'), tol)
            if not ok_ind:
                case.note('scale_relation_undecided_independent_fit_also_stopped_short')
                continue
        for (kk, tag, d, rt, dp, pt) in lst:
            case.dev(f'scale_k_flux_{tag}', d)
            case.check(d <= rt, 'image_times_k_scales_fluxes_by_k', dict(sm, fit=tag), k=k, dev=float(d))
            case.dev(f'scale_k_pos_{tag}', dp)
            case.check(dp <= pt, 'image_times_k_keeps_positions', dict(sm, fit=tag), k=k, dev=float(dp))


DTYPE_PEAKS = {'uint8': 200.0, 'int8': 120.0, 'uint16': 6.0e4, 'int16': 3.2e4, 'uint32': 4.0e9, 'int32': 2.1e9,
               'uint64': 2.0 ** 55, 'int64': 2.0 ** 40, 'float32': 1.0, 'float16': 1.0e3}


def _rel_dtype(case, o, s, model, grouper, init, names, bounds, kw, mech):
    """Axis (vii): the image in a narrow / unsigned dtype gives what the same numbers give as float64 (fit table,
    model and residual images): nothing may be accumulated, subtracted or wrapped in the narrow dtype."""
    rng = case.rng
    dt = _pick(rng, list(DTYPE_PEAKS))
    scale = DTYPE_PEAKS[dt] / float(np.max(np.abs(s.data)))
    if np.min(s.data) < 0 and dt.startswith('u'):
        return                                              # negative source in the scene: no unsigned form
    scene = s.data * scale
    narrow = (np.round(scene) if np.dtype(dt).kind in 'iu' else scene).astype(dt)
    wide = narrow.astype(np.float64)
    i2 = init.copy()
    i2[names[2]] = _col(init, names[2]) * scale
    if 'local_bkg' in i2.colnames:
        i2.remove_column('local_bkg')
    kw2 = {k_: v for k_, v in kw.items() if k_ not in ('finder', 'localbkg_estimator', 'aperture_radius')}
    pa, ta = _run_phot(o, s, model, grouper, narrow, None, None, i2, bounds, kw2)
    pb, tb = _run_phot(o, s, model, grouper, wide, None, None, i2, bounds, kw2)
    case.note('axis2_dtype_' + dt)
    dm = dict(mech, relation='narrow_dtype', dtype=dt)
    for c in tb.colnames:
        case.close(_col(ta, c), _col(tb, c), 'narrow_dtype_image_equals_float64_image', mech=dict(dm, col=(
            c if c in COMPARE_COLS + ['id', 'group_id'] else 'shape')))
    ps = int(_pick(rng, [5, 9]))
    ra = np.asarray(pa.make_residual_image(narrow, psf_shape=ps), dtype=float)
    rb = np.asarray(pb.make_residual_image(wide, psf_shape=ps), dtype=float)
    case.close(ra, rb, 'narrow_dtype_image_equals_float64_image', mech=dict(dm, col='residual_image'))


def _rel_iterative(case, o, s, model, grouper, data, mask, error, init, bounds, kw, tbl, mech, finder=None, aper=None):
    """IterativePSFPhotometry(maxiters=1) == PSFPhotometry on the same inputs: every shared column, exact."""
    from photutils.psf import IterativePSFPhotometry
    kw2 = {k: v for k, v in kw.items() if k not in ('finder', 'aperture_radius')}
    if o['maxiters'] is not None:
        kw2['fitter_maxiters'] = o['maxiters']
    nf = finder if finder is not None else _NoFinder()
    before = _NoFinder.called
    it = IterativePSFPhotometry(model, o['fit_shape'], nf, grouper=grouper, xy_bounds=bounds, maxiters=1,
                                aperture_radius=aper if aper is not None else 3.0, **kw2)
    if o['nddata']:
        t2 = it(data, init_params=init)
    else:
        t2 = it(data, mask=mask, error=error, init_params=init)
    case.note('iterative_runs')
    im = dict(mech, relation='iterative_maxiters_1')
    case.check(t2 is not None and len(t2) == len(tbl), 'iterative_one_iteration_equals_psfphotometry', im,
               why='rows')
    if t2 is None or len(t2) != len(tbl):
        return
    if finder is None:
        case.check(_NoFinder.called == before, 'iterative_one_iteration_does_not_call_finder', im)
    missing = [c for c in tbl.colnames if c not in t2.colnames]
    case.check(not missing, 'iterative_one_iteration_equals_psfphotometry', im, missing=missing)
    case.check('iter_detected' in t2.colnames and bool(np.all(_col(t2, 'iter_detected') == 1)),
               'iterative_iter_detected_is_1', im)
    for c in tbl.colnames:
        if c in t2.colnames:
            case.close(_col(t2, c), _col(tbl, c), 'iterative_one_iteration_equals_psfphotometry', mech=dict(im, col=(
                c if c in COMPARE_COLS + ['id', 'group_id'] else 'shape')))
            if hasattr(tbl[c], 'unit'):
                case.check(getattr(t2[c], 'unit', None) == tbl[c].unit, 'iterative_one_iteration_equals_psfphotometry',
                           dict(im, col='unit'))


def _own_render(s, model, tbl, shape, rows=None, psf_shape=None):
    """Sum of the fitted models.  psf_shape (odd, odd): every source is rendered only over 'the region around the
    center of the fit model' of that shape, as make_model_image documents (window centred on the pixel containing the
    fitted position, trimmed to the image; a source whose window misses the image contributes nothing)."""
    yy, xx = np.mgrid[:shape[0], :shape[1]]
    img = np.zeros(shape)
    for k in (range(len(tbl)) if rows is None else rows):
        m = model.copy()
        G.set_xyf(m, _col(tbl, 'x_fit')[k], _col(tbl, 'y_fit')[k], _col(tbl, 'flux_fit')[k])
        for name in s.info['free']:
            setattr(m, name, _col(tbl, name + '_fit')[k])
        if psf_shape is None:
            img += np.asarray(m(xx, yy), float)
        else:
            ws = psf_shape[k] if isinstance(psf_shape, list) else psf_shape
            wr, wc = O.any_window(shape, ws, _col(tbl, 'x_fit')[k], _col(tbl, 'y_fit')[k])
            if len(wr) and len(wc):
                sub = np.ix_(wr, wc)
                img[sub] += np.asarray(m(xx[sub], yy[sub]), float)
    return img


def _rel_model_image(case, p, tbl, s, o, model, call_data, data, mech):
    """make_model_image renders the fitted table; make_residual_image == data - model image, exactly."""
    rng = case.rng
    big = (2 * max(s.shape) + 1, 2 * max(s.shape) + 1)
    mm = dict(mech, relation='model_image')
    mi = np.asarray(p.make_model_image(s.shape, psf_shape=big))
    own = _own_render(s, model, tbl, s.shape, psf_shape=big)
    case.close(mi, own, 'model_image_is_sum_of_fitted_models', rtol=1e-10, atol=1e-12 * float(np.max(np.abs(own))),
               mech=mm)
    _default_window(case, p, tbl, s, o, model, call_data, data, mm)
    ps = int(_pick(rng, [4, 5, 8, 9, 15]))           # even and odd windows
    case.note('axis2_parity_psf_shape_' + ('even' if ps % 2 == 0 else 'odd'))
    mi2 = np.asarray(p.make_model_image(s.shape, psf_shape=ps))
    own2 = _own_render(s, model, tbl, s.shape, psf_shape=(ps, ps))
    case.close(mi2, own2, 'model_image_is_sum_of_fitted_models', rtol=1e-10,
               atol=1e-12 * float(np.max(np.abs(own2)) + 1e-300), mech=dict(mm, window='given'))
    d = call_data if not o['nddata'] else data
    r2 = p.make_residual_image(d, psf_shape=ps)
    r2v = np.asarray(_strip(r2))
    with np.errstate(invalid='ignore'):
        exp = data - mi2
    case.close(r2v, exp, 'residual_is_data_minus_model_image', mech=mm)
    if o['units']:
        case.check(getattr(r2, 'unit', None) is not None, 'residual_keeps_units', mm)
    if o['bkg'] in ('column', 'column_per_source') and not o['units']:
        mib = np.asarray(p.make_model_image(s.shape, psf_shape=ps, include_localbkg=True))
        # every source adds its local_bkg over its own psf_shape window (documented)
        add = np.zeros(s.shape)
        for k in range(len(tbl)):
            rows, cols = O.any_window(s.shape, (ps, ps), _col(tbl, 'x_fit')[k], _col(tbl, 'y_fit')[k])
            add[np.ix_(rows, cols)] += _col(tbl, 'local_bkg')[k]
        case.close(mib, mi2 + add, 'model_image_include_localbkg', rtol=1e-12,
                   atol=1e-12 * float(np.max(np.abs(mi2)) + 1), mech=dict(mm, ids=o['ids'], bkg=o['bkg']))
        rb = np.asarray(p.make_residual_image(d, psf_shape=ps, include_localbkg=True))
        with np.errstate(invalid='ignore'):
            case.close(rb, data - (mi2 + add), 'residual_include_localbkg', rtol=1e-12,
                       atol=1e-12 * float(np.max(np.abs(mi2)) + 1), mech=dict(mm, ids=o['ids'], bkg=o['bkg']))


def _default_window(case, p, tbl, s, o, model, call_data, data, mm):
    """psf_shape=None: 'the bounding box of the model will be used'.  The documented bounding boxes: ImagePSF /
    GriddedPSFModel = footprint of the (oversampled) array, ny/os_y x nx/os_x detector pixels about the position;
    circular Gaussians = +-5.5 sigma (bbox_factor); Moffat = +-10 FWHM.  The window is the smallest integer shape
    holding that box; when the box size is an integer to rounding, that size or one more is accepted."""
    kind = o['kind']
    n = len(tbl)
    sizes = []
    if kind in ('imagepsf', 'gridded'):
        arr = np.asarray(model.data)
        ny, nx = arr.shape[-2:]
        osy, osx = s.info['oversampling']
        sizes = [(ny / osy, nx / osx)] * n
    elif kind in ('cgprf', 'cgpsf', 'cgprf_free', 'cgpsf_free'):
        fw = _col(tbl, 'fwhm_fit') if 'fwhm_fit' in tbl.colnames else np.full(n, float(model.fwhm.value))
        sizes = [(2 * 5.5 * f * G.FWHM2SIG,) * 2 for f in fw]
    elif kind == 'moffat':
        f = 2.0 * float(model.alpha.value) * np.sqrt(2 ** (1.0 / float(model.beta.value)) - 1)
        sizes = [(20.0 * f, 20.0 * f)] * n
    else:
        return
    if o['units']:
        return
    case.note('axis2_default_window_psf_shape_None')
    mi0 = np.asarray(p.make_model_image(s.shape))
    lo = [tuple(int(np.ceil(v - 1e-9)) for v in sz) for sz in sizes]
    hi = [tuple(int(np.ceil(v + 1e-9)) for v in sz) for sz in sizes]
    cands = [lo] if lo == hi else [lo, hi]
    ok, dev = False, None
    for c in cands:
        own0 = _own_render(s, model, tbl, s.shape, psf_shape=list(c))
        okc, d, _ = core.same(mi0, own0, 1e-10, 1e-12 * float(np.max(np.abs(own0)) + 1e-300))
        dev = d if dev is None else min(dev, d)
        ok = ok or okc
    case.dev('model_image_default_window', dev)
    case.check(ok, 'model_image_default_window_is_model_bounding_box', dict(mm, window='default'),
               sizes=[list(map(float, sizes[0]))], oversampling=s.info.get('oversampling'))
    d = call_data if not o['nddata'] else data
    r0 = np.asarray(_strip(p.make_residual_image(d)))
    with np.errstate(invalid='ignore'):
        case.close(r0, data - mi0, 'residual_is_data_minus_model_image', mech=dict(mm, window='default'))


def _check_metrics(case, p, tbl, s, o, model, data, mask, error, facts, R, fitgroup, mech):
    """qfit = sum |fit residual| / flux_fit, cfit = residual at the initial centre pixel / flux_fit, with the
    residuals of the source's own fit-window pixels of its group fit (weighted by 1/error when error is given:
    these are 'the fit residuals' the fitter returns; both readings are accepted)."""
    n = len(tbl)
    yy, xx = np.mgrid[:s.shape[0], :s.shape[1]]
    gimg = {}
    for g in set(fitgroup.tolist()):
        rows = [k for k in range(n) if fitgroup[R[k]] == g]
        gimg[g] = _own_render(s, model, tbl, s.shape, rows)
    qfit = _col(tbl, 'qfit').astype(float).ravel()
    cfit = _col(tbl, 'cfit').astype(float).ravel()
    lb = _col(tbl, 'local_bkg')
    for k in range(n):
        f = facts[R[k]]
        sub = np.ix_(f['rows'], f['cols'])
        resid = (data[sub] - lb[k]) - gimg[fitgroup[R[k]]][sub]
        good = f['good']
        w = np.ones_like(resid) if error is None else 1.0 / error[sub]
        ff = _col(tbl, 'flux_fit')[k]
        cands = [float(np.sum(np.abs(resid[good] * w[good])) / ff)]
        if error is not None:
            cands.append(float(np.sum(np.abs(resid[good])) / ff))
        ok = any(abs(qfit[k] - c) <= 1e-6 * abs(c) + 1e-12 for c in cands)
        case.dev('qfit_vs_definition', min(abs(qfit[k] / c - 1) for c in cands if c != 0) if any(cands) else 0.0)
        case.check(ok, 'qfit_vs_definition', mech, row=k, obs=float(qfit[k]), exp=cands)
        if f['centre_ok']:
            iy = int(np.nonzero(f['rows'] == f['cy'])[0][0])
            ix = int(np.nonzero(f['cols'] == f['cx'])[0][0])
            cc = [float(resid[iy, ix] * w[iy, ix] / ff)]
            if error is not None:
                cc.append(float(resid[iy, ix] / ff))
            ok = any(abs(cfit[k] - c) <= 1e-6 * abs(c) + 1e-12 for c in cc)
            case.check(ok, 'cfit_vs_definition', mech, row=k, obs=float(cfit[k]), exp=cc)


# ----------------------------------------------------------------------------------------
def _case_degenerate(case):
    """Rarely used branches: nothing detected, a source entirely off the image, a fully masked fit window, zero
    errors, a constant image.  Explicit errors of the library are expected; silent cases are counted."""
    from astropy.table import Table
    from photutils.detection import DAOStarFinder
    from photutils.psf import CircularGaussianPRF, PSFPhotometry, SourceGrouper
    rng = case.rng
    sub = _pick(rng, ['nothing_detected', 'off_image', 'fully_masked', 'zero_error', 'constant_image'])
    fwhm = float(rng.uniform(2.0, 4.0))
    fs = _pick(rng, [(5, 5), (7, 7), (5, 9)])
    shape = (int(rng.integers(20, 40)), int(rng.integers(20, 60)))
    mag = float(_pick(rng, [1.0, 1.0, 2.0 ** -30, 1e8]))
    model = CircularGaussianPRF(fwhm=fwhm)
    yy, xx = np.mgrid[:shape[0], :shape[1]]
    n = int(rng.integers(1, 4))
    tx = rng.uniform(8, shape[1] - 8, n)
    ty = rng.uniform(8, shape[0] - 8, n)
    tf = rng.uniform(50, 500, n) * mag
    data = np.zeros(shape)
    for i in range(n):
        data += CircularGaussianPRF(x_0=tx[i], y_0=ty[i], flux=tf[i], fwhm=fwhm)(xx, yy)
    init = Table({'x': tx + rng.uniform(-0.4, 0.4, n), 'y': ty + rng.uniform(-0.4, 0.4, n), 'flux': tf * 1.1})
    case.params = dict(kind='degenerate', sub=sub, n=n, shape=list(shape), fit_shape=list(fs), mag=mag)
    case.digest = core.arr_digest(data, np.asarray(init['x'])) + core.digest(case.params)
    case.nontrivial = True
    case.note('axis_degenerate_' + sub)
    mech = {'cls': case.cls, 'sub': sub}
    if sub == 'nothing_detected':
        blank = np.full(shape, float(rng.choice([0.0, 3.0])) * mag)
        ph = PSFPhotometry(model, fs, finder=DAOStarFinder(threshold=10.0 * mag, fwhm=fwhm), aperture_radius=4.0)
        out = ph(blank)
        case.check(out is None, 'no_detection_returns_none', mech, got=type(out).__name__)
        return
    if sub == 'off_image':
        k = int(rng.integers(0, n))
        init['x'][k] = float(_pick(rng, [-fs[1] / 2 - 1.0 - rng.uniform(0, 30), shape[1] + fs[1] / 2 + rng.uniform(0.6, 30)]))
        try:
            PSFPhotometry(model, fs)(data, init_params=init)
            case.check(False, 'source_without_overlap_is_refused', mech)
        except ValueError as exc:
            case.check('no overlap' in str(exc), 'source_without_overlap_is_refused', mech, msg=str(exc)[:120])
        return
    if sub == 'fully_masked':
        k = int(rng.integers(0, n))
        rows, cols, _, _ = O.fit_window(shape, fs, init['x'][k], init['y'][k])
        mask = np.zeros(shape, bool)
        mask[np.ix_(rows, cols)] = True
        try:
            PSFPhotometry(model, fs)(data, init_params=init, mask=mask)
            case.check(False, 'fully_masked_source_is_refused', mech)
        except ValueError as exc:
            case.check('completely masked' in str(exc), 'fully_masked_source_is_refused', mech, msg=str(exc)[:120])
        return
    if sub == 'zero_error':
        err = np.full(shape, 0.1 * mag)
        k = int(rng.integers(0, n))
        rows, cols, cx, cy = O.fit_window(shape, fs, init['x'][k], init['y'][k])
        err[int(_pick(rng, list(rows))), int(_pick(rng, list(cols)))] = 0.0
        try:
            PSFPhotometry(model, fs)(data, init_params=init, error=err)
            case.check(False, 'zero_error_in_fit_window_is_refused', mech)
        except ValueError as exc:
            case.check('non-finite' in str(exc), 'zero_error_in_fit_window_is_refused', mech, msg=str(exc)[:120])
        return
    # constant image: nothing to fit; the table must still have one row per source in input order
    const = np.full(shape, float(rng.choice([0.0, 1.0, -2.0])) * mag)
    tbl = PSFPhotometry(model, fs, grouper=SourceGrouper(2.4 * fwhm + 1.5))(const, init_params=init)
    case.check(tbl is not None and len(tbl) == n, 'one_row_per_source', mech)
    if tbl is not None and len(tbl) == n:
        case.check(np.array_equal(_col(tbl, 'id'), np.arange(1, n + 1)), 'ids_are_1_to_N', mech)
        case.close(_col(tbl, 'x_init'), np.asarray(init['x']), 'rows_in_input_order', mech=dict(mech, col='x_init'))
        case.check(np.array_equal(_col(tbl, 'npixfit'), np.full(n, fs[0] * fs[1])), 'npixfit_counts_unmasked_window_pixels',
                   dict(mech, nonfinite=False, mask_given=False))


# ----------------------------------------------------------------------------------------
SHARED_KINDS = {'cgprf': ['fwhm'], 'cgpsf': ['fwhm'], 'gprf': ['x_fwhm', 'y_fwhm', 'theta'],
                'gpsf': ['x_fwhm', 'y_fwhm', 'theta'], 'moffat': ['alpha', 'beta'], 'cgprf_free': []}


def _case_shared_model(case):
    """History over ONE PSF model object reused for two or three exposures with a different *fixed* shape parameter
    each time (assigned on the shared object between the fits, as for a sequence of exposures with varying seeing),
    each exposure fitted by its own PSFPhotometry / IterativePSFPhotometry(maxiters=1) object (or by one object called
    repeatedly).  Afterwards the EARLIER objects are asked for model / residual images and their results table.
    The docstrings say 'psf_model: the PSF model to fit to the data' and make_model_image: 'create a 2D image from the
    fit PSF models' - nothing makes the rendered images a function of later edits of the caller's model, so they are
    judged by the same comparisons as everywhere else: residual ~ 0, model image == own render of the results table
    with the model as it was when the exposure was fitted, table unchanged, truth recovered."""
    import copy as _copy
    from astropy.table import Table
    from photutils.psf import IterativePSFPhotometry, PSFPhotometry, SourceGrouper
    rng = case.rng
    kind = _pick(rng, ['cgprf', 'cgprf', 'cgpsf', 'gprf', 'gpsf', 'moffat', 'cgprf_free'])
    fs = _pick(rng, [(5, 5), (7, 7), (9, 9), (7, 5)])
    nexp = int(rng.integers(2, 4))
    driver = _pick(rng, ['new_object', 'new_object', 'iterative', 'same_object_last_only'])
    fwhm0 = float(rng.uniform(2.0, 4.0))
    shared, info = G.build_model(rng, kind, fwhm0, (60, 60))
    o = dict(kind=kind, fit_shape=fs)
    mech = {'cls': case.cls, 'model': kind, 'driver': driver}
    case.params = dict(kind=kind, fit_shape=list(fs), nexp=nexp, driver=driver, values=[])
    exposures = []
    same_obj = None
    digest_parts = []
    for e in range(nexp):
        # (2) the caller edits the shared model object: new seeing for this exposure
        fwhm = float(rng.uniform(2.0, 4.0))
        if kind in ('cgprf', 'cgpsf', 'cgprf_free'):
            shared.fwhm = fwhm
        elif kind in ('gprf', 'gpsf'):
            shared.x_fwhm = fwhm
            shared.y_fwhm = fwhm * float(rng.uniform(0.7, 1.4))
            shared.theta = float(rng.uniform(0, 180))
        else:
            beta = float(rng.uniform(2.5, 4.5))
            shared.beta = beta
            shared.alpha = fwhm / (2.0 * np.sqrt(2 ** (1.0 / beta) - 1))
        case.params['values'].append(round(fwhm, 3))
        sizes = [1] * int(rng.integers(1, 4)) if kind == 'moffat' or rng.random() < 0.5 else \
            [int(_pick(rng, [1, 2])) for _ in range(int(rng.integers(1, 4)))]
        if kind == 'moffat':
            sizes = [int(_pick(rng, [1, 2, 3]))]
        dsep = G.isolation_distance(dict(fwhm=fwhm, support=None, ratio=1.4), max(fs) / 2.0)
        xy, cid, shape = G.gen_clusters(rng, sizes, fwhm, dsep, edge_pad=max(fs) / 2.0 + 3)
        n = len(xy)
        truth = Table()
        truth['x'], truth['y'] = xy[:, 0], xy[:, 1]
        truth['flux'] = np.exp(rng.uniform(np.log(50), np.log(500), n))
        for name in info['free']:
            truth[name] = fwhm * rng.uniform(0.95, 1.05, n)
        data, stack = G.render(shared, info, truth, shape)
        r = 0.7 * np.sqrt(rng.random(n))
        a = rng.uniform(0, 2 * np.pi, n)
        init = Table()
        init['x'] = xy[:, 0] + r * np.cos(a)
        init['y'] = xy[:, 1] + r * np.sin(a)
        init['flux'] = np.asarray(truth['flux']) * rng.uniform(0.7, 1.4, n)
        for name in info['free']:
            init[name] = np.asarray(truth[name]) * rng.uniform(0.9, 1.15, n)
        xi, yi = np.asarray(init['x']), np.asarray(init['y'])
        sep = 2.4 * fwhm + 1.5
        g = O.single_linkage(xi, yi, sep)
        if kind == 'moffat':
            sep = float(np.max(np.hypot(xi[:, None] - xi[None, :], yi[:, None] - yi[None, :])) * 1.5 + 10)
            g = np.ones(n, dtype=int)
        elif not O.same_partition(g, cid) or not O.tie_free(xi, yi, sep):
            case.skip('init_offsets_broke_cluster_linkage')
        if not (O.half_integer_free(xi) and O.half_integer_free(yi)):
            case.skip('init_on_pixel_boundary')
        peaks = np.abs(stack).reshape(n, -1).max(axis=1)
        if G.contamination(stack, peaks, g, shape, fs, xi, yi) > 1e-9:
            case.skip('unmodelled_neighbour_above_1e-9')
        snapshot = _copy.deepcopy(shared)          # the oracle's own record of the model as fitted
        if driver == 'iterative':
            ph = IterativePSFPhotometry(shared, fs, _NoFinder(), grouper=SourceGrouper(sep), aperture_radius=3.0,
                                        maxiters=1)
        elif driver == 'same_object_last_only' and same_obj is not None:
            ph = same_obj
            ph.grouper = SourceGrouper(sep)        # the separation that suits this exposure's seeing
        else:
            ph = PSFPhotometry(shared, fs, grouper=SourceGrouper(sep))
            same_obj = ph
        tbl = ph(data, init_params=init)
        exposures.append(dict(ph=ph, tbl=tbl, tbl0=tbl.copy(), data=data, snap=snapshot, truth=truth, shape=shape,
                              g=g, peaks=peaks, e=e))
        digest_parts += [data, xi, yi]
        # prefix check: rendering right after the fit
        _shared_checks(case, exposures[-1], info, o, dict(mech, when='right_after_fit'))
    # (3) one more edit of the shared object, then QA on the EARLIER objects
    if rng.random() < 0.5:
        if kind in ('cgprf', 'cgpsf'):
            shared.fwhm = float(rng.uniform(2.0, 4.0))
        elif kind in ('gprf', 'gpsf'):
            shared.y_fwhm = float(rng.uniform(2.0, 4.0))
            shared.theta = float(rng.uniform(0, 180))
        elif kind == 'moffat':
            shared.beta = float(rng.uniform(2.5, 4.5))
    case.digest = core.arr_digest(*digest_parts) + core.digest(case.params)
    case.nontrivial = True
    case.note('shared_model_exposures', nexp)
    for ex in exposures:
        if driver == 'same_object_last_only' and ex['ph'] is exposures[-1]['ph'] and ex is not exposures[-1]:
            continue        # that object has been called again: its images describe the latest call (C09 territory)
        _shared_checks(case, ex, info, o, dict(mech, when='after_later_exposures', later=len(exposures) - 1 - ex['e']))


def _shared_checks(case, ex, info, o, mech):
    ph, tbl, data, snap, truth, shape = ex['ph'], ex['tbl'], ex['data'], ex['snap'], ex['truth'], ex['shape']
    n = len(truth)
    s = G.Scene()
    s.info, s.shape = info, shape
    gs = O.group_sizes(ex['g'])
    # the table handed out is not rewritten by later activity
    for c in tbl.colnames:
        case.close(_col(tbl, c), _col(ex['tbl0'], c), 'results_table_unchanged_by_later_calls', mech=dict(mech, col=(
            c if c in COMPARE_COLS + ['id', 'group_id'] else 'shape')))
    gok = case.check(O.same_partition(_col(tbl, 'group_id'), ex['g']), 'group_id_is_single_linkage_partition',
                     dict(mech, grouping='grouper'), obs=_col(tbl, 'group_id').tolist(), exp=ex['g'].tolist())
    case.check(np.array_equal(_col(tbl, 'group_size'), gs), 'group_size_is_cluster_size', dict(mech, grouping='grouper'))
    if not gok:
        return
    # recovery (with the usual arbitration)
    tx, ty, tf = np.asarray(truth['x']), np.asarray(truth['y']), np.asarray(truth['flux'])
    okrec = True
    for g in set(ex['g'].tolist()):
        rows = [k for k in range(n) if ex['g'][k] == g]
        tol = TOL_ISO if len(rows) == 1 else TOL_GRP
        tag = 'isolated' if len(rows) == 1 else 'grouped'
        dpos = max(max(abs(_col(tbl, 'x_fit')[k] - tx[k]), abs(_col(tbl, 'y_fit')[k] - ty[k])) for k in rows)
        dfl = max(abs(_col(tbl, 'flux_fit')[k] / tf[k] - 1) for k in rows)
        if dpos > tol['pos'] or dfl > tol['flux']:
            if not _independent_fit_recovers(snap, tbl, rows, s, o, data, None, None, None, None, tx, ty, tf, tol):
                case.note('recovery_undecided_independent_fit_also_left_basin')
                okrec = False
                continue
        case.check(dpos <= tol['pos'], 'recovers_position', dict(mech, fit=tag), dpos=float(dpos))
        case.check(dfl <= tol['flux'], 'recovers_flux', dict(mech, fit=tag), dflux=float(dfl))
    if not okrec:
        return
    big = (2 * max(shape) + 1, 2 * max(shape) + 1)
    tag = 'isolated' if gs.max() == 1 else 'grouped'
    tol = TOL_ISO if gs.max() == 1 else TOL_GRP
    res = np.asarray(ph.make_residual_image(data, psf_shape=big))
    rr = float(np.max(np.abs(res))) / float(np.max(ex['peaks']))
    case.dev(f'residual_over_peak_{tag}', rr)
    case.check(rr <= tol['resid'], 'residual_image_is_zero', dict(mech, fit=tag), rel=rr)
    mi = np.asarray(ph.make_model_image(shape, psf_shape=big))
    own = _own_render(s, snap, tbl, shape, psf_shape=big)
    case.close(mi, own, 'model_image_is_sum_of_fitted_models', rtol=1e-10, atol=1e-12 * float(np.max(np.abs(own))),
               mech=dict(mech, relation='model_image'))
    with np.errstate(invalid='ignore'):
        case.close(res, data - mi, 'residual_is_data_minus_model_image', mech=dict(mech, relation='model_image'))


# ----------------------------------------------------------------------------------------
def _case_fit2d(case):
    """psf.utils.fit_2dgaussian / fit_fwhm (thin wrappers around PSFPhotometry with CircularGaussianPRF) on
    isolated rendered sources: rows in xypos order, x, y, flux, fwhm recovered."""
    from astropy.table import Table
    from photutils.psf import fit_2dgaussian, fit_fwhm
    rng = case.rng
    fwhm = float(rng.uniform(2.0, 4.0))
    fs = int(_pick(rng, [7, 9, 11]))
    o = dict(kind='cgprf_free', fit_shape=(fs, fs))
    nsrc = int(rng.integers(1, 6))
    dsep = G.isolation_distance(dict(fwhm=fwhm, support=None, ratio=1.15), fs / 2.0)
    xy, cid, shape = G.gen_clusters(rng, [1] * nsrc, fwhm, dsep, edge_pad=fs / 2.0 + 3)
    model, info = G.build_model(rng, 'cgprf_free', fwhm, shape)
    truth = Table()
    truth['x'], truth['y'] = xy[:, 0], xy[:, 1]
    truth['flux'] = np.exp(rng.uniform(np.log(50), np.log(500), nsrc))
    truth['fwhm'] = fwhm * rng.uniform(0.9, 1.1, nsrc)
    data, stack = G.render(model, info, truth, shape)
    r = 0.7 * np.sqrt(rng.random(nsrc))
    a = rng.uniform(0, 2 * np.pi, nsrc)
    xi, yi = xy[:, 0] + r * np.cos(a), xy[:, 1] + r * np.sin(a)
    if not (O.half_integer_free(xi) and O.half_integer_free(yi)):
        case.skip('init_on_pixel_boundary')
    fix = bool(rng.random() < 0.3)
    case.params = dict(kind='fit_2dgaussian', n=nsrc, fwhm=round(fwhm, 3), fit_shape=fs, shape=list(shape),
                       fix_fwhm=fix)
    case.digest = core.arr_digest(data, xi, yi) + core.digest(case.params)
    case.nontrivial = nsrc >= 2
    mech = {'cls': case.cls, 'model': 'cgprf_free', 'fix_fwhm': fix}
    if fix:
        # all sources share the (true) fixed width
        truth['fwhm'] = fwhm
        data, stack = G.render(model, info, truth, shape)
    xypos = list(zip(xi.tolist(), yi.tolist()))
    guess = fwhm if fix else fwhm * float(rng.uniform(0.85, 1.2))
    p = fit_2dgaussian(data, xypos=xypos, fwhm=guess, fix_fwhm=fix, fit_shape=fs)
    t = p.results
    case.check(len(t) == nsrc, 'one_row_per_source', mech)
    if len(t) != nsrc:
        return
    case.check(np.array_equal(_col(t, 'id'), np.arange(1, nsrc + 1)), 'ids_are_1_to_N', mech)
    case.close(_col(t, 'x_init'), xi, 'rows_in_input_order', mech=dict(mech, col='x_init'))
    case.close(_col(t, 'y_init'), yi, 'rows_in_input_order', mech=dict(mech, col='y_init'))
    rm = dict(mech, fit='isolated')
    dpos = np.maximum(np.abs(_col(t, 'x_fit') - xy[:, 0]), np.abs(_col(t, 'y_fit') - xy[:, 1]))
    dfl = np.abs(_col(t, 'flux_fit') / np.asarray(truth['flux']) - 1)
    case.dev('recovery_pos_isolated[fit_2dgaussian]', dpos.max())
    case.dev('recovery_flux_isolated[fit_2dgaussian]', dfl.max())
    case.check(bool(np.all(dpos <= TOL_ISO['pos'])), 'recovers_position', rm, dpos=dpos.tolist())
    case.check(bool(np.all(dfl <= TOL_ISO['flux'])), 'recovers_flux', rm, dflux=dfl.tolist())
    if not fix:
        dw = np.abs(_col(t, 'fwhm_fit') / np.asarray(truth['fwhm']) - 1)
        case.dev('recovery_shape_isolated[fit_2dgaussian]', dw.max())
        case.check(bool(np.all(dw <= TOL_ISO['shape'])), 'recovers_free_shape_parameter', rm, dev=dw.tolist())
        fw = fit_fwhm(data, xypos=xypos, fwhm=guess, fit_shape=fs)
        case.close(np.asarray(fw), _col(t, 'fwhm_fit'), 'fit_fwhm_equals_fit_2dgaussian_fwhm', mech=mech)


# ----------------------------------------------------------------------------------------
def _case_grouper(case):
    """SourceGrouper called directly on hostile point sets."""
    from photutils.psf import SourceGrouper
    rng = case.rng
    n = int(rng.integers(1, 41))
    style = _pick(rng, ['uniform', 'chain', 'lattice', 'duplicates', 'clusters'])
    sep = float(rng.uniform(0.5, 8.0))
    if style == 'uniform':
        L = float(rng.uniform(5, 60))
        x, y = rng.uniform(0, L, n), rng.uniform(0, L, n)
    elif style == 'chain':
        step = sep * rng.uniform(0.6, 1.4, n)
        ang = rng.uniform(-0.5, 0.5, n)
        x, y = np.cumsum(step * np.cos(ang)), np.cumsum(step * np.sin(ang))
        perm = rng.permutation(n)
        x, y = x[perm], y[perm]
    elif style == 'lattice':
        # integer lattice with an integer threshold: exact ties (3-4-5 triangles, unit steps)
        x = rng.integers(0, 12, n).astype(float)
        y = rng.integers(0, 12, n).astype(float)
        sep = float(_pick(rng, [1.0, 2.0, 5.0, 1.5, 2.5]))
    elif style == 'duplicates':
        m = max(1, n // 2)
        x0, y0 = rng.uniform(0, 30, m), rng.uniform(0, 30, m)
        idx = rng.integers(0, m, n)
        x, y = x0[idx], y0[idx]
    else:
        k = int(rng.integers(1, 6))
        cx, cy = rng.uniform(0, 100, k), rng.uniform(0, 100, k)
        idx = rng.integers(0, k, n)
        x, y = cx[idx] + rng.normal(0, sep * 0.4, n), cy[idx] + rng.normal(0, sep * 0.4, n)
    case.params = dict(n=n, style=style, sep=round(sep, 4))
    case.digest = core.arr_digest(x, y, np.array([sep]))
    mech = {'cls': case.cls, 'style': style}
    x_in, y_in = x.copy(), y.copy()
    got = np.asarray(SourceGrouper(sep)(x, y))
    lo = O.single_linkage(x, y, sep, eps=-1e-9)
    hi = O.single_linkage(x, y, sep, eps=+1e-9)
    strict = O.single_linkage(x, y, sep)
    case.nontrivial = n >= 2 and len(set(strict.tolist())) not in (1, n) or n >= 2 and style in ('lattice', 'chain')
    case.check(got.shape == (n,) and got.dtype.kind in 'iu', 'grouper_returns_int_vector', mech)
    if got.shape != (n,):
        return
    tie = not O.same_partition(lo, hi)
    if tie:
        # distance == min_separation exactly: documented 'less than', scipy's criterion is <=: accept either
        case.note('grouper_exact_tie_cases')
        ok = O.same_partition(got, lo) or O.same_partition(got, hi) or _between(got, lo, hi)
        case.check(ok, 'grouper_partition_is_single_linkage', dict(mech, tie=True), obs=got.tolist())
    else:
        case.check(O.same_partition(got, strict), 'grouper_partition_is_single_linkage', dict(mech, tie=False),
                   obs=got.tolist(), exp=strict.tolist())
    case.check(np.array_equal(got, O.first_appearance(got)), 'grouper_ids_start_at_1_by_first_appearance', mech,
               obs=got.tolist())
    case.check(core.exact(x, x_in) and core.exact(y, y_in), 'inputs_unchanged', mech)
    # permutation invariance of the partition
    perm = rng.permutation(n)
    got2 = np.asarray(SourceGrouper(sep)(x[perm], y[perm]))
    if not tie:
        case.check(O.same_partition(got2, got[perm]), 'grouper_partition_invariant_under_permutation', mech)


def _between(got, lo, hi):
    """got is a coarsening of lo and a refinement of hi (ties may be linked or not, individually)."""
    def refines(a, b):      # every block of a inside one block of b
        m = {}
        return all(m.setdefault(u, v) == v for u, v in zip(a, b))
    return refines(lo.tolist(), got.tolist()) and refines(got.tolist(), hi.tolist())
