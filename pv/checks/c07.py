"""C07 SourceCatalog measurements equal their definitions on the segment pixels.

M1 reference-model monitor (pv.ref.c07_catalog): per label every listed quantity is recomputed from its
documented definition on the pixels carrying the label that are unmasked and finite and compared with the
value the real SourceCatalog reports (attribute or to_table column), for catalogues in natural order, reordered
with get_labels / fancy indices, and single-source (scalar) catalogues.
M2 relation monitors: (R1) overwriting data / convolved data / error / background / mask outside a source's
footprint, (R2) renumbering the labels, leave every other reported value bit-identical; fully masked sources
report NaN; with a detection catalogue the delegated properties are the detection image's and the fluxes are
this image's.
"""
from __future__ import annotations

import math

import numpy as np

from pv import core
from pv.gen import c07_scenes as gen
from pv.ref import c07_catalog as ref
from pv.ref import c08_compare as cmp

ID = 'C07'
RULE = ('random 20x20..40x40 scenes per generator class: segmentation maps from blobs, rectangles, single pixels, '
        'lines, donut+core, split ellipses (touching), edge-clipped shapes, random walks; labels consecutive / '
        'non-consecutive / large, label order independent of raster order; data smooth/noisy/negative/integer '
        'ties/flat; optional convolved data (smoothed or unrelated field), error, strongly non-symmetric '
        'background, masks (sparse, half-plane through a source, stripes, whole sources), NaN/inf, units, wcs, '
        'localbkg_width, detection_cat with its own data and mask; rows observed in natural order, via '
        'get_labels permutations, fancy/slice indices or as scalar catalogues, through attributes or to_table. '
        'non-trivial = at least one observed label shares its bounding box with pixels of another label or with '
        'masked / non-finite pixels of its own, or the catalogue is reordered; distinct by digest of all input '
        'arrays + row selection')
CLASSES = ['touching', 'nested', 'single_pixel', 'edge', 'nonconsecutive', 'masked_cut', 'fully_masked',
           'naninf', 'convolved', 'errbkg', 'units', 'localbkg', 'detcat', 'wcs', 'negative', 'ties',
           'magnitude', 'oversub', 'undetected']
MUST_REACH = ['photutils.segmentation.catalog:SourceCatalog.__init__',
              'photutils.segmentation.catalog:SourceCatalog._cutout_total_masks',
              'photutils.segmentation.catalog:SourceCatalog._moment_data_cutouts',
              'photutils.segmentation.catalog:SourceCatalog.segment_flux',
              'photutils.segmentation.catalog:SourceCatalog.segment_fluxerr',
              'photutils.segmentation.catalog:SourceCatalog.area',
              'photutils.segmentation.catalog:SourceCatalog.segment_area',
              'photutils.segmentation.catalog:SourceCatalog.centroid',
              'photutils.segmentation.catalog:SourceCatalog._covariance',
              'photutils.segmentation.catalog:SourceCatalog.covariance_eigvals',
              'photutils.segmentation.catalog:SourceCatalog.orientation',
              'photutils.segmentation.catalog:SourceCatalog.cxy',
              'photutils.segmentation.catalog:SourceCatalog.minval_index',
              'photutils.segmentation.catalog:SourceCatalog.maxval_index',
              'photutils.segmentation.catalog:SourceCatalog.background_sum',
              'photutils.segmentation.catalog:SourceCatalog.background_mean',
              'photutils.segmentation.catalog:SourceCatalog.background_centroid',
              'photutils.segmentation.catalog:SourceCatalog._local_background',
              'photutils.segmentation.catalog:SourceCatalog.get_labels',
              'photutils.segmentation.catalog:SourceCatalog.to_table',
              'photutils.segmentation.catalog:use_detcat.<locals>._use_detcat',
              'photutils.utils._moments:_moments_central']
ANCHOR_FILES = ['segmentation/catalog.py', 'utils/_moments.py', 'segmentation/utils.py']
MIN_NONTRIVIAL = {'quick': 400, 'thorough': 8000}
ASSUMPTIONS = ['numpy indexing/reductions, math.fsum and astropy.wcs (pixel_to_world) are the trusted base',
               'the value of local_background itself is not modelled (sigma-clipped SExtractor mode of the '
               'annulus); only the relations segment_flux = sum - n*local_background and min/max_value = '
               'min/max - local_background with the reported local_background are demanded',
               'second-moment regularisation (SourceExtractor: add 1/12 to both variances while det < 1/144) '
               'is modelled; rows whose determinant is within 1e-9 of the threshold are skipped and counted, '
               'rows whose raw determinant is 0 up to rounding may report NaN or the regularised value',
               'a pixel with non-finite data but finite, unmasked convolved data may or may not contribute to '
               'the moments (documentation ambiguous): either accepted and counted',
               'kron / windowed / quadratic-fit quantities, perimeter and gini are outside the statement '
               '(only NaN for fully masked sources is demanded of kron_radius / kron_flux in a subset of cases)']

REL = 1e-10          # relative tolerance in units of each quantity's natural scale (see report: measured <= 1e-13)


def plan(tier):  # noqa: D103
    if tier == 'thorough':
        return dict(shards=16, cases=9000, timeout=1500, budget_s=540)
    return dict(shards=8, cases=600, timeout=400, budget_s=45)


def selftest():
    ref.selftest()
    cmp.selftest()


# ----------------------------------------------------------------------
# scene generation per class
# ----------------------------------------------------------------------
KINDS = {
    'localbkg': gen.ALL_KINDS + ('edge', 'edge'),
    'touching': ('split', 'split', 'blob', 'walk', 'rect'),
    'nested': ('donut', 'donut', 'blob'),
    'single_pixel': ('single', 'single', 'line', 'blob'),
    'edge': ('edge', 'edge', 'edge', 'blob'),
}


def build_scene(rng, cls, nmax=8):
    import astropy.units as u
    sc = gen.Scene()
    ny, nx = int(rng.integers(20, 41)), int(rng.integers(20, 41))
    if ny == nx:
        nx += 3
    r = rng.random()
    if r < 0.18:                                  # strongly elongated
        ny, nx = int(rng.integers(4, 10)), int(rng.integers(45, 71))
        sc.axes.append('shape_elongated')
    elif r < 0.25:                                # 1 x N / N x 1
        ny, nx = 1, int(rng.integers(8, 41))
        sc.axes.append('shape_1xN')
    if r < 0.25 and rng.random() < 0.5:
        ny, nx = nx, ny
    sc.shape = (ny, nx)
    kinds = KINDS.get(cls, gen.ALL_KINDS)
    if min(ny, nx) == 1:
        kinds = ('rect', 'single', 'line', 'walk', 'rect')
    sc.kinds = list(kinds)
    label_mode = 'consecutive' if rng.random() < 0.5 else 'nonconsecutive'
    if cls == 'nonconsecutive':
        label_mode = 'big' if rng.random() < 0.4 else 'nonconsecutive'
    nmin = min(nmax, 2 if cls in ('touching', 'nested', 'fully_masked') else 1)
    sc.seg, sc.labels = gen.gen_segmap(rng, sc.shape, kinds, nmax=nmax, nmin=nmin, label_mode=label_mode)

    mode = ['smooth', 'noisy', 'random', 'noisy'][int(rng.integers(0, 4))]
    if cls == 'negative':
        mode = 'negative'
    if cls == 'ties':
        mode = 'ties' if rng.random() < 0.7 else 'flat'
    if cls == 'oversub':
        mode = 'oversub'
    if cls == 'undetected':
        mode = 'undetected'
    sc.data = gen.gen_data(rng, sc.shape, sc.seg, sc.labels, mode)
    sc.info['data_mode'] = mode
    if cls == 'single_pixel' and rng.random() < 0.4:
        # nearly all weight in one pixel: second moments far below the 1/12 regularisation threshold
        for lab in sc.labels:
            ys, xs = np.nonzero(sc.seg == lab)
            k = int(rng.integers(0, len(ys)))
            sc.data[ys[k], xs[k]] = abs(sc.data[ys[k], xs[k]]) * 10.0 ** rng.uniform(3, 9) + 1.0
        sc.info['spike'] = True
    if cls == 'ties' and rng.random() < 0.5:
        dt = [np.int32, np.int64, np.uint16][int(rng.integers(0, 3))]
        d = sc.data
        if dt is np.uint16:
            d = d - d.min()
        sc.data = d.astype(dt)

    isint = sc.data.dtype.kind in 'iu'
    # optional ingredients (each class forces its own)
    want_conv = cls == 'convolved' or rng.random() < 0.35
    if cls == 'undetected':
        want_conv = rng.random() < 0.6             # otherwise the shapes come from a detection catalogue
    want_err = cls in ('errbkg',) or rng.random() < 0.5
    want_bkg = cls in ('errbkg',) or rng.random() < 0.4
    want_mask = cls in ('masked_cut', 'fully_masked') or rng.random() < 0.3
    if want_conv:
        if rng.random() < 0.5:
            sc.conv = gen.box_smooth(sc.data.astype(float))
            sc.info['conv_mode'] = 'smooth'
            if cls == 'undetected':               # detection image of another band (positive sources)
                sc.conv = gen.gen_data(rng, sc.shape, sc.seg, sc.labels, 'smooth')
                sc.info['conv_mode'] = 'detection_band'
        else:   # a field unrelated to data: any data/convolved mix-up becomes visible
            sc.conv = gen.gen_data(rng, sc.shape, sc.seg, sc.labels, 'noisy') - 2.0
            sc.info['conv_mode'] = 'unrelated'
    if want_err:
        sc.error = rng.uniform(0.1, 5.0, sc.shape)
    if want_bkg:
        sc.background = gen.plane_background(rng, sc.shape)
    if want_mask:
        if cls == 'fully_masked':
            mm = 'full_source'
        elif cls == 'masked_cut':
            mm = ['half', 'stripes', 'sparse', 'half'][int(rng.integers(0, 4))]
        else:
            mm = ['sparse', 'half', 'stripes', 'full_source'][int(rng.integers(0, 4))]
        sc.mask = gen.cut_mask(rng, sc.shape, sc.seg, sc.labels, mm)
        sc.info['mask_mode'] = mm
        if rng.random() < 0.04:
            sc.mask[...] = True                    # degenerate: everything masked
            sc.axes.append('degenerate_everything_masked')
    if cls == 'naninf' or (not isint and rng.random() < 0.15):
        inseg = sc.seg > 0
        sc.data = sc.data.astype(float)
        sel = gen.sprinkle_nonfinite(rng, sc.data, inseg | (rng.random(sc.shape) < 0.3), rng.choice([0.05, 0.15, 0.4]))
        if rng.random() < 0.3:                       # one source entirely non-finite
            lab = sc.labels[int(rng.integers(0, len(sc.labels)))]
            sc.data[sc.seg == lab] = np.nan
            sel |= sc.seg == lab
        variant = int(rng.integers(0, 4))
        sc.info['nonfinite_variant'] = variant
        if sc.conv is not None:
            if variant in (0, 1):
                sc.conv[sel] = np.nan                # same positions as data (documented as masked)
            if variant == 2:                         # extra non-finite convolved pixels where data is fine
                gen.sprinkle_nonfinite(rng, sc.conv, inseg, 0.08)
            # variant 3: convolved data finite where data is not (ambiguous -> either accepted)
        if sc.error is not None and variant in (0, 2):
            sc.error[sel] = np.nan
        if sc.error is not None and variant == 1 and rng.random() < 0.5:
            gen.sprinkle_nonfinite(rng, sc.error, inseg, 0.03, kinds=(np.nan, np.inf))
        if sc.background is not None and variant in (0, 3):
            sc.background[sel] = np.inf
    if cls == 'units' or rng.random() < 0.2:
        sc.unit = [u.Jy, u.electron / u.s, u.adu, u.erg / u.s / u.cm ** 2 / u.AA][int(rng.integers(0, 4))]
    if cls == 'wcs' or rng.random() < 0.15:
        sc.wcs = gen.simple_wcs(rng, sc.shape)
    if cls == 'localbkg' or rng.random() < 0.15 or (cls == 'edge' and rng.random() < 0.35):
        sc.localbkg_width = int(rng.choice([1, 2, 4, 8, 15]))
    apply_generic_axes(rng, sc, cls)
    apply_generic_axes2(rng, sc, cls)
    return sc


def draw_magnitude(rng, tiny=False):
    if tiny:
        return float(10.0 ** rng.integers(-20, -9)) if rng.random() < 0.5 else float(2.0 ** rng.integers(-60, -30))
    if rng.random() < 0.5:
        return float(2.0 ** rng.integers(-60, 41))
    return float(10.0 ** rng.integers(-20, 11))


def apply_generic_axes(rng, sc, cls):
    """Axes drawn independently of the generator class (about half of the scenes stay plain): overall
    magnitude of every value-like input, memory layout / dtype of every array, call form of scalar and
    sequence arguments.  The oracle reads the scene's canonical float64 / C-order arrays."""
    isint = sc.data.dtype.kind in 'iu'
    # (i) magnitude
    if not isint and (cls == 'magnitude' or rng.random() < 0.3):
        mag = draw_magnitude(rng, tiny=(cls == 'magnitude' and rng.random() < 0.5))
        for name in ('data', 'conv', 'error', 'background'):
            f = mag
            if name != 'data' and rng.random() < 0.25:
                f = draw_magnitude(rng)                # value-like inputs on their own scale
            sc.scale(name, f)
        sc.info['magnitude'] = mag
        sc.axes.append('magnitude_nonunit')
        if mag <= 1e-9:
            sc.axes.append('magnitude_below_1e-9')
        if mag >= 1e6:
            sc.axes.append('magnitude_above_1e6')
    # (iii) layout / container
    if rng.random() < 0.4:
        for name in ('data', 'conv', 'error', 'background', 'mask', 'seg'):
            if getattr(sc, name) is None or rng.random() < 0.4:
                continue
            opts = ['F', 'strided']
            if name in ('data', 'conv', 'error', 'background'):
                opts.append('bigendian')
            if name in ('data', 'conv') and not isint:
                opts.append('float32')
            how = opts[int(rng.integers(0, len(opts)))]
            sc.layout[name] = how
            sc.axes.append('layout_' + how)
            if how == 'float32':
                with np.errstate(all='ignore'):
                    a = getattr(sc, name).astype(np.float32).astype(np.float64)
                if np.all(np.isfinite(a) == np.isfinite(getattr(sc, name))):
                    setattr(sc, name, a)               # values exactly representable in float32
                else:
                    del sc.layout[name]
        if rng.random() < 0.3:
            sc.layout['seg_dtype'] = ['int64', 'int32'][int(rng.integers(0, 2))]
    # (ii) call form
    if rng.random() < 0.3:
        sc.callform['localbkg_width'] = ['npint', 'float'][int(rng.integers(0, 2))]
        sc.axes.append('callform_localbkg_width')
    if rng.random() < 0.3:
        sc.callform['kron_params'] = ['list', 'array'][int(rng.integers(0, 2))]
        sc.axes.append('callform_kron_params')


INT_RANGES = {'uint8': (0, 255), 'int8': (-128, 127), 'uint16': (0, 65535), 'int16': (-32768, 32767),
              'uint32': (0, 2 ** 32 - 1), 'int32': (-2 ** 31, 2 ** 31 - 1), 'uint64': (0, 2 ** 62),
              'int64_beyond_2**31': (2 ** 31 + 5, 2 ** 33), 'int64_beyond_2**53': (2 ** 53 + 1, 2 ** 53 + 2 ** 20)}


def _to_int_dtype(a, name, positive=False):
    """Integer-valued version of a finite float array filling the range of the dtype (values near both limits)."""
    lo, hi = INT_RANGES[name]
    if positive:
        lo = max(lo, 1)
    amin, amax = float(np.min(a)), float(np.max(a))
    span = (amax - amin) or 1.0
    v = np.round((a - amin) / span * float(hi - lo))
    dt = np.dtype(name.split('_')[0])
    out = (v.astype(np.uint64 if dt.kind == 'u' else np.int64) + (lo if dt.kind == 'u' else 0)).astype(dt) \
        if dt.kind == 'u' else (v.astype(np.int64) + lo).astype(dt)
    return out


def apply_generic_axes2(rng, sc, cls):
    """Second list of class-independent axes: dtype kind of every array, ties / plateaus, one-sided edges
    (counters), provenance of the SegmentationImage, all-False masks.  About half of the scenes untouched."""
    labels = [int(x) for x in sc.labels]
    n = len(labels)
    finite = bool(np.all(np.isfinite(sc.data.astype(float))))
    # --- ties for every arg-extremum quantity: plateaus and binary images
    if sc.data.dtype.kind == 'f' and finite and rng.random() < 0.08:
        d = sc.data
        if rng.random() < 0.5:
            sc.data = (d > np.median(d)).astype(float) * float(np.max(np.abs(d)) or 1.0)
            sc.axes.append('2_ties_binary_image')
        else:
            q = (float(np.max(d)) - float(np.min(d))) / 3.0 or 1.0
            sc.data = np.round(d / q) * q
            sc.axes.append('2_ties_plateaus')
        if sc.conv is not None and sc.info.get('conv_mode') == 'smooth':
            sc.conv = gen.box_smooth(sc.data)
    for name in ('data', 'conv'):
        if sc.layout.get(name) == 'float32' and getattr(sc, name) is not None:
            setattr(sc, name, getattr(sc, name).astype(np.float32).astype(np.float64))   # keep values representable
    # --- (vii) dtype kinds
    if rng.random() < 0.3:
        if sc.data.dtype.kind == 'f' and finite and rng.random() < 0.6:
            name = list(INT_RANGES)[int(rng.integers(0, len(INT_RANGES)))]
            if rng.random() < 0.2 and 1e-4 < float(np.max(np.abs(sc.data))) < 6e4:
                sc.data = sc.data.astype(np.float16).astype(np.float64)
                sc.layout['data'] = 'dtype:float16'
                sc.axes.append('2_dtype_data_float16')
            else:
                sc.data = _to_int_dtype(sc.data, name)
                sc.layout.pop('data', None) if sc.layout.get('data') == 'float32' else None
                sc.axes.append('2_dtype_data_' + name)
        if sc.conv is not None and np.all(np.isfinite(sc.conv)) and rng.random() < 0.4:
            name = ['uint16', 'int16', 'uint8', 'int32'][int(rng.integers(0, 4))]
            sc.conv = _to_int_dtype(sc.conv, name)
            if sc.layout.get('conv') == 'float32':
                sc.layout.pop('conv')
            sc.axes.append('2_dtype_conv_' + name)
        if sc.error is not None and np.all(np.isfinite(sc.error)) and rng.random() < 0.6:
            name = ['float32', 'float16', 'uint16', 'int16', 'uint8'][int(rng.integers(0, 5))]
            if name.startswith('float'):
                with np.errstate(all='ignore'):
                    e = sc.error.astype(name).astype(np.float64)
                if np.all(np.isfinite(e)) and np.all(e > 0):
                    sc.error = e
                    sc.layout['error'] = 'dtype:' + name
                    sc.axes.append('2_dtype_error_' + name)
            else:
                sc.error = _to_int_dtype(sc.error, name, positive=True)
                sc.axes.append('2_dtype_error_' + name)
        if sc.background is not None and np.all(np.isfinite(sc.background)) and rng.random() < 0.6:
            name = ['float32', 'float16', 'uint16', 'int16', 'int32'][int(rng.integers(0, 5))]
            if name.startswith('float'):
                with np.errstate(all='ignore'):
                    b = sc.background.astype(name).astype(np.float64)
                if np.all(np.isfinite(b)):
                    sc.background = b
                    sc.layout['background'] = 'dtype:' + name
                    sc.axes.append('2_dtype_background_' + name)
            else:
                sc.background = _to_int_dtype(sc.background, name)
                sc.axes.append('2_dtype_background_' + name)
    # narrow / unsigned label arrays (room is kept for renumbering and temporary labels)
    limit = None
    if rng.random() < 0.3:
        cands = [d for d in ('uint8', 'int8', 'int16', 'uint16', 'uint32', 'uint64')
                 if max(labels) + 2 * n + 12 <= np.iinfo(d).max]
        if cands:
            d = cands[int(rng.integers(0, len(cands)))]
            sc.layout['seg_dtype'] = d
            limit = int(np.iinfo(d).max)
            sc.axes.append('2_dtype_seg_' + d)
    sc.info['label_limit'] = limit
    # --- (x) provenance of the SegmentationImage
    if rng.random() < 0.3:
        top = (limit or 10 ** 6)
        unused = [v for v in range(1, min(top, max(labels) + 2 * n + 12) + 1) if v not in labels]
        kind = ['relabel_consecutive', 'reassign', 'remove', 'keep'][int(rng.integers(0, 4))]
        prov = {'kind': kind, 'read_before': bool(rng.random() < 0.8), 'read_after': bool(rng.random() < 0.5)}
        if kind == 'relabel_consecutive':
            k = int(rng.integers(2, 9))
            gaps = [int(x) for x in rng.integers(0, 4, size=n)]
            if (limit is None or k + n + sum(gaps) + 1 <= limit) and sum(gaps) > 0:
                order = np.argsort(labels)
                lut = np.zeros(max(labels) + 1, dtype=sc.seg.dtype)
                for rank, i in enumerate(order):
                    lut[labels[i]] = k + rank
                sc.seg = lut[sc.seg]
                sc.labels = np.arange(k, k + n)
                prov['gaps'] = gaps
                sc.provenance['segm'] = prov
        elif kind == 'reassign':
            prov['label'] = labels[int(rng.integers(0, n))]
            prov['tmp'] = int(unused[int(rng.integers(0, len(unused)))])
            sc.provenance['segm'] = prov
        else:
            m = int(rng.integers(1, 4))
            prov['extra'] = [int(x) for x in rng.choice(unused, size=m, replace=False)]
            prov['boxes'] = [(int(rng.integers(0, sc.shape[0])), int(rng.integers(0, sc.shape[1])),
                              int(rng.integers(1, 5)), int(rng.integers(1, 5))) for _ in range(m)]
            sc.provenance['segm'] = prov
        if 'segm' in sc.provenance:
            sc.axes.append('2_provenance_segm_' + kind)
    # --- (xi) an all-False mask
    if sc.mask is None and rng.random() < 0.06:
        sc.mask = np.zeros(sc.shape, dtype=bool)
        sc.axes.append('2_mask_all_false')
    # --- (viii) which borders / corners are touched, and on which side a local-background annulus leaves the frame
    ny, nx = sc.shape
    seg = sc.seg
    for nm, sl in (('bottom', seg[0, :]), ('top', seg[-1, :]), ('left', seg[:, 0]), ('right', seg[:, -1])):
        if sl.any():
            sc.axes.append('2_touch_' + nm)
    for nm, v in (('corner_ll', seg[0, 0]), ('corner_lr', seg[0, -1]), ('corner_ul', seg[-1, 0]), ('corner_ur', seg[-1, -1])):
        if v:
            sc.axes.append('2_touch_' + nm)
    if sc.localbkg_width > 0:
        sides = set()
        for lab in sc.labels:
            ys, xs = np.nonzero(seg == lab)
            h, w = ys.max() - ys.min() + 1, xs.max() - xs.min() + 1
            yc, xc = 0.5 * (ys.min() + ys.max()), 0.5 * (xs.min() + xs.max())
            out = {'left': xc - 0.75 * w - sc.localbkg_width < -0.5, 'right': xc + 0.75 * w + sc.localbkg_width > nx - 0.5,
                   'bottom': yc - 0.75 * h - sc.localbkg_width < -0.5, 'top': yc + 0.75 * h + sc.localbkg_width > ny - 0.5}
            if sum(out.values()) == 1:
                sides.add([k for k, v in out.items() if v][0])
        for sd in sorted(sides):
            sc.axes.append('2_localbkg_annulus_leaves_frame_only_' + sd)


def build_detection_scene(rng, sc):
    """Detection image for the same segmentation map: different pixels, possibly different mask / NaNs."""
    det = sc.copy()
    det.data = gen.gen_data(rng, sc.shape, sc.seg, sc.labels, ['smooth', 'noisy'][int(rng.integers(0, 2))])
    det.conv = gen.box_smooth(det.data) if rng.random() < 0.5 else None
    det.error = None
    det.background = None
    det.localbkg_width = 0
    mm = int(rng.integers(0, 3))
    if mm == 0:
        det.mask = None
    elif mm == 1:
        det.mask = None if sc.mask is None else sc.mask.copy()
    else:
        det.mask = gen.cut_mask(rng, sc.shape, sc.seg, sc.labels, 'sparse')
    det.info = dict(det_mask=['none', 'same', 'different'][mm])
    if rng.random() < 0.3:
        mag = draw_magnitude(rng)
        det.scale('data', mag)
        det.scale('conv', mag)
        det.info['det_magnitude'] = mag
    det.layout = {k: v for k, v in sc.layout.items() if k in ('seg', 'seg_dtype', 'mask')}
    det.axes = []
    det.provenance = {k: v for k, v in sc.provenance.items() if k == 'segm'}
    if rng.random() < 0.4:
        # the detection catalogue handed in is itself an indexed (identity-ordered) child, possibly of a parent
        # that had properties cached before it was indexed
        pre = [('centroid',), ('kron_radius', 'area'), (), ('semimajor_sigma', 'bbox', 'kron_aperture')][int(rng.integers(0, 4))]
        det.provenance['as_child'] = {'how': ['slice', 'list', 'bool', 'get_labels'][int(rng.integers(0, 4))],
                                      'pre_read': list(pre)}
        det.info['detcat_is_indexed_child'] = det.provenance['as_child']['how']
    return det


def scene_inputs(sc):
    return ref.Inputs(sc.data, sc.seg, sc.conv, sc.error, sc.mask, sc.background)


# ----------------------------------------------------------------------
# observation helpers
# ----------------------------------------------------------------------
def num_rows(v, isscalar):
    """Observed numeric value -> (float array with leading source axis, unit string or None)."""
    unit = getattr(v, 'unit', None)
    if unit is not None:
        v = v.value
    a = np.asarray(v)
    if a.dtype == object:
        a = np.array([np.nan if x is None else x for x in a.ravel()], dtype=float).reshape(a.shape)
    a = a.astype(float)
    if isscalar:
        a = a[np.newaxis]
    return a, (None if unit is None else str(unit))


def obj_rows(v, isscalar):
    if isscalar:
        return [v]
    return list(v)


class Observer:
    """Reads properties from the catalogue either as attributes or through to_table columns."""

    def __init__(self, cat, via_table_cols=None):
        self.cat = cat
        self.isscalar = bool(cat.isscalar)
        self.tbl = None
        if via_table_cols == 'default':
            self.tbl = cat.to_table()            # default_columns (includes the Kron columns, not compared)
        elif via_table_cols:
            self.tbl = cat.to_table(columns=list(via_table_cols))
        self.n_table_reads = 0

    def get(self, name):
        if self.tbl is not None and name in self.tbl.colnames:
            self.n_table_reads += 1
            col = self.tbl[name]
            from astropy.table import Column
            if isinstance(col, Column):
                v = np.asarray(col)
            else:
                v = col
            return v, False          # table columns always have the source axis
        return getattr(self.cat, name), self.isscalar


SKY_PROPS_T = ['sky_centroid', 'sky_centroid_icrs', 'sky_bbox_ll', 'sky_bbox_ul', 'sky_bbox_lr', 'sky_bbox_ur']
TABLE_OK = SKY_PROPS_T + ['label', 'xcentroid', 'ycentroid', 'bbox_xmin', 'bbox_xmax', 'bbox_ymin', 'bbox_ymax', 'area',
            'segment_area', 'semimajor_sigma', 'semiminor_sigma', 'orientation', 'eccentricity', 'elongation',
            'ellipticity', 'fwhm', 'min_value', 'max_value', 'segment_flux', 'segment_fluxerr',
            'background_sum', 'background_mean', 'background_centroid', 'cxx', 'cyy', 'cxy', 'covar_sigx2',
            'covar_sigy2', 'covar_sigxy', 'minval_xindex', 'minval_yindex', 'maxval_xindex', 'maxval_yindex',
            'equivalent_radius', 'local_background', 'centroid', 'minval_index', 'maxval_index',
            'covariance_eigvals', 'moments', 'covariance']


class RowCheck:
    """Compare per-row observed numbers with candidate expectations under per-row tolerances."""

    def __init__(self, case, base_mech):
        self.case = case
        self.base = base_mech

    def numeric(self, name, obs, unit_obs, cands, scale, unit_exp, skip=None, extra_mech=None, what='value_vs_definition'):
        """obs (n, ...) floats; cands list of (tag, (n, ...) arrays); scale (n, ...) >= 0 -> tol = REL*scale.
        A row passes when it equals one candidate on every component (NaN pattern included)."""
        case = self.case
        mech = dict(self.base, prop=name)
        if extra_mech:
            mech.update(extra_mech)
        if unit_obs != unit_exp:
            case.check(False, 'unit_of_property', mech, obs=unit_obs, exp=unit_exp)
            return False
        n = obs.shape[0]
        exp0 = np.asarray(cands[0][1], dtype=float)
        if obs.shape != exp0.shape:
            case.check(False, 'shape_of_property', mech, obs=list(obs.shape), exp=list(exp0.shape))
            return False
        with np.errstate(all='ignore'):
            scale = np.nan_to_num(np.broadcast_to(np.asarray(scale, dtype=float), obs.shape), nan=0.0,
                                  posinf=np.finfo(float).max)
        row_ok = np.zeros(n, bool)
        used_alt = 0
        worst = 0.0
        with np.errstate(all='ignore'):
            for k, (tag, exp) in enumerate(cands):
                exp = np.broadcast_to(np.asarray(exp, dtype=float), obs.shape)
                nan_eq = np.isnan(obs) == np.isnan(exp)
                inf_o, inf_e = np.isinf(obs), np.isinf(exp)
                inf_eq = (inf_o == inf_e) & (~inf_o | (np.sign(obs) == np.sign(exp)))
                fin = np.isfinite(obs) & np.isfinite(exp)
                diff = np.where(fin, np.abs(obs - exp), 0.0)
                comp_ok = nan_eq & inf_eq & (diff <= REL * scale)
                ok_k = comp_ok.reshape(n, -1).all(axis=1)
                if k == 0:
                    rel = np.where(fin & (scale > 0), diff / np.where(scale > 0, scale, 1.0), 0.0)
                    rel = rel.reshape(n, -1).max(axis=1) if rel.size else np.zeros(n)
                    sel = ok_k if skip is None else (ok_k & ~skip)
                    if sel.any():
                        worst = float(rel[sel].max())
                else:
                    used_alt += int((ok_k & ~row_ok).sum())
                row_ok |= ok_k
        if skip is not None:
            row_ok |= skip
        case.dev(name, worst)
        if used_alt:
            case.note('rows_matching_alternative_candidate', used_alt)
        ok = bool(row_ok.all())
        if ok:
            case.check(True, what, mech)
        else:
            r = int(np.argmin(row_ok))
            det = dict(row=r, obs=obs[r], exp={t: np.asarray(np.broadcast_to(e, obs.shape)[r]) for t, e in cands},
                       tol=(REL * scale[r]), nbad=int((~row_ok).sum()))
            case.check(False, what, mech, **det)
        return ok


DELEGATED_NUM = ['segment_area', 'area', 'equivalent_radius', 'moments', 'moments_central', 'cutout_centroid',
                 'centroid', 'xcentroid', 'ycentroid', 'inertia_tensor', 'covariance', 'covar_sigx2', 'covar_sigy2',
                 'covar_sigxy', 'covariance_eigvals', 'semimajor_sigma', 'semiminor_sigma', 'fwhm', 'orientation',
                 'eccentricity', 'elongation', 'ellipticity', 'cxx', 'cyy', 'cxy', 'bbox_xmin', 'bbox_xmax',
                 'bbox_ymin', 'bbox_ymax']
OWN_NUM = ['segment_flux', 'segment_fluxerr', 'min_value', 'max_value', 'minval_index', 'maxval_index',
           'cutout_minval_index', 'cutout_maxval_index', 'minval_xindex', 'minval_yindex', 'maxval_xindex',
           'maxval_yindex', 'background_sum', 'background_mean', 'background_centroid', 'local_background']
OBJ_PROPS = ['label', 'labels', 'slices', 'bbox', 'segment', 'segment_ma', 'data', 'data_ma', 'convdata',
             'convdata_ma', 'error', 'error_ma', 'background', 'background_ma']
SKY_PROPS = ['sky_centroid', 'sky_centroid_icrs', 'sky_bbox_ll', 'sky_bbox_ul', 'sky_bbox_lr', 'sky_bbox_ur']
ALL_PROPS = DELEGATED_NUM + OWN_NUM + OBJ_PROPS + SKY_PROPS


def reference_rows(own, det, rowlabels, localbkg):
    rows = []
    morph_inp = det if det is not None else own
    for L, lb in zip(rowlabels, localbkg):
        ph = ref.photometry_reference(own, int(L), localbkg=lb)
        mo = ref.morphology_reference(morph_inp, int(L))
        alts = []
        ys, xs = np.nonzero(morph_inp.seg == int(L))
        dnf = ~np.isfinite(morph_inp.data[ys, xs].astype(float))
        if morph_inp.mask is not None:
            dnf &= ~morph_inp.mask[ys, xs]
        src = morph_inp.data if morph_inp.conv is None else morph_inp.conv
        cfin = np.isfinite(src[ys, xs].astype(float))
        if (dnf & cfin).any():
            alts.append(('data_nonfinite_excluded', ref.morphology_reference(morph_inp, int(L), True)))
        cnf_unmasked = ~cfin & np.isfinite(morph_inp.data[ys, xs].astype(float))
        if morph_inp.mask is not None:
            cnf_unmasked &= ~morph_inp.mask[ys, xs]
        rows.append(dict(label=int(L), ph=ph, mo=mo, alts=alts, conv_nonfinite_unmasked=bool(cnf_unmasked.any())))
    return rows


def _morph_arrays(rows, key_fn, shape_tail=()):
    """Candidates for a morphology quantity: primary, alternative weight definition, NaN row where permitted."""
    n = len(rows)
    prim = np.array([key_fn(r['mo']) for r in rows], dtype=float).reshape((n,) + shape_tail)
    cands = [('definition', prim)]
    if any(r['alts'] for r in rows):
        alt = np.array([key_fn(r['alts'][0][1]) if r['alts'] else key_fn(r['mo']) for r in rows],
                       dtype=float).reshape((n,) + shape_tail)
        cands.append(('data_nonfinite_excluded', alt))
    return cands


def check_against_reference(case, sc, det_sc, cat, rowlabels, mech, props=None, via_table=False):
    """Observe every property in `props` on `cat` (rows = rowlabels) and compare with the definitions."""
    rng = case.rng
    own = scene_inputs(sc)
    det = scene_inputs(det_sc) if det_sc is not None else None
    isscalar = bool(cat.isscalar)
    n = len(rowlabels)
    unit = None if sc.unit is None else str(sc.unit)
    props = list(ALL_PROPS if props is None else props)
    order = [props[i] for i in rng.permutation(len(props))]
    tcols = None
    if via_table:
        tcols = [p for p in order if p in TABLE_OK][:int(rng.integers(3, 14))]
        if rng.random() < 0.2:
            tcols = 'default'
    try:
        obs = Observer(cat, tcols)
    except Exception as exc:  # noqa: BLE001
        loc = core.exc_location(exc)
        if loc is None:
            raise
        case.check(False, 'property_raised', dict(mech, prop=loc.split(':')[-1], exc=type(exc).__name__, at=loc, via='to_table'),
                   msg=str(exc)[:200])
        tcols = None
        obs = Observer(cat, None)
    if tcols:
        case.note('to_table_columns_observed', len([p for p in order if p in obs.tbl.colnames]))
        if tcols == 'default':
            case.note('to_table_default_columns')

    # local background is read from the library (not modelled): relation only
    lb_obs, lb_sc = obs.get('local_background') if 'local_background' in order else (cat.local_background, isscalar)
    lb, lb_unit = num_rows(lb_obs, lb_sc)
    lb_for_ref = np.where(np.isfinite(lb), lb, 0.0)
    rows = reference_rows(own, det, rowlabels, lb_for_ref)
    rc = RowCheck(case, mech)

    H = np.array([r['mo']['extent'][0] for r in rows], dtype=float)
    W = np.array([r['mo']['extent'][1] for r in rows], dtype=float)
    ext = np.maximum(H, W)
    m00 = np.array([r['mo']['m00'] for r in rows], dtype=float)
    status = [r['mo']['cov_status'] for r in rows]
    for r in rows:
        for a in r['alts']:
            if a[1]['cov_status'] in ('tie',):
                status[rows.index(r)] = 'tie'
    tie = np.array([s == 'tie' for s in status])
    degen = np.array([s == 'degenerate' for s in status])
    cnf = np.array([r['conv_nonfinite_unmasked'] for r in rows])
    for s in status:
        case.note('cov_status_' + s)
    if tie.any():
        case.note('rows_skipped_det_tie', int(tie.sum()))
    tr = np.array([(r['mo']['cov'][0] + r['mo']['cov'][2]) if np.isfinite(r['mo']['cov'][0]) else 0.0
                   for r in rows])
    lam1 = np.array([r['mo']['lam1'] for r in rows], dtype=float)
    lam2 = np.array([r['mo']['lam2'] for r in rows], dtype=float)
    hyp = np.array([r['mo']['hyp'] for r in rows], dtype=float)
    allmasked_own = np.array([r['ph']['ngood'] == 0 for r in rows])
    t = tr                                   # tolerance unit of the covariance entries / eigenvalues (x REL)

    def nan_cand(cands, tail):
        """Where the library may legitimately report NaN (degenerate determinant, unmasked non-finite
        convolved pixel), add a NaN alternative for those rows only."""
        flag = degen | cnf
        if not flag.any():
            return cands
        base = np.array(cands[0][1], dtype=float)
        alt = base.copy()
        alt[flag] = np.nan
        return cands + [('nan_permitted', alt)]

    dtype_mech = {'background_dtype': _dtype_tag(sc, 'background')} if sc.background is not None else {}
    for name in order:
        try:
            v, vs = obs.get(name)
        except Exception as exc:  # noqa: BLE001
            loc = core.exc_location(exc)
            if loc is None:
                raise
            case.check(False, 'property_raised', dict(mech, prop=name, exc=type(exc).__name__, at=loc, **dtype_mech),
                       msg=str(exc)[:200])
            continue
        # ---------------- exact integer-like / object properties ----------------
        if name in ('label', 'labels'):
            a = np.atleast_1d(np.asarray(v))
            case.check(a.dtype.kind in 'iu' and list(map(int, a)) == [int(x) for x in rowlabels],
                       'value_vs_definition', dict(mech, prop=name), obs=a, exp=list(rowlabels))
            continue
        if name == 'slices':
            o = obj_rows(v, vs)
            exp = [(slice(r['ph']['bbox'][0], r['ph']['bbox'][1] + 1), slice(r['ph']['bbox'][2], r['ph']['bbox'][3] + 1))
                   for r in rows]
            case.check(len(o) == n and all(tuple(x) == e for x, e in zip(o, exp)), 'value_vs_definition',
                       dict(mech, prop=name), obs=repr(o)[:300], exp=repr(exp)[:300])
            continue
        if name == 'bbox':
            o = obj_rows(v, vs)
            exp = [(r['ph']['bbox'][2], r['ph']['bbox'][3] + 1, r['ph']['bbox'][0], r['ph']['bbox'][1] + 1) for r in rows]
            got = [(b.ixmin, b.ixmax, b.iymin, b.iymax) for b in o]
            case.check(got == exp, 'value_vs_definition', dict(mech, prop=name), obs=got, exp=exp)
            continue
        if name in ('segment', 'segment_ma', 'data', 'data_ma', 'convdata', 'convdata_ma', 'error', 'error_ma',
                    'background', 'background_ma'):
            _check_cutouts(case, name, obj_rows(v, vs), sc, own, rows, mech, unit)
            continue
        if name in SKY_PROPS:
            _check_sky(case, name, v, vs, sc, det_sc, rows, mech)
            continue

        o, ou = num_rows(v, vs)
        # ---------------- bounding box / areas ----------------
        if name.startswith('bbox_'):
            k = {'bbox_ymin': 0, 'bbox_ymax': 1, 'bbox_xmin': 2, 'bbox_xmax': 3}[name]
            rc.numeric(name, o, ou, [('definition', np.array([r['mo']['bbox'][k] for r in rows], float))], 0.0, None)
        elif name == 'segment_area':
            rc.numeric(name, o, ou, [('definition', [r['mo']['segment_area'] for r in rows])], 0.0, 'pix2')
        elif name == 'area':
            rc.numeric(name, o, ou, [('definition', [r['mo']['area'] for r in rows])], 0.0, 'pix2')
        elif name == 'equivalent_radius':
            e = np.sqrt(np.array([r['mo']['area'] for r in rows]) / np.pi)
            rc.numeric(name, o, ou, [('definition', e)], e, 'pix')
        # ---------------- fluxes ----------------
        elif name == 'segment_flux':
            e = np.array([r['ph']['segment_flux'] for r in rows])
            e = np.where(np.isnan(lb), np.nan, e)
            fs = np.array([r['ph']['flux_scale'] for r in rows])
            extra = None
            if det is not None:
                # structural facts for the mechanism key: the detection image has a different number of good
                # pixels for some row, and the observed value equals sum(data) - detection_area * local_background
                with np.errstate(all='ignore'):
                    ngo = np.array([r['ph']['ngood'] for r in rows], float)
                    raw = e + ngo * lb_for_ref
                    alt = raw - np.array([r['mo']['area'] for r in rows]) * lb
                    same_as_alt = (np.isnan(o) & np.isnan(alt)) | (np.abs(o - alt) <= REL * np.maximum(fs, 1e-300))
                extra = {'detcat_area_differs': bool(any(r['mo']['ngood'] != r['ph']['ngood'] for r in rows)),
                         'equals_sum_minus_detcat_area_times_localbkg': bool(np.all(same_as_alt))}
            rc.numeric(name, o, ou, [('definition', e)], fs, unit, extra_mech=extra)
        elif name == 'segment_fluxerr':
            rc.numeric(name, o, ou, [('definition', [r['ph']['segment_fluxerr'] for r in rows])],
                       [r['ph']['err_scale'] for r in rows], unit,
                       extra_mech=_narrow_mech(sc, 'error', rows, o, lambda a: np.sqrt(np.sum(a ** 2)),
                                               alt=lambda a: np.sqrt(np.float64(np.sum(a ** 2)))))
        elif name in ('min_value', 'max_value'):
            e = np.array([r['ph'][name] for r in rows])
            e = np.where(np.isnan(lb), np.nan, e)
            rc.numeric(name, o, ou, [('definition', e)], 0.0, unit)
        elif name in ('minval_index', 'maxval_index'):
            rc.numeric(name, o, ou, [('definition', np.array([r['ph'][name] for r in rows], float))], 0.0, None)
        elif name in ('cutout_minval_index', 'cutout_maxval_index'):
            e = np.array([(r['ph'][name[7:]][0] - r['ph']['bbox'][0], r['ph'][name[7:]][1] - r['ph']['bbox'][2])
                          for r in rows], float)
            rc.numeric(name, o, ou, [('definition', e)], 0.0, None)
        elif name in ('minval_xindex', 'minval_yindex', 'maxval_xindex', 'maxval_yindex'):
            k = 1 if name[7] == 'x' else 0
            e = np.array([r['ph'][name[:6] + '_index'][k] for r in rows], float)
            rc.numeric(name, o, ou, [('definition', e)], 0.0, None)
        elif name == 'background_sum':
            rc.numeric(name, o, ou, [('definition', [r['ph']['background_sum'] for r in rows])],
                       [r['ph']['bkg_scale'] for r in rows], unit,
                       extra_mech=_narrow_mech(sc, 'background', rows, o, np.sum))
        elif name == 'background_mean':
            rc.numeric(name, o, ou, [('definition', [r['ph']['background_mean'] for r in rows])],
                       [r['ph']['bkg_scale'] / max(r['ph']['ngood'], 1) for r in rows], unit,
                       extra_mech=_narrow_mech(sc, 'background', rows, o, np.mean))
        elif name == 'background_centroid':
            _check_bkg_centroid(case, rc, o, ou, sc, rows, unit, tie_rows=cnf)
        elif name == 'local_background':
            exp_nan = allmasked_own
            okv = np.array_equal(np.isnan(o), exp_nan) and (sc.localbkg_width > 0 or np.all(o[~exp_nan] == 0.0))
            case.check(bool(okv) and ou == unit, 'local_background_nan_iff_fully_masked', dict(mech, prop=name),
                       obs=o, allmasked=exp_nan, unit=ou)
        # ---------------- moments and centroids ----------------
        elif name == 'moments':
            pw = np.arange(4)
            sc_ = m00[:, None, None] * np.maximum(H - 1, 1)[:, None, None] ** pw[None, :, None] \
                * np.maximum(W - 1, 1)[:, None, None] ** pw[None, None, :]
            rc.numeric(name, o, ou, nan_cand(_morph_arrays(rows, lambda m: m['moments'], (4, 4)), (4, 4)), sc_, None)
        elif name == 'moments_central':
            # zero total weight: centre undefined; each component may be an empty sum (0) or NaN
            o = np.where((m00 == 0)[:, None, None] & (o == 0), np.nan, o)
            pw = np.arange(4)
            sc_ = m00[:, None, None] * H[:, None, None] ** pw[None, :, None] * W[:, None, None] ** pw[None, None, :]
            rc.numeric(name, o, ou, nan_cand(_morph_arrays(rows, lambda m: m['moments_central'], (4, 4)), (4, 4)),
                       sc_, None)
        elif name in ('cutout_centroid', 'centroid'):
            rc.numeric(name, o, ou, nan_cand(_morph_arrays(rows, lambda m: m[name], (2,)), (2,)), ext[:, None], None)
        elif name in ('xcentroid', 'ycentroid'):
            k = 0 if name[0] == 'x' else 1
            rc.numeric(name, o, ou, nan_cand(_morph_arrays(rows, lambda m: m['centroid'][k]), ()), ext, None)
        elif name == 'inertia_tensor':
            f = lambda m: [[m['moments_central'][0, 2], -m['moments_central'][1, 1]],      # noqa: E731
                           [-m['moments_central'][1, 1], m['moments_central'][2, 0]]]
            o = np.where((m00 == 0)[:, None, None] & (o == 0), np.nan, o)
            rc.numeric(name, o, ou, nan_cand(_morph_arrays(rows, f, (2, 2)), (2, 2)), (m00 * ext ** 2)[:, None, None], 'pix2')
        # ---------------- second-moment shape parameters ----------------
        elif name == 'covariance':
            f = lambda m: [[m['cov'][0], m['cov'][1]], [m['cov'][1], m['cov'][2]]]       # noqa: E731
            rc.numeric(name, o, ou, nan_cand(_morph_arrays(rows, f, (2, 2)), (2, 2)), t[:, None, None], 'pix2', skip=tie)
        elif name in ('covar_sigx2', 'covar_sigxy', 'covar_sigy2'):
            k = {'covar_sigx2': 0, 'covar_sigxy': 1, 'covar_sigy2': 2}[name]
            rc.numeric(name, o, ou, nan_cand(_morph_arrays(rows, lambda m: m['cov'][k]), ()), t, 'pix2', skip=tie)
        elif name == 'covariance_eigvals':
            rc.numeric(name, o, ou, nan_cand(_morph_arrays(rows, lambda m: [m['lam1'], m['lam2']], (2,)), (2,)),
                       t[:, None], 'pix2', skip=tie)
        elif name in ('semimajor_sigma', 'semiminor_sigma'):
            k = 'lam1' if name == 'semimajor_sigma' else 'lam2'
            case.check(bool(np.all((o >= 0) | np.isnan(o))), 'sigma_nonnegative', dict(mech, prop=name))
            rc.numeric(name, o ** 2, ou, nan_cand(_morph_arrays(rows, lambda m: m[k]), ()), t, 'pix', skip=tie)
        elif name == 'fwhm':
            rc.numeric(name, o ** 2 / (4.0 * math.log(2.0)), ou,
                       nan_cand(_morph_arrays(rows, lambda m: m['lam1'] + m['lam2']), ()), 2 * t, 'pix', skip=tie)
        elif name == 'eccentricity':
            with np.errstate(all='ignore'):
                rc.numeric(name, o ** 2, ou, nan_cand(_morph_arrays(rows, lambda m: 1.0 - m['lam2'] / m['lam1']), ()),
                           4 * t / lam1, '', skip=tie)
        elif name == 'elongation':
            with np.errstate(all='ignore'):
                rc.numeric(name, o ** 2, ou, nan_cand(_morph_arrays(rows, lambda m: m['lam1'] / m['lam2']), ()),
                           (t / lam2) * (1 + lam1 / lam2), '', skip=tie)
        elif name == 'ellipticity':
            with np.errstate(all='ignore'):
                rc.numeric(name, (1.0 - o) ** 2, ou, nan_cand(_morph_arrays(rows, lambda m: m['lam2'] / m['lam1']), ()),
                           4 * t / lam1, '', skip=tie)
        elif name == 'orientation':
            _check_orientation(case, rc, o, ou, rows, t, hyp, tie, degen | cnf)
        elif name in ('cxx', 'cyy', 'cxy'):
            with np.errstate(all='ignore'):
                sc_ = 6 * t / lam2 ** 2
                # orientation ill-conditioned (nearly round): cxx, cyy, cxy formulas through theta stay
                # well-conditioned because the theta-dependent term is multiplied by (1/lam2 - 1/lam1)
            rc.numeric(name, o, ou, nan_cand(_morph_arrays(rows, lambda m: m[name]), ()), sc_, '1 / pix2', skip=tie)
        else:
            raise RuntimeError('unhandled property ' + name)
    return rows, obs


def _dtype_tag(sc, arrname):
    tag = str(sc.layout.get(arrname, ''))
    return tag[6:] if tag.startswith('dtype:') else str(getattr(sc, arrname).dtype)


def _narrow_mech(sc, arrname, rows, obs, fn, alt=None):
    """Structural facts for the mechanism key when an input array is a narrow float: its dtype, and whether the
    observed value equals the same reduction accumulated in that narrow dtype (never used for the verdict)."""
    tag = str(sc.layout.get(arrname, ''))
    if not tag.startswith('dtype:float'):
        return None
    dt = np.dtype(tag[6:])
    arr = getattr(sc, arrname).astype(dt)
    same = True
    with np.errstate(all='ignore'):
        for i, r in enumerate(rows):
            gy, gx = r['ph']['good_yx']
            if len(gy) == 0:
                continue
            ob = float(obs[i])
            hit = False
            # alt: the narrow sum followed by a float64 square root (the library's result array becomes float64
            # as soon as another row is fully masked and contributes a float64 NaN)
            for f in (fn, alt):
                if f is None:
                    continue
                em = float(f(arr[gy, gx]))
                hit |= bool((np.isnan(em) and np.isnan(ob)) or em == ob or abs(em - ob) <= 1e-12 * abs(em))
            same &= hit
    return {arrname + '_dtype': dt.name, 'equals_accumulation_in_input_dtype': bool(same)}


def _check_cutouts(case, name, o, sc, own, rows, mech, unit):
    base = name.replace('_ma', '')
    src = {'segment': own.seg, 'data': own.data, 'convdata': own.data if own.conv is None else own.conv,
           'error': own.error, 'background': own.background}[base]
    m = dict(mech, prop=name)
    if src is None:
        case.check(all(x is None for x in o), 'value_vs_definition', m, obs=repr(o)[:200], exp='None per source')
        return
    masked = name.endswith('_ma')
    ok, why = True, ''
    for x, r in zip(o, rows):
        ymin, ymax, xmin, xmax = r['ph']['bbox']
        e = src[ymin:ymax + 1, xmin:xmax + 1]
        if base in ('data', 'convdata'):
            e = e.astype(float)
        xu = getattr(x, 'unit', None)
        want_u = unit if (not masked and base != 'segment') else None
        if (None if xu is None else str(xu)) != want_u:
            ok, why = False, f'unit {xu} != {want_u}'
            break
        xv = x.value if xu is not None else x
        if masked != isinstance(xv, np.ma.MaskedArray):
            ok, why = False, 'masked-array-ness'
            break
        xd = np.ma.getdata(xv)
        if xd.shape != e.shape or not np.array_equal(xd, e, equal_nan=True):
            ok, why = False, f'label {r["label"]}: cutout values differ from the input array over the bounding box'
            break
        if masked:
            good = np.zeros(e.shape, bool)
            gy, gx = r['ph']['good_yx']
            good[gy - ymin, gx - xmin] = True
            if not np.array_equal(np.ma.getmaskarray(xv), ~good):
                ok, why = False, f'label {r["label"]}: mask is not the complement of (segment & unmasked & finite)'
                break
    case.check(ok, 'value_vs_definition', m, why=why)


def _check_sky(case, name, v, vs, sc, det_sc, rows, mech):
    m = dict(mech, prop=name)
    n = len(rows)
    wcs = sc.wcs if det_sc is None else det_sc.wcs
    if wcs is None:
        o = obj_rows(v, vs)
        case.check(len(o) == n and all(x is None for x in o), 'value_vs_definition', m, obs=repr(o)[:200], exp='None')
        return
    from astropy.coordinates import SkyCoord
    if not isinstance(v, SkyCoord):
        case.check(False, 'value_vs_definition', m, obs=type(v).__name__, exp='SkyCoord')
        return
    if vs:
        v = v.reshape((1,))
    xb = yb = None
    if name.startswith('sky_centroid'):
        x = np.array([r['mo']['centroid'][0] for r in rows])
        y = np.array([r['mo']['centroid'][1] for r in rows])
    else:
        # ll, ul, lr, ur: first letter lower/upper (y), second left/right (x); vertices are the outer pixel
        # corners of the minimal bounding box: index - 0.5 on the low side, (inclusive) index + 0.5 on the high side
        lower, left = name[-2] == 'l', name[-1] == 'l'
        x = np.array([r['mo']['bbox'][2] - 0.5 if left else r['mo']['bbox'][3] + 0.5 for r in rows], float)
        y = np.array([r['mo']['bbox'][0] - 0.5 if lower else r['mo']['bbox'][1] + 0.5 for r in rows], float)
        # the corner one pixel beyond (exclusive stop index + 0.5): only used to label the mechanism
        xb = np.array([r['mo']['bbox'][2] - 0.5 if left else r['mo']['bbox'][3] + 1.5 for r in rows], float)
        yb = np.array([r['mo']['bbox'][0] - 0.5 if lower else r['mo']['bbox'][1] + 1.5 for r in rows], float)
    fin = np.isfinite(x) & np.isfinite(y)
    e = wcs.pixel_to_world(np.where(fin, x, 0.0), np.where(fin, y, 0.0))
    if name == 'sky_centroid_icrs':
        e = e.icrs
        okf = v.frame.name == 'icrs'
    else:
        okf = v.frame.name == e.frame.name
    ok = okf and v.shape == (n,)
    worst = 0.0
    if ok:
        lon_o, lat_o = v.spherical.lon.deg, v.spherical.lat.deg
        if not np.array_equal(np.isnan(lon_o), ~fin):
            ok = False
        elif fin.any():
            sep = v[fin].separation(e[fin]).deg
            worst = float(np.max(sep))
            ok = worst <= 1e-10
            if not ok and xb is not None:
                eb = wcs.pixel_to_world(xb, yb)
                m['equals_corner_at_exclusive_stop_plus_half'] = bool(np.max(v.separation(eb).deg) <= 1e-10)
    case.dev(name + '_sep_deg', worst)
    case.check(ok, 'value_vs_definition', m, worst_sep_deg=worst, frame=v.frame.name)


def _check_bkg_centroid(case, rc, o, ou, sc, rows, unit, tie_rows):
    n = len(rows)
    if sc.background is None:
        rc.numeric('background_centroid', o, ou, [('definition', np.full(n, np.nan))], 0.0, unit)
        return
    bkg = sc.background
    e = np.full(n, np.nan)
    swapped = np.full(n, np.nan)
    skip = np.zeros(n, bool)
    cands_alt = np.full(n, np.nan)
    swapped_nonfinite = np.zeros(n, bool)
    for i, r in enumerate(rows):
        xc, yc = r['mo']['centroid']
        val, fin = ref.bilinear(bkg, yc, xc)
        if not fin:
            skip[i] = True
        e[i] = val
        sval, sfin = ref.bilinear(bkg, xc, yc)        # axes exchanged: row = x, column = y (clamped)
        swapped[i] = sval if sfin else np.nan
        swapped_nonfinite[i] = not sfin
        if r['alts']:
            xa, ya = r['alts'][0][1]['centroid']
            cands_alt[i] = ref.bilinear(bkg, ya, xa)[0]
        else:
            cands_alt[i] = val
    if skip.any():
        case.note('background_centroid_rows_skipped_nonfinite_neighbour', int(skip.sum()))
    skip |= tie_rows
    scale = np.full(n, float(np.nanmax(np.abs(bkg[np.isfinite(bkg)]))) * 10.0) if np.isfinite(bkg).any() else 0.0
    with np.errstate(all='ignore'):
        fin = np.isfinite(o) & np.isfinite(e) & ~skip
        mism = ~skip & np.isfinite(e) & ~(np.isfinite(o) & (np.abs(o - e) <= REL * scale))
        sw_ok = (np.isfinite(swapped) & (np.abs(o - swapped) <= REL * scale)) | (swapped_nonfinite & ~np.isfinite(o))
    extra = None
    if mism.any():
        # structural fact for the mechanism key: every mismatching row equals the value sampled with the
        # axes exchanged (background[x, y] instead of background[y, x])
        extra = {'equals_axes_swapped_sample': bool(np.all(sw_ok[mism]))}
    rc.numeric('background_centroid', o, ou, [('definition', e), ('data_nonfinite_excluded', cands_alt)], scale, unit,
               skip=skip, extra_mech=extra)


def _check_orientation(case, rc, o, ou, rows, t, hyp, tie, nan_ok):
    n = len(rows)
    mech = dict(rc.base, prop='orientation')
    if ou != 'deg':
        case.check(False, 'unit_of_property', mech, obs=ou, exp='deg')
        return
    exp = np.array([r['mo']['theta_deg'] for r in rows])
    alt = np.array([r['alts'][0][1]['theta_deg'] if r['alts'] else r['mo']['theta_deg'] for r in rows])
    ok = np.ones(n, bool)
    worst = 0.0
    nskip = 0
    for i in range(n):
        if tie[i]:
            continue
        if np.isnan(exp[i]) or np.isnan(o[i]):
            ok[i] = (np.isnan(exp[i]) and np.isnan(o[i])) or (nan_ok[i] and np.isnan(o[i])) \
                or (np.isnan(alt[i]) and np.isnan(o[i]))
            continue
        if not (hyp[i] > 1e4 * REL * max(t[i], 1e-300)):
            nskip += 1                                 # (nearly) round source: the angle is not defined
            continue
        tol = math.degrees(0.5 * REL * t[i] / hyp[i]) * 4 + 1e-11
        best = None
        for cand in (exp[i], alt[i]):
            d = abs((o[i] - cand + 90.0) % 180.0 - 90.0)
            best = d if best is None else min(best, d)
        worst = max(worst, best / tol * REL)
        ok[i] = best <= tol and -90.0 - 1e-9 <= o[i] <= 90.0 + 1e-9
    if nskip:
        case.note('orientation_rows_skipped_round_source', nskip)
    case.dev('orientation', worst)
    case.check(bool(ok.all()), 'value_vs_definition', mech, obs=o, exp=exp, bad_rows=np.nonzero(~ok)[0])


# ----------------------------------------------------------------------
# relations
# ----------------------------------------------------------------------
REL_PROPS = [p for p in ALL_PROPS if p not in ('label', 'labels')]


PLAIN_CUTOUTS = ('data', 'convdata', 'error', 'background')
MASKED_CUTOUTS = ('data_ma', 'convdata_ma', 'error_ma', 'background_ma')


def _footprint_only(v):
    """Masked cutouts reduced to what lies on the footprint: (mask, unmasked values)."""
    out = []
    for x in (v if isinstance(v, (list, np.ndarray)) and not isinstance(v, np.ma.MaskedArray) else [v]):
        if x is None:
            out.append(None)
        else:
            out.append([np.ma.getmaskarray(x), np.ma.getdata(x)[~np.ma.getmaskarray(x)]])
    return out


def _struct_rows_equal(case, c1, c2, names, what, mech, skip_rows_for=None, footprint_only=False):
    for name in names:
        if footprint_only and name in PLAIN_CUTOUTS:
            continue                      # pixels of the bounding box that do not carry the label may change
        try:
            a, b = getattr(c1, name), getattr(c2, name)
        except Exception as exc:  # noqa: BLE001
            loc = core.exc_location(exc)
            if loc is None:
                raise
            case.check(False, 'property_raised', dict(mech, prop=name, exc=type(exc).__name__, at=loc), msg=str(exc)[:200])
            continue
        if footprint_only and name in MASKED_CUTOUTS:
            a, b = _footprint_only(a), _footprint_only(b)
        if skip_rows_for and name in skip_rows_for:
            keep = skip_rows_for[name]
            if not keep.all():
                pos = np.nonzero(keep)[0]
                if len(pos) == 0:
                    continue
                a, b = cmp.index_value(a, pos), cmp.index_value(b, pos)
        ok, why = cmp.struct_same(a, b, name)
        case.check(ok, what, dict(mech, prop=name), why=why)


def relation_outside(case, sc, det_sc, mech):
    """R1: garbage everywhere outside the footprints of the kept labels changes nothing in their rows."""
    rng = case.rng
    labels = list(sc.labels)
    k = int(rng.integers(1, len(labels) + 1))
    keep = sorted(int(x) for x in rng.choice(labels, size=k, replace=False))
    outside = ~np.isin(sc.seg, keep)
    if sc.localbkg_width > 0:
        outside &= sc.seg != 0          # the annulus of unlabelled pixels is part of the footprint
    if not outside.any():
        return
    sc2 = sc.copy()
    isint = sc.data.dtype.kind in 'iu'
    nout = int(outside.sum())

    def garbage(arr, allow_nonfinite=True, positive=False):
        g = rng.normal(0, 1e3, nout)
        if positive:
            g = np.abs(g) + 0.1
        if arr.dtype.kind in 'iu':
            g = np.abs(g).astype(arr.dtype) if arr.dtype.kind == 'u' else g.astype(arr.dtype)
        elif allow_nonfinite:
            r = rng.random(nout)
            g[r < 0.1] = np.nan
            g[(r >= 0.1) & (r < 0.15)] = np.inf
        arr[outside] = g

    garbage(sc2.data, allow_nonfinite=not isint)
    if sc2.conv is not None:
        garbage(sc2.conv)
    if sc2.error is not None:
        garbage(sc2.error, positive=True)
    bkg_rows_ok = None
    if sc2.background is not None:
        garbage(sc2.background, allow_nonfinite=False)
    if sc2.mask is not None:
        flip = outside & (rng.random(sc.shape) < 0.5)
        sc2.mask[flip] = ~sc2.mask[flip]
    elif rng.random() < 0.3:
        sc2.mask = outside & (rng.random(sc.shape) < 0.5)
    detcat1 = gen.make_catalog(det_sc) if det_sc is not None else None
    detcat2 = gen.make_catalog(det_sc) if det_sc is not None else None
    c1 = gen.make_catalog(sc, detcat1).get_labels(keep)
    c2 = gen.make_catalog(sc2, detcat2).get_labels(keep)
    names = [p for p in REL_PROPS if (not p.startswith('sky_') or sc.wcs is not None) and p != 'background_centroid']
    if sc.background is not None:
        # background_centroid reads the 2x2 pixels around the centroid: they belong to that row's footprint.
        # Rows whose true neighbourhood was overwritten are not compared.  Rows whose neighbourhood at the
        # axes-exchanged position (row = x, column = y) was overwritten are compared separately so that the
        # known axes-swap defect is keyed by that structural fact and nothing else hides behind it.
        x1, y1 = np.atleast_1d(c1.xcentroid), np.atleast_1d(c1.ycentroid)

        def touched(r, c):
            r = min(max(r, 0.0), sc.shape[0] - 1.0)
            c = min(max(c, 0.0), sc.shape[1] - 1.0)
            rs = {int(math.floor(r)), min(int(math.floor(r)) + 1, sc.shape[0] - 1)}
            cs = {int(math.floor(c)), min(int(math.floor(c)) + 1, sc.shape[1] - 1)}
            return any(outside[a, b] for a in rs for b in cs)
        fin = np.isfinite(x1) & np.isfinite(y1)
        true_t = np.array([bool(f and touched(y, x)) for x, y, f in zip(x1, y1, fin)])
        swap_t = np.array([bool(f and touched(x, y)) for x, y, f in zip(x1, y1, fin)])
        try:
            b1, _ = num_rows(c1.background_centroid, bool(c1.isscalar))
            b2, _ = num_rows(c2.background_centroid, bool(c2.isscalar))
        except Exception as exc:  # noqa: BLE001
            loc = core.exc_location(exc)
            if loc is None:
                raise
            case.check(False, 'property_raised', dict(mech, prop='background_centroid', exc=type(exc).__name__, at=loc,
                                                      background_dtype=_dtype_tag(sc, 'background')), msg=str(exc)[:200])
            b1 = b2 = None
        for flag in (False, True) if b1 is not None else ():
            rows_ = ~true_t & (swap_t == flag)
            if rows_.any():
                ok = np.array_equal(b1[rows_], b2[rows_], equal_nan=True)
                case.check(ok, 'row_unchanged_by_outside_pixels',
                           dict(mech, rel='outside', prop='background_centroid',
                                pixels_at_axes_swapped_position_overwritten=bool(flag)),
                           before=b1[rows_], after=b2[rows_])
    skip = None
    _struct_rows_equal(case, c2, c1, names, 'row_unchanged_by_outside_pixels', dict(mech, rel='outside'),
                       skip_rows_for=skip, footprint_only=True)
    case.note('relation_outside')


def relation_renumber(case, sc, det_sc, mech, with_kron):
    """R2: renumbering the labels (order-changing injective map) permutes rows and changes nothing else."""
    rng = case.rng
    labels = [int(x) for x in sc.labels]
    n = len(labels)
    via_api = rng.random() < 0.5
    limit = sc.info.get('label_limit')
    top = max(50, 4 * n) if limit is None else min(max(50, 4 * n), limit + 1)
    pool = np.arange(1, top)
    if via_api:
        top = max(labels) + max(50, 4 * n) if limit is None else min(limit + 1, max(labels) + max(50, 4 * n))
        pool = np.setdiff1d(np.arange(1, top), labels)                              # unused numbers only
    new = [int(x) for x in rng.choice(pool, size=n, replace=False)]
    if n > 1 and sorted(new) == [new[i] for i in np.argsort(labels)]:
        new = new[::-1]
    lut = np.zeros(int(sc.seg.max()) + 1, dtype=sc.seg.dtype)
    for a, b in zip(labels, new):
        lut[a] = b
    sc2 = sc.copy()
    sc2.seg = lut[sc.seg]
    sc2.labels = np.sort(np.array(new))
    sc2.provenance = {k: v for k, v in sc.provenance.items() if k != 'segm'}
    det2 = None
    if det_sc is not None:
        det2 = det_sc.copy()
        det2.seg = sc2.seg.copy()
        det2.labels = sc2.labels
        det2.provenance = {k: v for k, v in det_sc.provenance.items() if k != 'segm'}
    c1 = gen.make_catalog(sc, gen.make_catalog(det_sc) if det_sc is not None else None)
    segm2 = None
    if via_api:
        # the same renumbering done through the public API on a SegmentationImage that was already in use
        # (slices / labels cached by an earlier catalogue): one-to-one renames to unused numbers
        segm2 = gen.make_segm(sc)
        used = gen.make_catalog(sc, None, segm=segm2)
        used.bbox_xmin, segm2.slices, segm2.areas
        for a, b in zip(labels, new):
            segm2.reassign_label(a, b)
        case.check(np.array_equal(segm2.data, sc2.seg), 'reassign_label_renumbers', dict(mech, rel='renumber'))
        case.note('relation_renumber_via_reassign_label')
    c2 = gen.make_catalog(sc2, gen.make_catalog(det2) if det2 is not None else None, segm=segm2).get_labels(new)
    names = [p for p in REL_PROPS if p not in ('segment', 'segment_ma')]
    if sc.wcs is None:
        names = [p for p in names if not p.startswith('sky_')]
    if with_kron:
        names += ['kron_radius', 'kron_flux', 'kron_fluxerr']
    _struct_rows_equal(case, c2, c1, names, 'row_unchanged_by_renumbering',
                       dict(mech, rel='renumber', via_reassign_label=bool(via_api)))
    # segment cutouts: same footprint pattern
    ok = all(np.array_equal(a == la, b == lb) for a, la, b, lb in zip(c1.segment, labels, c2.segment, new))
    case.check(ok, 'row_unchanged_by_renumbering', dict(mech, rel='renumber', prop='segment'))
    case.check([int(x) for x in c2.labels] == new, 'row_unchanged_by_renumbering', dict(mech, rel='renumber', prop='labels'))
    case.note('relation_renumber')


# ----------------------------------------------------------------------
def run_case(case):
    rng, cls = case.rng, case.cls
    sc = build_scene(rng, cls)
    det_sc = None
    if cls == 'detcat' or rng.random() < 0.08:
        det_sc = build_detection_scene(rng, sc)
        if rng.random() < 0.5:
            det_sc.wcs = gen.simple_wcs(rng, sc.shape)
    labels = [int(x) for x in sc.labels]
    n = len(labels)
    for ax in sc.axes:
        case.note('axis2_' + ax[2:] if ax.startswith('2_') else 'axis_' + ax)
    if not sc.axes:
        case.note('axis_plain_scene')
    if det_sc is not None and det_sc.provenance.get('as_child'):
        case.note('axis2_provenance_detection_cat_is_indexed_child')

    # row selection
    sel = rng.random()
    if sel < 0.5 or n == 0:
        how, idx = 'all', None
    elif sel < 0.7:
        how = 'get_labels'
        k = int(rng.integers(1, n + 1))
        idx = [int(x) for x in rng.choice(labels, size=k, replace=rng.random() < 0.3)]
        # set-like argument: descending order, duplicates, and the container / integer dtype it arrives in
        if rng.random() < 0.3:
            idx = sorted(idx, reverse=True)
            idx_note = 'axis2_labels_descending'
        else:
            idx_note = 'axis2_labels_with_duplicates' if len(set(idx)) < len(idx) else None
        if idx_note:
            case.note(idx_note)
        lform = ['list', 'tuple', 'int64', 'int32', 'uint64', 'uint16', 'int16'][int(rng.integers(0, 7))]
        if lform in ('uint16', 'int16') and max(idx) > 32000:
            lform = 'int64'
        case.note('axis2_labels_as_' + lform)
    elif sel < 0.8:
        how, idx = 'get_label', int(labels[int(rng.integers(0, n))])
    elif sel < 0.9:
        how, idx = 'int', int(rng.integers(-n, n))
    else:
        how = 'slice'
        idx = [slice(None, None, -1), slice(0, None, 2), slice(1, None), slice(None, -1), slice(-1, None, -2)][int(rng.integers(0, 5))]
    via_table = rng.random() < 0.25
    rel_pick = rng.random()
    case.params = dict(sc.describe(), rows=how, idx=repr(idx), detcat=det_sc is not None, via_table=via_table)
    if det_sc is not None:
        case.params.update(det_sc.info)
    case.digest = core.arr_digest(*sc.arrays(), *(det_sc.arrays() if det_sc is not None else ())) \
        + core.digest([how, repr(idx)])[:6]
    mech = {'cls': cls, 'rows': how, 'detcat': det_sc is not None}

    detcat = gen.make_catalog(det_sc) if det_sc is not None else None
    cat = gen.make_catalog(sc, detcat)
    case.check([int(x) for x in cat.labels] == labels, 'labels_sorted_as_segment_image', mech)
    if how != 'all' and rng.random() < 0.4:
        # lazily evaluated properties cached on the parent BEFORE the rows are selected / reordered
        pre = [p for p in ALL_PROPS if rng.random() < 0.3 and (sc.background is None or p != 'background_centroid'
                                                                or not _dtype_tag(sc, 'background') == 'float16')]
        for name in pre:
            getattr(cat, name)
        case.note('axis2_properties_cached_before_row_selection', len(pre))
    if how == 'all':
        rowlabels = labels
    elif how == 'get_labels':
        arg = idx if lform == 'list' else tuple(idx) if lform == 'tuple' else np.array(idx, dtype=lform)
        cat = cat.get_labels(arg)
        rowlabels = idx
    elif how == 'get_label':
        cat = cat.get_label(idx)
        rowlabels = [idx]
    elif how == 'int':
        cat = cat[idx]
        rowlabels = [labels[idx]]
    else:
        rowlabels = labels[idx]
        if len(rowlabels) == 0:
            how, rowlabels = 'all', labels
        else:
            cat = cat[idx]

    # non-triviality: some observed label shares its bounding box with foreign / excluded pixels
    own = scene_inputs(sc)
    nt = how != 'all'
    nmasked = 0
    for L in rowlabels:
        ys, xs, bb, good = ref.footprint(own, L)
        box = sc.seg[bb[0]:bb[1] + 1, bb[2]:bb[3] + 1]
        if ((box != L) & (box != 0)).any() or not good.all():
            nt = True
        nmasked += int(not good.any())
    case.nontrivial = nt
    if nmasked:
        case.note('fully_masked_rows_observed', nmasked)

    rows, _ = check_against_reference(case, sc, det_sc, cat, rowlabels, mech, via_table=via_table)

    # the same object asked twice on the sky / WCS path (and once more through a table): same answers
    if (sc.wcs if det_sc is None else det_sc.wcs) is not None:
        first = {nm: getattr(cat, nm) for nm in SKY_PROPS}
        check_against_reference(case, sc, det_sc, cat, rowlabels, dict(mech, request='second'), props=SKY_PROPS,
                                via_table=rng.random() < 0.5)
        for nm in SKY_PROPS:
            ok, why = cmp.struct_same(getattr(cat, nm), first[nm], nm)
            case.check(ok, 'second_request_equals_first', dict(mech, prop=nm), why=why)
        case.note('axis2_sky_outputs_requested_twice')

    # fully masked sources: NaN rather than a number also for the Kron quantities (documented)
    if nmasked and det_sc is None and rng.random() < 0.5:
        am = np.array([r['ph']['ngood'] == 0 for r in rows])
        for name in ('kron_radius', 'kron_flux', 'kron_fluxerr'):
            v, _u = num_rows(getattr(cat, name), bool(cat.isscalar))
            case.check(bool(np.all(np.isnan(v[am]))), 'fully_masked_source_reports_nan', dict(mech, prop=name), obs=v)

    if rel_pick < 0.45:
        relation_outside(case, sc, det_sc, mech)
    elif rel_pick < 0.9:
        relation_renumber(case, sc, det_sc, mech, with_kron=rng.random() < 0.25)
    else:
        relation_outside(case, sc, det_sc, mech)
        relation_renumber(case, sc, det_sc, mech, with_kron=False)
