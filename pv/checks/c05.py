"""C05 SegmentationImage attributes always describe the current label array.

M3 history monitor with a semantic model (pv.ref.c05_model) and a fresh-object
oracle.  One case = one history on one live SegmentationImage:

    repeat 1..8 times:
        read a random subset of derived attributes on the live object
            (each value is compared with a fresh object and with numpy definitions;
             what stays cached is the point)
        apply one public mutator with generated arguments to the live object and
            to the numpy model (the model also predicts rejected arguments)
        compare array/dtype with the model, then verify *every* public derived
            attribute on a deep copy of the live object (same cache content, so the
            live object's cache is not disturbed) in random order
    finally verify every attribute on the live object itself.
"""
from __future__ import annotations

import copy as _copy
import warnings

import numpy as np

from pv import core
from pv.gen import c05_arrays as gen
from pv.ref import c05_model as ref

ID = 'C05'
RULE = ('one case = a history of 1..8 public mutators (reassign_label(s), relabel_consecutive, keep_label(s), '
        'remove_label(s), remove_border_labels, remove_masked_labels, data assignment, copy) on one live '
        'SegmentationImage built from a generated label array (13 classes: all integer dtypes, gaps, disconnected, '
        'no background, all zero, dtype-max labels, memory layouts, detect_sources / deblend_sources outputs); before '
        'each mutator a random subset of derived attributes is read on the live object; after each step array+dtype are '
        'compared with a numpy model and every public attribute with a fresh SegmentationImage and numpy definitions; '
        'non-trivial = at least one mutator changed the array (or assigned data) while >=1 derived attribute was cached '
        'on the live object; distinct by digest of the initial array and the applied operation list')
CLASSES = ['blobs', 'scatter', 'disconnected', 'no_background', 'single_pixel', 'all_zero', 'gaps_big',
           'dtype_max', 'border', 'tiny', 'layout', 'detect', 'deblend']
_Q = 'photutils.segmentation.core:SegmentationImage.'
MUST_REACH = [_Q + n for n in (
    'reassign_labels', 'reassign_label', 'relabel_consecutive', 'keep_labels', 'keep_label', 'remove_labels',
    'remove_label', 'remove_border_labels', 'remove_masked_labels', 'copy', '_reset_lazyproperties',
    '_update_deblend_label_map', 'labels', 'areas', 'slices', 'bbox', 'segments', 'polygons', '_geo_polygons',
    'missing_labels', 'is_consecutive', 'background_area', 'data_ma', 'deblended_labels', 'deblended_labels_map',
    'deblended_labels_inverse_map', 'get_index', 'get_indices', 'get_area', 'get_areas', 'check_labels',
    'max_label', 'nlabels', 'cmap', 'make_source_mask', '__getitem__')] + [
    'photutils.segmentation.detect:detect_sources', 'photutils.segmentation.deblend:deblend_sources']
ANCHOR_FILES = ['segmentation/core.py', 'segmentation/deblend.py', 'segmentation/detect.py']
MIN_NONTRIVIAL = {'quick': 800, 'thorough': 5000}
ASSUMPTIONS = ['numpy comparison/indexing/unique and copy.deepcopy are trusted',
               'shapely area/bounds/contains_xy are trusted for judging polygons (rasterio is code under test '
               'only through photutils)',
               'attributes are verified after each step on a deepcopy of the live object (identical cache '
               'content) so that the live cache holds only the randomly chosen reads; the live object itself is '
               'verified in full at the end of each history',
               'deblended-label maps have no fresh-object counterpart: they are compared with the model '
               '(children pushed through each operation\'s label map, removed children dropped)']


def plan(tier):
    if tier == 'thorough':
        return dict(shards=16, cases=9000, timeout=2400, budget_s=600)
    return dict(shards=6, cases=480, timeout=600, budget_s=70)


def selftest():
    ref.selftest()
    import shapely
    from shapely.geometry import Polygon, box
    # polygon judge on hand cases: unit pixel squares in centre coordinates
    d = ref.Defs(np.array([[0, 3, 3], [0, 3, 0]]))
    good = Polygon([(0.5, -0.5), (2.5, -0.5), (2.5, 0.5), (1.5, 0.5), (1.5, 1.5), (0.5, 1.5)])
    assert _polygon_ok(good, d, 0)
    assert not _polygon_ok(box(0.5, -0.5, 2.5, 1.5), d, 0)        # area 4 != 3
    assert not _polygon_ok(shapely.affinity.translate(good, 1, 0), d, 0)
    assert _expected_regions(ref.Defs(np.array([[1, 0, 1]]))) == 2
    assert _expected_regions(ref.Defs(np.array([[1, 2]]))) == 2


# ----------------------------------------------------------------------
# helpers
# ----------------------------------------------------------------------
LAZY = ('labels', 'nlabels', 'max_label', 'areas', 'slices', 'bbox', 'segments', 'polygons', 'missing_labels',
        'is_consecutive', 'background_area', 'data_ma', 'shape', 'deblended_labels', 'deblended_labels_map',
        'deblended_labels_inverse_map', 'cmap')
METHODS = ('get_index', 'get_indices', 'get_area', 'get_areas', 'check_labels', 'repr', 'array',
           'make_source_mask', 'getitem')
ALL_ATTRS = LAZY + METHODS


def _polygon_ok(poly, D, i):
    import shapely
    x0, x1, y0, y1 = D.bbox[i]
    ys, xs = D.pix[i]
    try:
        return (float(poly.area) == float(D.areas[i])
                and tuple(float(v) for v in poly.bounds) == (x0 - 0.5, y0 - 0.5, x1 - 0.5, y1 - 0.5)
                and bool(np.all(shapely.contains_xy(poly, xs.astype(float), ys.astype(float)))))
    except Exception:  # noqa: BLE001  (empty/odd geometry object)
        return False


def _expected_regions(D):
    """Entries the known mechanism yields: one per 8-connected region (the
    additional drop of one region on arrays without background was fixed in
    photutils commit a8c8e59)."""
    return sum(D.ncomp)


def _poly_flags(D):
    f = {}
    if _expected_regions(D) != D.nlabels or D.no_background:
        f['polygon_count_mismatch_expected'] = _expected_regions(D) != D.nlabels
    return f


class Fresh:
    """Freshly constructed SegmentationImage on a copy of the current array."""
    FAILED = object()

    def __init__(self, cur):
        from photutils.segmentation import SegmentationImage
        self.obj = SegmentationImage(cur.copy())

    def get(self, name):
        try:
            return getattr(self.obj, name)
        except Exception:  # noqa: BLE001  fresh object cannot answer (e.g. segments on a disconnected label)
            return Fresh.FAILED


def _ints(x):
    return [int(v) for v in np.asarray(x).ravel()]


def _bbox_t(b):
    return (int(b.ixmin), int(b.ixmax), int(b.iymin), int(b.iymax))


class Ctx:
    """Everything needed to judge reads on one object at one quiescent point."""

    def __init__(self, case, obj, model, op, src, extra=None):
        self.case, self.obj, self.model = case, obj, model
        self.cur = np.array(obj.data, copy=True)
        self.D = ref.Defs(self.cur)
        self.fresh = Fresh(self.cur)
        self.base = {'op': op, 'src': src}
        self.base.update(self.D.flags())
        self.base.update(extra or {})

    def mech(self, attr, **extra):
        m = dict(self.base)
        m['attr'] = attr
        m.update(extra)
        return m


def _label_arg(rng, D, single, dtype, p_invalid=0.08):
    """(arg, kind, valid, as_list) for label-taking methods."""
    labs = D.labels
    invalid = (not labs) or rng.random() < p_invalid
    if invalid:
        pool = [0, -1, D.max_label + 1, D.max_label + 3] + D.missing[:3]
        bad = int(pool[int(rng.integers(0, len(pool)))])
        if single:
            return bad, 'scalar_int', False, [bad]
        good = [int(v) for v in rng.choice(labs, size=min(len(labs), 2), replace=False)] if labs else []
        lst = good + [bad]
        return lst, 'list', False, lst
    if single:
        lab = int(labs[int(rng.integers(0, len(labs)))])
        k = int(rng.integers(0, 3))
        if k == 0:
            return lab, 'scalar_int', True, [lab]
        if k == 1:
            return np.int64(lab), 'scalar_np', True, [lab]
        return dtype.type(lab), 'scalar_dtype', True, [lab]
    n = int(rng.integers(1, len(labs) + 1))
    if rng.random() < 0.6:
        n = min(n, 2)
    lst = [int(v) for v in rng.choice(labs, size=n, replace=False)]
    if rng.random() < 0.15:
        lst = lst + [lst[0]]                                   # duplicate entry
    k = int(rng.integers(0, 6))
    if k == 0:
        return lst, 'list', True, lst
    if k == 1:
        return tuple(lst), 'tuple', True, lst
    if k == 2:
        return np.array(lst, dtype=np.int64), 'array_i64', True, lst
    if k == 3:
        return np.array(lst, dtype=dtype), 'array_dtype', True, lst
    if k == 4:
        return lst[0], 'scalar_int', True, [lst[0]]
    return np.array(lst, dtype=np.int32 if dtype.itemsize >= 4 else np.int64), 'array_i32', True, lst


def _empty_arg(rng):
    k = int(rng.integers(0, 3))
    if k == 0:
        return [], 'empty_list'
    if k == 1:
        return np.array([], dtype=int), 'empty_int_array'
    return (), 'empty_tuple'


# ----------------------------------------------------------------------
# reading and judging one attribute
# ----------------------------------------------------------------------
def _deblend_check(ctx, attr, val):
    case, D, model = ctx.case, ctx.D, ctx.model
    present = set(D.labels)
    exp_children = {p: set(ch) for p, ch in model.deblend.items() if ch}
    exp_all = set().union(*exp_children.values()) if exp_children else set()
    if attr == 'deblended_labels':
        named = set(_ints(val))
        obs_cmp, exp_cmp = named - {0}, exp_all
    elif attr == 'deblended_labels_map':
        named = {int(k) for k in val}
        obs_cmp = {int(k) for k in val} - {0}
        exp_cmp = exp_all
        parents_of = {}
        for p, ch in exp_children.items():
            for c in ch:
                parents_of.setdefault(c, set()).add(p)
        okp = all(int(v) in parents_of.get(int(k), {int(v)}) for k, v in val.items() if int(k) != 0)
        case.check(okp, 'deblend_parent_vs_model', ctx.mech(attr), obs=repr(val)[:300], exp=repr(model.deblend)[:300])
    else:
        named = {int(c) for ch in val.values() for c in np.atleast_1d(ch)}
        obs_cmp = {int(p): {int(c) for c in np.atleast_1d(ch)} - {0} for p, ch in val.items()}
        obs_cmp = {p: s for p, s in obs_cmp.items() if s}
        exp_cmp = exp_children
    absent = named - present
    case.check(not absent, 'deblend_names_absent_label',
               ctx.mech(attr, only_zero_named=(absent == {0}),
                        after_remove_of_deblended_child=bool(model.child_removed)),
               absent=sorted(absent), labels=D.labels[:20])
    case.check(obs_cmp == exp_cmp, 'deblend_map_vs_model', ctx.mech(attr),
               obs=repr(obs_cmp)[:300], exp=repr(exp_cmp)[:300])


def _segments_check(ctx, segs, fresh_segs):
    case, D, cur = ctx.case, ctx.D, ctx.cur
    mech = ctx.mech('segments', **_poly_flags(D))
    if not case.check(len(segs) == D.nlabels, 'segments_one_per_label', mech, n=len(segs), nlabels=D.nlabels):
        return
    for i, seg in enumerate(segs):
        lab = D.labels[i]
        slc = D.slices[i]
        cut = cur[slc]
        ok = (int(seg.label) == lab and tuple(seg.slices) == slc and _bbox_t(seg.bbox) == D.bbox[i]
              and int(seg.area) == D.areas[i]
              and np.array_equal(seg.data, np.where(cut == lab, cut, 0)) and seg.data.dtype == cur.dtype
              and np.array_equal(np.ma.getmaskarray(seg.data_ma), cut != lab)
              and np.array_equal(np.ma.getdata(seg.data_ma), cut))
        if not case.check(ok, 'segment_vs_definition', mech, index=i, label=lab, seg=repr(seg)[:200]):
            break
        if not case.check(seg.polygon is not None and _polygon_ok(seg.polygon, D, i),
                          'segment_polygon_vs_label_pixels', mech, index=i, label=lab):
            break
    if fresh_segs is not Fresh.FAILED and len(fresh_segs) == len(segs):
        ok = all(int(a.label) == int(b.label) and tuple(a.slices) == tuple(b.slices) and a.bbox == b.bbox
                 and int(a.area) == int(b.area) and a.polygon.wkb == b.polygon.wkb
                 for a, b in zip(segs, fresh_segs))
        case.check(ok, 'segments_vs_fresh', mech)


def _polygons_check(ctx, polys, fresh_polys):
    case, D = ctx.case, ctx.D
    n = len(polys)
    mech = ctx.mech('polygons', **_poly_flags(D))
    if n != D.nlabels:
        mech['count_is_region_count'] = (n == _expected_regions(D))
    if case.check(n == D.nlabels, 'polygons_one_per_label', mech, n=n, nlabels=D.nlabels,
                  regions_per_label=D.ncomp[:20]):
        for i in range(n):
            if not case.check(_polygon_ok(polys[i], D, i), 'polygon_vs_label_pixels', mech, index=i,
                              label=D.labels[i], area=float(polys[i].area), exp_area=D.areas[i],
                              bounds=list(polys[i].bounds), bbox=D.bbox[i]):
                break
    if fresh_polys is not Fresh.FAILED:
        ok = len(fresh_polys) == n and all(a.wkb == b.wkb for a, b in zip(polys, fresh_polys))
        case.check(ok, 'polygons_vs_fresh', mech, n=n, n_fresh=len(fresh_polys))


def observe(ctx, attr):
    """Read one attribute on ctx.obj and judge it. Returns True if read without exception."""
    case, obj, D, cur, rng = ctx.case, ctx.obj, ctx.D, ctx.cur, ctx.case.rng
    expect_invalid = False
    arg = None
    if attr in ('get_index', 'get_area'):
        arg, kind, valid, lst = _label_arg(rng, D, True, cur.dtype, p_invalid=0.15)
        expect_invalid = not valid
    elif attr in ('get_indices', 'get_areas', 'check_labels'):
        if rng.random() < 0.1:
            arg, kind = _empty_arg(rng)
            valid, lst = True, []
        else:
            arg, kind, valid, lst = _label_arg(rng, D, False, cur.dtype, p_invalid=0.15)
        expect_invalid = not valid
    elif attr == 'getitem':
        ny, nx = cur.shape
        y0, x0 = int(rng.integers(0, ny)), int(rng.integers(0, nx))
        arg = (slice(y0, int(rng.integers(y0 + 1, ny + 1))), slice(x0, int(rng.integers(x0 + 1, nx + 1))))
    elif attr == 'make_source_mask':
        arg = [None, 3, (1, 3)][int(rng.integers(0, 3))]

    try:
        if attr in LAZY:
            val = getattr(obj, attr)
        elif attr == 'repr':
            val = repr(obj)
        elif attr == 'array':
            val = np.asarray(obj)
        elif attr == 'getitem':
            val = obj[arg]
            val = (np.array(val.data, copy=True), _ints(val.labels))
        elif attr == 'make_source_mask':
            val = obj.make_source_mask(size=arg)
        else:
            val = getattr(obj, attr)(arg)
    except Exception as exc:  # noqa: BLE001
        if core.exc_location(exc) is None:
            raise
        if expect_invalid and isinstance(exc, ValueError):
            case.check(True, 'invalid_label_rejected', ctx.mech(attr))
            return True
        m = ctx.mech(attr, exc=type(exc).__name__, at=core.exc_location(exc))
        if attr == 'segments':
            m.update(_poly_flags(D))
        case.check(False, 'attr_read_raised', m, msg=str(exc)[:200], arg=repr(arg)[:100])
        return False
    if expect_invalid:
        case.note('invalid_label_accepted_by_' + attr)
        return True

    mech = ctx.mech(attr)
    fv = ctx.fresh.get(attr) if attr in LAZY else None
    chk = case.check
    if attr == 'labels':
        chk(_ints(val) == D.labels, 'labels_vs_definition', mech, obs=_ints(val)[:30], exp=D.labels[:30])
        chk(np.asarray(val).dtype == cur.dtype, 'labels_dtype', mech, obs=str(np.asarray(val).dtype),
            exp=str(cur.dtype))
        if fv is not Fresh.FAILED:
            chk(np.array_equal(val, fv) and np.asarray(val).dtype == fv.dtype, 'labels_vs_fresh', mech)
    elif attr == 'nlabels':
        chk(int(val) == D.nlabels, 'nlabels_vs_definition', mech, obs=int(val), exp=D.nlabels)
    elif attr == 'max_label':
        chk(int(val) == D.max_label, 'max_label_vs_definition', mech, obs=int(val), exp=D.max_label)
    elif attr == 'areas':
        chk(_ints(val) == D.areas, 'areas_vs_definition', mech, obs=_ints(val)[:30], exp=D.areas[:30])
        if fv is not Fresh.FAILED:
            chk(np.array_equal(val, fv), 'areas_vs_fresh', mech)
    elif attr == 'slices':
        chk([tuple(s) for s in val] == D.slices, 'slices_vs_definition', mech, obs=repr(val)[:300],
            exp=repr(D.slices)[:300])
        if fv is not Fresh.FAILED:
            chk(list(val) == list(fv), 'slices_vs_fresh', mech)
    elif attr == 'bbox':
        chk([_bbox_t(b) for b in val] == D.bbox, 'bbox_vs_definition', mech, obs=repr(val)[:300], exp=D.bbox[:10])
        if fv is not Fresh.FAILED:
            chk(list(val) == list(fv), 'bbox_vs_fresh', mech)
    elif attr == 'missing_labels':
        chk(_ints(val) == D.missing, 'missing_labels_vs_definition', mech, obs=_ints(val)[:30], exp=D.missing[:30])
        if fv is not Fresh.FAILED:
            chk(np.array_equal(val, fv), 'missing_labels_vs_fresh', mech)
    elif attr == 'is_consecutive':
        if D.is_consecutive is None:
            case.note('is_consecutive_on_all_zero_either')
        else:
            chk(bool(val) == D.is_consecutive, 'is_consecutive_vs_definition', mech, obs=bool(val))
        if fv is not Fresh.FAILED:
            chk(bool(val) == bool(fv), 'is_consecutive_vs_fresh', mech)
    elif attr == 'background_area':
        chk(int(val) == D.background_area, 'background_area_vs_definition', mech, obs=int(val),
            exp=D.background_area)
    elif attr == 'data_ma':
        chk(np.array_equal(np.ma.getdata(val), cur) and np.array_equal(np.ma.getmaskarray(val), cur == 0)
            and np.ma.getdata(val).dtype == cur.dtype, 'data_ma_vs_definition', mech)
    elif attr == 'shape':
        chk(tuple(val) == cur.shape, 'shape_vs_definition', mech, obs=tuple(val), exp=cur.shape)
    elif attr == 'segments':
        _segments_check(ctx, val, fv)
    elif attr == 'polygons':
        _polygons_check(ctx, val, fv)
    elif attr in ('deblended_labels', 'deblended_labels_map', 'deblended_labels_inverse_map'):
        _deblend_check(ctx, attr, val)
    elif attr == 'cmap':
        if D.nlabels == 0:
            chk(val is None, 'cmap_vs_definition', mech)
        else:
            chk(val is not None and len(val.colors) == D.max_label + 1, 'cmap_vs_definition', mech,
                n=None if val is None else len(val.colors), exp=D.max_label + 1)
            if fv is not Fresh.FAILED and val is not None and fv is not None:
                chk(np.array_equal(np.asarray(val.colors), np.asarray(fv.colors)), 'cmap_vs_fresh', mech)
    elif attr == 'get_index':
        chk(int(val) == D.index(lst[0]), 'get_index_vs_definition', mech, obs=int(val), label=lst[0])
    elif attr == 'get_indices':
        exp = [D.index(v) for v in lst]
        chk(_ints(val) == exp and np.shape(val) == np.shape(arg), 'get_indices_vs_definition', mech,
            obs=_ints(val), exp=exp)
    elif attr == 'get_area':
        chk(int(val) == D.areas[D.index(lst[0])], 'get_area_vs_definition', mech, obs=int(val), label=lst[0])
    elif attr == 'get_areas':
        exp = [D.areas[D.index(v)] for v in lst]
        chk(_ints(val) == exp, 'get_areas_vs_definition', mech, obs=_ints(val), exp=exp)
    elif attr == 'check_labels':
        chk(val is None, 'check_labels_accepts_valid', mech)
    elif attr == 'repr':
        chk(f'nlabels: {D.nlabels}' in val and f'shape: {cur.shape}' in val, 'repr_vs_definition', mech,
            obs=val[-120:])
    elif attr == 'array':
        chk(np.array_equal(val, cur) and val.dtype == cur.dtype, 'array_vs_data', mech)
    elif attr == 'getitem':
        sub, sublabels = val
        chk(np.array_equal(sub, cur[arg]) and sublabels == ref.labels_of(cur[arg]), 'getitem_vs_definition', mech)
    elif attr == 'make_source_mask':
        if arg is None:
            exp = cur != 0
        else:
            from scipy.ndimage import binary_dilation
            fp = np.ones((arg, arg) if np.isscalar(arg) else arg, dtype=bool)
            exp = binary_dilation(cur != 0, structure=fp)
        chk(np.array_equal(val, exp), 'make_source_mask_vs_definition', mech, size=repr(arg))
    return True


def verify_all(case, obj, model, op, src, extra=None):
    ctx = Ctx(case, obj, model, op, src, extra)
    order = list(ALL_ATTRS)
    case.rng.shuffle(order)
    for attr in order:
        observe(ctx, attr)
    return ctx


# ----------------------------------------------------------------------
# initial objects
# ----------------------------------------------------------------------
def _initial(case):
    """-> (live SegmentationImage, input array or None, deblend dict, info)"""
    from photutils.segmentation import SegmentationImage, deblend_sources, detect_sources
    rng, cls = case.rng, case.cls
    info = {}
    if cls in ('detect', 'deblend'):
        for attempt in range(6):
            img = gen.scene(rng)
            npix = int(rng.integers(3, 8))
            segm = detect_sources(img, 4.0, npix, connectivity=int(rng.choice([4, 8])))
            if segm is None:
                continue
            if cls == 'detect':
                info.update(source='detect_sources', npixels=npix)
                return segm, None, {}, info
            relabel = bool(rng.random() < 0.5)
            if rng.random() < 0.4 and segm.nlabels > 1:       # labels with gaps as deblend input
                segm.remove_label(int(rng.choice(segm.labels)))
                segm.reassign_label(int(segm.labels[-1]), int(segm.max_label) + int(rng.integers(2, 6)))
            if rng.random() < 0.5:
                segm.areas, segm.bbox                           # cached state travels into deblend_sources
            deb = deblend_sources(img, segm, npixels=npix, nlevels=int(rng.choice([8, 32])),
                                  contrast=float(rng.choice([0.0, 0.001, 0.05])),
                                  mode=str(rng.choice(['exponential', 'linear', 'sinh'])), nproc=1,
                                  progress_bar=False, relabel=relabel)
            dmap = {int(p): [int(c) for c in ch] for p, ch in deb.deblended_labels_inverse_map.items()}
            del deb.__dict__['deblended_labels_inverse_map']     # undo the harness read
            # the map handed over by deblend_sources must describe the array: the children of a parent
            # are exactly the labels found on the parent's footprint
            okm = all(set(ref.labels_of(deb.data[segm.data == p])) == set(ch) and len(ch) >= 2
                      for p, ch in dmap.items())
            case.check(okm, 'deblend_initial_map_vs_pixels', {'op': 'init', 'relabel': relabel},
                       map=repr(dmap)[:300])
            if dmap or attempt == 5:
                info.update(source='deblend_sources', npixels=npix, relabel=relabel, parents=len(dmap))
                return deb, None, dmap, info
        case.skip('scene without detections')
    dtype = gen.pick_dtype(rng)
    shape = gen._shape(rng)
    if cls == 'blobs':
        data = gen.blobs(rng, shape, dtype)
    elif cls == 'scatter':
        data = gen.scatter(rng, shape, dtype)
    elif cls == 'disconnected':
        data = gen.disconnected(rng, shape, dtype)
    elif cls == 'no_background':
        data = gen.no_background(rng, shape, dtype)
    elif cls == 'single_pixel':
        data = gen.single_pixel(rng, shape, dtype)
    elif cls == 'all_zero':
        data = np.zeros(shape, dtype=dtype)
    elif cls == 'gaps_big':
        if dtype.itemsize == 1:
            dtype = np.dtype(np.int16 if dtype.kind == 'i' else np.uint16)
        data = gen.blobs(rng, shape, dtype, big=True)
    elif cls == 'dtype_max':
        data = gen.dtype_max(rng, shape)
    elif cls == 'border':
        data = gen.border(rng, shape, dtype)
    elif cls == 'tiny':
        data = gen.tiny(rng, dtype)
    elif rng.random() < 0.3:  # layout: the object returned by slicing a larger SegmentationImage (a view)
        big = gen.blobs(rng, (shape[0] + 4, shape[1] + 4), dtype)
        y0, x0 = int(rng.integers(0, 5)), int(rng.integers(0, 5))
        parent = SegmentationImage(big)
        if rng.random() < 0.5:
            parent.labels, parent.slices, parent.areas
        live = parent[y0:y0 + shape[0], x0:x0 + shape[1]]
        info.update(layout='getitem_view', dtype=str(big.dtype), shape=list(live.data.shape))
        return live, big, {}, info
    else:  # layout
        data, lay = gen.relayout(rng, gen.blobs(rng, shape, dtype))
        info['layout'] = lay
    info.update(dtype=str(data.dtype), shape=list(data.shape))
    return SegmentationImage(data), data, {}, info


def _new_data(rng, D, cur):
    """Array for `.data = value`: (value, kind)."""
    k = int(rng.integers(0, 10))
    dtype = cur.dtype if rng.random() < 0.5 else gen.pick_dtype(rng)
    shape = cur.shape if rng.random() < 0.6 else gen._shape(rng)
    if k == 0:
        return np.zeros(shape, dtype=dtype), 'all_zero'
    if k == 1:
        return gen.no_background(rng, shape, dtype), 'no_background'
    if k == 2:
        return gen.disconnected(rng, shape, dtype), 'disconnected'
    if k == 3:
        return gen.scatter(rng, shape, dtype), 'scatter'
    if k == 4:
        return cur.astype(float), 'invalid_float'
    if k == 5:
        sd = np.dtype(np.int16) if dtype.kind == 'u' else dtype
        v = gen.blobs(rng, shape, sd)
        v[0, 0] = -1
        return v, 'invalid_negative'
    if k == 6:
        return gen.relayout(rng, gen.blobs(rng, shape, dtype))[0], 'layout'
    if k == 7:
        return cur.copy(), 'same_values'
    return gen.blobs(rng, shape, dtype), 'blobs'


# ----------------------------------------------------------------------
# one mutation step
# ----------------------------------------------------------------------
OPS = ['reassign_label', 'reassign_labels', 'relabel_consecutive', 'keep_label', 'keep_labels', 'remove_label',
       'remove_labels', 'remove_border_labels', 'remove_masked_labels', 'set_data', 'copy']
OPW = np.array([12, 10, 12, 5, 7, 8, 8, 12, 12, 8, 6], dtype=float)


def _new_label(rng, D, dtype, exclude):
    top = int(np.iinfo(dtype).max)
    r = rng.random()
    others = [v for v in D.labels if v not in exclude]
    if r < 0.4 and others:
        return int(others[int(rng.integers(0, len(others)))]), 'merge_existing'
    if r < 0.45 and exclude:
        return int(exclude[0]), 'same_label'
    if r < 0.5:
        return 0, 'zero'
    cands = [v for v in (D.missing[:4] + [D.max_label + 1, D.max_label + int(rng.integers(2, 9))]) if 0 < v <= top]
    if r > 0.97 and dtype.itemsize <= 2:
        cands = [top]
    if not cands:
        return (int(others[0]), 'merge_existing') if others else (int(exclude[0]), 'same_label')
    return int(cands[int(rng.integers(0, len(cands)))]), 'unused'


def _gen_op(rng, model, D):
    """-> (op, call(obj), apply(model), mech-extras, description)"""
    dtype = model.data.dtype
    w = OPW.copy()
    if not D.labels:            # nothing left to operate on: mostly assign new data
        w[[0, 1, 3, 4, 5, 6]] *= 0.15
        w[[2, 7, 8, 10]] *= 0.4
        w[9] *= 8
    op = OPS[int(rng.choice(len(OPS), p=w / w.sum()))]
    relabel = bool(rng.random() < 0.5)
    ex = {}
    if op in ('reassign_label', 'reassign_labels'):
        single = op == 'reassign_label'
        if not single and rng.random() < 0.08:
            arg, kind = _empty_arg(rng)
            lst = []
        else:
            arg, kind, valid, lst = _label_arg(rng, D, single, dtype)
        new, nk = _new_label(rng, D, dtype, lst)
        kw = {'relabel': relabel} if rng.random() < 0.8 else {}
        relabel = kw.get('relabel', False)
        ex = dict(relabel=relabel, arg_kind=kind, new_label=nk, empty_label_set=(len(lst) == 0))
        if new == int(np.iinfo(dtype).max):
            ex['label_at_dtype_max'] = True
        return (op, lambda o: getattr(o, op)(arg, new, **kw),
                lambda m: m.reassign(lst, new, relabel=relabel), ex, f'{op}({lst}->{new},relabel={relabel})')
    if op == 'relabel_consecutive':
        top = int(np.iinfo(dtype).max)
        r = rng.random()
        n = max(D.nlabels, 1)
        if r < 0.3:
            args, start = (), 1
        elif r < 0.5:
            args, start = (1,), 1
        elif r < 0.9:
            start = int(rng.integers(2, 10))
            if start + n - 1 > top:
                start = 1
            args = (start,)
        elif r < 0.93 and dtype.itemsize <= 2 and top - n + 1 > 0:
            start = top - n + 1
            args = (start,)
            ex['label_at_dtype_max'] = True
        else:
            start = int(rng.choice([0, -2]))
            args = (start,)
        if args and rng.random() < 0.3:
            args = (np.int64(args[0]),)
            ex['start_label_numpy_scalar'] = True
        ex.update(start_label=('default' if not args else 'one' if start == 1 else 'invalid' if start <= 0 else 'other'))
        ex['_start'] = start
        return (op, lambda o: o.relabel_consecutive(*args),
                lambda m: m.relabel_consecutive(start), ex, f'relabel_consecutive({start})')
    if op in ('keep_label', 'keep_labels', 'remove_label', 'remove_labels'):
        single = not op.endswith('s')
        if not single and rng.random() < 0.1:
            arg, kind = _empty_arg(rng)
            lst = []
        else:
            arg, kind, valid, lst = _label_arg(rng, D, single, dtype)
        kw = {'relabel': relabel} if rng.random() < 0.8 else {}
        relabel = kw.get('relabel', False)
        keep = op.startswith('keep')
        nothing = (set(lst) >= set(D.labels)) if keep else (len(lst) == 0)
        ex = dict(relabel=relabel, arg_kind=kind, empty_label_set=bool(nothing))
        return (op, lambda o: getattr(o, op)(arg, **kw),
                (lambda m: m.keep(lst, relabel=relabel)) if keep else (lambda m: m.remove(lst, relabel=relabel)),
                ex, f'{op}({lst},relabel={relabel})')
    if op == 'remove_border_labels':
        r = rng.random()
        half = min(model.data.shape) / 2
        if r < 0.15:
            width = 0
        elif r < 0.9:
            width = int(rng.integers(1, 4))
        else:
            width = int(np.ceil(half)) + int(rng.integers(0, 2))
        po = bool(rng.random() < 0.6)
        warg = np.int64(width) if rng.random() < 0.2 else width
        kw = {}
        if rng.random() < 0.85:
            kw['partial_overlap'] = po
        else:
            po = True
        if rng.random() < 0.8:
            kw['relabel'] = relabel
        else:
            relabel = False
        ex = dict(relabel=relabel, partial_overlap=po, border_width_zero=(width == 0))
        if width < half:
            rm = model.masked_label_set(model.border_mask(model.data.shape, width), po)
            ex['empty_label_set'] = len(rm) == 0
        return (op, lambda o: o.remove_border_labels(warg, **kw),
                lambda m: m.remove_border(width, po, relabel), ex,
                f'remove_border_labels({width},partial_overlap={po},relabel={relabel})')
    if op == 'remove_masked_labels':
        shape = model.data.shape
        r = rng.random()
        mk = 'random'
        if r < 0.4:
            mask = rng.random(shape) < float(rng.choice([0.05, 0.2, 0.5]))
        elif r < 0.5:
            mask, mk = np.zeros(shape, dtype=bool), 'all_false'
        elif r < 0.54:
            mask, mk = np.ones(shape, dtype=bool), 'all_true'
        elif r < 0.7:
            mask, mk = np.zeros(shape, dtype=bool), 'row_or_col'
            if rng.random() < 0.5:
                mask[int(rng.integers(0, shape[0]))] = True
            else:
                mask[:, int(rng.integers(0, shape[1]))] = True
        elif r < 0.93 and D.labels:
            lab = D.labels[int(rng.integers(0, D.nlabels))]
            mask, mk = model.data == lab, 'label_footprint'
            if rng.random() < 0.5:                     # all but one pixel of the label
                ys, xs = np.nonzero(mask)
                j = int(rng.integers(0, ys.size))
                mask = mask.copy()
                mask[ys[j], xs[j]] = False
                mk = 'label_footprint_minus_one'
        elif r < 0.93:
            mask, mk = np.zeros(shape, dtype=bool), 'all_false'
        else:
            mask, mk = np.zeros((shape[0] + 1, shape[1]), dtype=bool), 'wrong_shape'
        po = bool(rng.random() < 0.55)
        kw = {}
        if rng.random() < 0.85:
            kw['partial_overlap'] = po
        else:
            po = True
        if rng.random() < 0.8:
            kw['relabel'] = relabel
        else:
            relabel = False
        ex = dict(relabel=relabel, partial_overlap=po, mask_kind=mk)
        if mask.shape == shape:
            ex['empty_label_set'] = len(model.masked_label_set(mask, po)) == 0
        mask_in = mask.copy()
        return (op, lambda o: o.remove_masked_labels(mask_in, **kw),
                lambda m: m.remove_masked(mask, po, relabel), ex,
                f'remove_masked_labels({mk},partial_overlap={po},relabel={relabel})')
    if op == 'set_data':
        if rng.random() < 0.15 and D.labels:
            return ('set_data', None, None, dict(data_kind='inplace_edit_then_assign'), 'set_data(inplace_edit)')
        value, kind = _new_data(rng, D, model.data)
        return ('set_data', lambda o: setattr(o, 'data', value), lambda m: m.set_data(value),
                dict(data_kind=kind, _value=value), f'set_data({kind},{value.dtype},{value.shape})')
    return ('copy', None, None, {}, 'copy()')


def _resync(model, live, before, saved):
    """Continue from the actual state after a recorded array violation: the
    documented effect did not happen, so the model adopts what is there."""
    obs = live.data
    model.data = np.array(obs, copy=True)
    if obs.shape == before.shape and np.array_equal(obs, before):
        model.deblend, model.child_removed = saved          # the call changed nothing
        return
    present = set(ref.labels_of(obs))
    try:
        inv = _copy.deepcopy(live).deblended_labels_inverse_map
    except Exception:  # noqa: BLE001
        inv = {}
    newdeb = {}
    for p, ch in inv.items():
        ch = [int(c) for c in np.atleast_1d(ch)]
        kept = [c for c in ch if c in present]
        if len(kept) != len(ch):
            model.child_removed = True
        newdeb[int(p)] = kept
    model.deblend = newdeb


def _install_recorder(case):
    """The framework keeps at most 20 violation records per case. Known defects
    (polygons of disconnected labels, ...) re-fire after every step, so records are
    rationed per mechanism: at most 2 per (what, structural flags) and, once 12 are
    stored, only mechanisms not seen before in this case - a new kind of violation
    is never crowded out by repeats of an old one. Every evaluation is still counted."""
    seen = {}
    orig = case.check

    def check(ok, what, mech=None, **detail):
        if ok:
            return orig(True, what, mech)
        key = (what, tuple(sorted((k, repr(v)) for k, v in (mech or {}).items() if k not in ('src', 'op'))))
        n = seen.get(key, 0)
        seen[key] = n + 1
        if n >= 2 or (n >= 1 and len(case.violations) >= 12):
            case.nchecks += 1
            case.note('repeat_violation_records_not_stored')
            return False
        if len(case.violations) >= 20:
            case.note('violation_records_dropped_by_cap')
        return orig(False, what, mech, **detail)

    case.check = check


def run_case(case):
    rng = case.rng
    _install_recorder(case)
    with warnings.catch_warnings():
        warnings.simplefilter('ignore')
        live, input_arr, dmap, info = _initial(case)
    init_data = np.array(live.data, copy=True)
    model = ref.LabelModel(init_data, dmap)
    inputs = []                                    # (array object, snapshot) handed to the library
    if input_arr is not None:
        inputs.append((input_arr, input_arr.copy()))
    nsteps = int(rng.integers(1, 9))
    ops_done = []
    shadow = None                                  # (object left behind by copy(), its data snapshot, labels)
    last_op = 'init'
    effective_after_read = False
    tracked = [None]        # the `labels` array cached by relabel_consecutive(<numpy scalar>) while it stays cached

    def sticky():
        if tracked[0] is not None and live.__dict__.get('labels') is tracked[0]:
            return {'labels_cached_by_relabel_consecutive_numpy_start': True}
        return {}
    case.params = dict(info, cls=case.cls, nsteps=nsteps)

    # the initial object must already be right (pre-seeded caches of detect/deblend outputs)
    if rng.random() < 0.5:
        verify_all(case, _copy.deepcopy(live), model, 'init', 'clone')

    for step in range(nsteps):
        # ---- reads on the live object ---------------------------------
        r = rng.random()
        nread = 0 if r < 0.1 else int(rng.integers(1, 4)) if r < 0.6 else int(rng.integers(4, 9)) if r < 0.85 \
            else len(ALL_ATTRS)
        reads = [str(a) for a in rng.choice(ALL_ATTRS, size=min(nread, len(ALL_ATTRS)), replace=False)]
        if reads:
            ctx = Ctx(case, live, model, last_op, 'live', sticky())
            for a in reads:
                observe(ctx, a)
        cached = sorted(k for k in live.__dict__ if k in LAZY or k == '_raw_slices')

        # ---- mutation ----------------------------------------------------
        D = ref.Defs(model.data)
        case.note('steps')
        if not D.labels:
            case.note('steps_starting_from_all_zero_array')
        op, call, apply, ex, desc = _gen_op(rng, model, D)
        ops_done.append(desc)
        mech = {'op': op}
        mech.update({k: v for k, v in ex.items() if not k.startswith('_')})
        mech.update(D.flags())
        mech.update(sticky())
        last_op = op

        if op == 'copy':
            new = live.copy()
            okc = (np.array_equal(new.data, live.data) and new.data.dtype == live.data.dtype
                   and not np.shares_memory(new.data, live.data) and new is not live)
            case.check(okc, 'copy_equal_and_independent', mech)
            snap = (np.array(live.data, copy=True), ref.labels_of(live.data))
            st = sticky()
            if rng.random() < 0.5:
                shadow = (live, ) + snap
                live = new
                if st:
                    tracked[0] = live.__dict__.get('labels')
            else:
                shadow = (new, ) + snap
                verify_all(case, new, model, 'copy', 'copy', st)
            case.note('op_copy')
        else:
            if ex.get('data_kind') == 'inplace_edit_then_assign':
                arr = live.data                           # the user edits the array in place and re-assigns it
                lab = D.labels[int(rng.integers(0, D.nlabels))]
                if rng.random() < 0.5:
                    arr[arr == lab] = 0
                else:
                    y, x = int(rng.integers(0, arr.shape[0])), int(rng.integers(0, arr.shape[1]))
                    arr[y, x] = min(D.max_label + 1, int(np.iinfo(arr.dtype).max))
                inputs = [(a, s) for a, s in inputs if not np.shares_memory(a, arr)]   # the harness edits it now
                value = arr
                call = lambda o: setattr(o, 'data', value)     # noqa: E731
                apply = lambda m: m.set_data(value)            # noqa: E731
            elif op == 'set_data':
                value = ex['_value']
            before = np.array(live.data, copy=True)
            pred_exc = None
            saved = (_copy.deepcopy(model.deblend), model.child_removed)
            try:
                note = apply(model)
            except ref.Invalid as inv:
                pred_exc = inv
                note = None
            raised = None
            with warnings.catch_warnings():
                warnings.simplefilter('ignore')
                try:
                    call(live)
                except Exception as exc:  # noqa: BLE001
                    if core.exc_location(exc) is None:
                        raise
                    raised = exc
            case.note('op_' + op)
            if ex.get('start_label_numpy_scalar') and raised is None and pred_exc is None:
                tracked[0] = live.__dict__.get('labels')
            if pred_exc is not None:
                mech['rejected'] = True
                if raised is None:
                    case.note('invalid_argument_accepted_' + op)     # outside the quantifier: no verdict
                    model.data = np.array(live.data, copy=True)
                else:
                    case.check(isinstance(raised, pred_exc.exc), 'rejection_type', mech,
                               exc=type(raised).__name__, exp=pred_exc.exc.__name__, why=pred_exc.why)
                    case.note('invalid_argument_rejected')
            elif raised is not None:
                if note == 'noop_all_zero' and isinstance(raised, ValueError):
                    case.note('relabel_all_zero_invalid_start_either')
                else:
                    m = dict(mech, exc=type(raised).__name__, at=core.exc_location(raised))
                    case.check(False, 'raised', m, msg=str(raised)[:200], op=desc, cached=cached)
                    # the documented effect did not happen; continue from the actual state
                    model.data = np.array(live.data, copy=True)
                    model.deblend, model.child_removed = saved
            if op == 'set_data' and pred_exc is None and raised is None:
                inputs.append((value, value.copy()))

            # ---- array vs model -------------------------------------------
            obs = live.data
            ok_dtype = case.check(obs.dtype == model.data.dtype, 'dtype_preserved', mech,
                                  obs=str(obs.dtype), exp=str(model.data.dtype), op=desc)
            same_arr = obs.shape == model.data.shape and np.array_equal(obs, model.data)
            m2 = dict(mech)
            if not same_arr and ex.get('border_width_zero'):
                m2['all_labels_removed'] = bool(not obs.any() and before.any())
            if not same_arr and ex.get('relabel') and ex.get('empty_label_set'):
                m2['array_unchanged_by_call'] = bool(obs.shape == before.shape and np.array_equal(obs, before))
            case.check(same_arr, 'array_vs_model', m2, op=desc, cached=cached,
                       obs=obs if obs.size <= 64 else ref.labels_of(obs)[:30],
                       exp=model.data if model.data.size <= 64 else model.labels()[:30])
            if pred_exc is None and raised is None:
                labs_now = ref.labels_of(obs)
                if op == 'relabel_consecutive' and note != 'noop_all_zero':
                    s0 = ex['_start']
                    case.check(labs_now == list(range(s0, s0 + len(labs_now))), 'relabel_consecutive_leaves_run',
                               mech, labels=labs_now[:30])
                elif ex.get('relabel'):
                    case.check(labs_now == list(range(1, len(labs_now) + 1)), 'relabel_true_leaves_1_to_N',
                               m2, labels=labs_now[:30], op=desc)
                if ex.get('border_width_zero'):
                    m3 = dict(mech, all_labels_removed=bool(not obs.any() and before.any()))
                    case.check(obs.shape == before.shape and np.array_equal(obs != 0, before != 0)
                               and len(labs_now) == len(ref.labels_of(before))
                               and (ex.get('relabel') or labs_now == ref.labels_of(before)),
                               'border_width_zero_removes_nothing', m3,
                               before=ref.labels_of(before)[:30], after=labs_now[:30])
                if cached and (op == 'set_data' or not np.array_equal(before, model.data)):
                    effective_after_read = True
            if not (same_arr and ok_dtype):
                # resynchronise so that the rest of the history is still judged
                _resync(model, live, before, saved)

        # ---- caller-owned arrays are never written ------------------------
        for a, s in inputs:
            case.check(np.array_equal(a, s), 'input_array_unchanged', {'op': op})
        if shadow is not None and op != 'copy':
            sobj, sdata, slabels = shadow
            case.check(np.array_equal(sobj.data, sdata) and _ints(sobj.labels) == slabels,
                       'copy_unaffected_by_later_mutation', {'op': op})

        # ---- every attribute, on a clone with identical cache content -----
        verify_all(case, _copy.deepcopy(live), model, op, 'clone', sticky())

    verify_all(case, live, model, last_op, 'live', sticky())
    if shadow is not None:
        sobj, sdata, slabels = shadow
        case.check(np.array_equal(sobj.data, sdata), 'copy_unaffected_by_later_mutation', {'op': last_op})
    case.params['ops'] = ops_done
    case.nontrivial = effective_after_read
    case.digest = core.arr_digest(init_data) + core.digest(ops_done)
