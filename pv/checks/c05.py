"""C05 SegmentationImage attributes always describe the current label array.

M3 history monitor with a semantic model (pv.ref.c05_model) and a fresh-object
oracle.  One case = one history on one live SegmentationImage:

    repeat 1..8 times:
        read a random subset of derived attributes on the live object
            (each value is compared with a fresh object and with numpy definitions;
             what stays cached is the point)
        apply one public mutator with generated arguments to the live object and
            to the numpy model (the model also predicts rejected arguments)
        compare array/dtype with the model, then verify *every* public derived
            attribute on a deep copy of the live object (same cache content, so the
            live object's cache is not disturbed) in random order
    finally verify every attribute on the live object itself.
"""
from __future__ import annotations

import copy as _copy
import warnings

import numpy as np

from pv import core
from pv.gen import c05_arrays as gen
from pv.ref import c05_model as ref

ID = 'C05'
RULE = ('one case = a history of 1..8 public mutators (reassign_label(s), relabel_consecutive, keep_label(s), '
        'remove_label(s), remove_border_labels, remove_masked_labels, data assignment, copy) on one live '
        'SegmentationImage built from a generated label array (13 classes: all integer dtypes, gaps, disconnected, '
        'no background, all zero, dtype-max labels, memory layouts, detect_sources / deblend_sources outputs); before '
        'each mutator a random subset of derived attributes is read on the live object; after each step array+dtype are '
        'compared with a numpy model and every public attribute with a fresh SegmentationImage and numpy definitions; '
        'non-trivial = at least one mutator changed the array (or assigned data) while >=1 derived attribute was cached '
        'on the live object; distinct by digest of the initial array and the applied operation list. Independently of '
        'the class: shapes (plain / 1xN / Nx1 / strongly elongated), layouts of constructor and data-setter arrays '
        '(C / Fortran / strided / transposed / offset views, big-endian, read-only), call forms of every argument '
        '(Python int, numpy scalars of all integer dtypes, 0-d arrays, list, tuple, arrays incl. strided, list of numpy '
        'scalars, range, set [counted, not judged], positional / keyword / mixed), mask dtype (bool, uint8, int64, '
        'float64, nested list) and layout, all option combinations, degenerate states (all zero, one label '
        'everywhere, labels only on the border ring, every label named / removed) at any step; notes axis_* count them. '
        'Second list (notes axis2_*): label lists ascending / descending / with duplicates / padded to nlabels, labels next '
        'to the dtype limits, one segment touching exactly one border or corner, histories starting from copy() / slices '
        'of an object whose caches were read, deblend_sources fed with relabelled / copied / sliced inputs')
CLASSES = ['blobs', 'scatter', 'disconnected', 'no_background', 'single_pixel', 'all_zero', 'gaps_big',
           'dtype_max', 'border', 'tiny', 'layout', 'detect', 'deblend']
_Q = 'photutils.segmentation.core:SegmentationImage.'
MUST_REACH = [_Q + n for n in (
    'reassign_labels', 'reassign_label', 'relabel_consecutive', 'keep_labels', 'keep_label', 'remove_labels',
    'remove_label', 'remove_border_labels', 'remove_masked_labels', 'copy', '_reset_lazyproperties',
    '_update_deblend_label_map', 'labels', 'areas', 'slices', 'bbox', 'segments', 'polygons', '_geo_polygons',
    'missing_labels', 'is_consecutive', 'background_area', 'data_ma', 'deblended_labels', 'deblended_labels_map',
    'deblended_labels_inverse_map', 'get_index', 'get_indices', 'get_area', 'get_areas', 'check_labels',
    'max_label', 'nlabels', 'cmap', 'make_source_mask', '__getitem__')] + [
    'photutils.segmentation.detect:detect_sources', 'photutils.segmentation.deblend:deblend_sources']
ANCHOR_FILES = ['segmentation/core.py', 'segmentation/deblend.py', 'segmentation/detect.py']
MIN_NONTRIVIAL = {'quick': 800, 'thorough': 5000}
ASSUMPTIONS = ['numpy comparison/indexing/unique and copy.deepcopy are trusted',
               'shapely area/bounds/contains_xy are trusted for judging polygons (rasterio is code under test '
               'only through photutils)',
               'attributes are verified after each step on a deepcopy of the live object (identical cache '
               'content) so that the live cache holds only the randomly chosen reads; the live object itself is '
               'verified in full at the end of each history',
               'deblended-label maps have no fresh-object counterpart: they are compared with the model '
               '(children pushed through each operation\'s label map, removed children dropped)']


def plan(tier):
    if tier == 'thorough':
        return dict(shards=16, cases=9000, timeout=2400, budget_s=600)
    return dict(shards=6, cases=480, timeout=600, budget_s=70)


def selftest():
    ref.selftest()
    import shapely
    from shapely.geometry import Polygon, box
    # polygon judge on hand cases: unit pixel squares in centre coordinates
    d = ref.Defs(np.array([[0, 3, 3], [0, 3, 0]]))
    good = Polygon([(0.5, -0.5), (2.5, -0.5), (2.5, 0.5), (1.5, 0.5), (1.5, 1.5), (0.5, 1.5)])
    assert _polygon_ok(good, d, 0)
    assert not _polygon_ok(box(0.5, -0.5, 2.5, 1.5), d, 0)        # area 4 != 3
    assert not _polygon_ok(shapely.affinity.translate(good, 1, 0), d, 0)
    assert _expected_regions(ref.Defs(np.array([[1, 0, 1]]))) == 2
    assert _expected_regions(ref.Defs(np.array([[1, 2]]))) == 2


# ----------------------------------------------------------------------
# helpers
# ----------------------------------------------------------------------
LAZY = ('labels', 'nlabels', 'max_label', 'areas', 'slices', 'bbox', 'segments', 'polygons', 'missing_labels',
        'is_consecutive', 'background_area', 'data_ma', 'shape', 'deblended_labels', 'deblended_labels_map',
        'deblended_labels_inverse_map', 'cmap')
METHODS = ('get_index', 'get_indices', 'get_area', 'get_areas', 'check_labels', 'repr', 'array',
           'make_source_mask', 'getitem')
ALL_ATTRS = LAZY + METHODS


def _polygon_ok(poly, D, i):
    import shapely
    x0, x1, y0, y1 = D.bbox[i]
    ys, xs = D.pix[i]
    try:
        return (float(poly.area) == float(D.areas[i])
                and tuple(float(v) for v in poly.bounds) == (x0 - 0.5, y0 - 0.5, x1 - 0.5, y1 - 0.5)
                and bool(np.all(shapely.contains_xy(poly, xs.astype(float), ys.astype(float)))))
    except Exception:  # noqa: BLE001  (empty/odd geometry object)
        return False


def _expected_regions(D):
    """Entries the known mechanism yields: one per 8-connected region (the
    additional drop of one region on arrays without background was fixed in
    photutils commit a8c8e59)."""
    return sum(D.ncomp)


def _poly_flags(D):
    f = {}
    if _expected_regions(D) != D.nlabels or D.no_background:
        f['polygon_count_mismatch_expected'] = _expected_regions(D) != D.nlabels
    return f


class Fresh:
    """Freshly constructed SegmentationImage on a copy of the current array."""
    FAILED = object()

    def __init__(self, cur):
        from photutils.segmentation import SegmentationImage
        self.obj = SegmentationImage(cur.copy())

    def get(self, name):
        try:
            return getattr(self.obj, name)
        except Exception:  # noqa: BLE001  fresh object cannot answer (e.g. segments on a disconnected label)
            return Fresh.FAILED


def _ints(x):
    return [int(v) for v in np.asarray(x).ravel()]


def _bbox_t(b):
    return (int(b.ixmin), int(b.ixmax), int(b.iymin), int(b.iymax))


class Ctx:
    """Everything needed to judge reads on one object at one quiescent point."""

    def __init__(self, case, obj, model, op, src, extra=None):
        self.case, self.obj, self.model = case, obj, model
        self.cur = np.array(obj.data, copy=True)
        self.D = ref.Defs(self.cur)
        self.fresh = Fresh(self.cur)
        self.base = {'op': op, 'src': src}
        self.base.update(self.D.flags())
        self.base.update(extra or {})

    def mech(self, attr, **extra):
        m = dict(self.base)
        m['attr'] = attr
        m.update(extra)
        return m


NP_INT = [np.int8, np.uint8, np.int16, np.uint16, np.int32, np.uint32, np.int64, np.uint64, np.intp]


def _fit_dtype(rng, values):
    """A random numpy integer dtype able to hold all `values`."""
    lo, hi = min(list(values) + [0]), max(list(values) + [0])
    cands = [d for d in NP_INT if np.iinfo(d).min <= lo and hi <= np.iinfo(d).max]
    return np.dtype(cands[int(rng.integers(0, len(cands)))])


def _scalar_form(case, v, axis, p_plain=0.45):
    """Integer `v` as Python int / numpy scalar of a random dtype / 0-d array. -> (value, kind, dtype name)"""
    rng = case.rng
    r = rng.random()
    if r < p_plain:
        kind, out, dn = 'python_int', int(v), None
    else:
        dt = _fit_dtype(rng, [int(v)])
        dn = dt.name
        if r < p_plain + (1 - p_plain) * 0.65:
            kind, out = 'numpy_scalar', dt.type(v)
        else:
            kind, out = 'zero_d_array', np.array(v, dtype=dt)
    case.note(f'axis_callform_{axis}_{kind}')
    return out, kind, dn


def _label_arg(case, D, single, dtype, p_invalid=0.08, axis='labels'):
    """Label argument for label-taking methods in a randomly drawn call form.
    -> dict(arg, kind, dtype, valid, lst, either): `either` marks forms the documentation does not name
    (set): a rejection is counted, an accepted call is judged."""
    rng = case.rng
    labs = D.labels
    out = dict(dtype=None, either=False)
    invalid = (not labs) or rng.random() < p_invalid
    if invalid:
        pool = [0, -1, D.max_label + 1, D.max_label + 3] + D.missing[:3]
        bad = int(pool[int(rng.integers(0, len(pool)))])
        if single:
            out.update(arg=bad, kind='python_int', valid=False, lst=[bad])
            return out
        good = [int(v) for v in rng.choice(labs, size=min(len(labs), 2), replace=False)] if labs else []
        lst = good + [bad]
        if rng.random() < 0.5:
            out.update(arg=lst, kind='list', valid=False, lst=lst)
        else:
            out.update(arg=np.array(lst, dtype=np.int64), kind='array', dtype='int64', valid=False, lst=lst)
        return out
    if single:
        lab = int(labs[int(rng.integers(0, len(labs)))])
        if rng.random() < 0.15:
            arg, kind, dn = dtype.type(lab), 'numpy_scalar', dtype.name
            case.note(f'axis_callform_{axis}_numpy_scalar')
        else:
            arg, kind, dn = _scalar_form(case, lab, axis)
        out.update(arg=arg, kind=kind, dtype=dn, valid=True, lst=[lab])
        return out
    r = rng.random()
    if r < 0.12:                                               # every label (degenerate: remove all / keep all)
        lst = list(labs)
        rng.shuffle(lst)
        case.note('axis_degenerate_all_labels_named')
    else:
        n = int(rng.integers(1, len(labs) + 1))
        if rng.random() < 0.6:
            n = min(n, 2)
        lst = [int(v) for v in rng.choice(labs, size=n, replace=False)]
    # set-like argument: order and multiplicity must not matter
    o = rng.random()
    order = 'random'
    if o < 0.2:
        lst, order = sorted(lst), 'ascending'
    elif o < 0.45:
        lst, order = sorted(lst, reverse=True), 'descending'
    d = rng.random()
    dup = 'none'
    if d < 0.12:
        lst, dup = lst + [lst[0]], 'one'
    elif d < 0.2:
        lst, dup = lst + lst[::-1], 'all_twice'
    elif d < 0.25 and len(labs) >= 2:
        # as many entries as there are labels, but fewer distinct ones
        pick = lst[:max(1, min(len(lst), len(labs) - 1))]
        lst, dup = [pick[i % len(pick)] for i in range(len(labs))], 'padded_to_nlabels'
    if len(lst) > 1:
        case.note(f'axis2_setlike_order_{order}')
        case.note(f'axis2_setlike_duplicates_{dup}')
    k = int(rng.integers(0, 10))
    dn = None
    if k == 0:
        arg, kind = list(lst), 'list'
    elif k == 1:
        arg, kind = tuple(lst), 'tuple'
    elif k in (2, 3):
        dt = _fit_dtype(rng, lst)
        arg, kind, dn = np.array(lst, dtype=dt), 'array', dt.name
    elif k == 4:
        arg, kind, dn = np.array(lst, dtype=dtype), 'array', dtype.name
    elif k == 5:
        dt = _fit_dtype(rng, lst)
        arg, kind, dn = [dt.type(v) for v in lst], 'list_of_numpy_scalars', dt.name
    elif k == 6:
        lst = [lst[0]]
        arg, kind, dn = _scalar_form(case, lst[0], axis, p_plain=0.3)
    elif k == 7 and len(lst) >= 2 and lst == list(range(lst[0], lst[0] + len(lst))):
        arg, kind = range(lst[0], lst[0] + len(lst)), 'range'
    elif k == 8:
        arg, kind = set(lst), 'set'
        out['either'] = True
    else:
        dt = _fit_dtype(rng, lst)
        arg, kind, dn = np.asfortranarray(np.array([lst, lst], dtype=dt))[0], 'array_strided', dt.name
    if k != 6:
        case.note(f'axis_callform_{axis}_{kind}')
    out.update(arg=arg, kind=kind, dtype=dn, valid=True, lst=lst)
    return out


def _empty_arg(rng):
    k = int(rng.integers(0, 4))
    if k == 0:
        return [], 'empty_list'
    if k == 1:
        return np.array([], dtype=int), 'empty_int_array'
    if k == 2:
        return np.array([], dtype=np.uint8), 'empty_uint8_array'
    return (), 'empty_tuple'


def _styled_call(case, name, params):
    """params: [(parameter name, value, given?)] in signature order. Returns call(obj) passing the given
    parameters positionally, by keyword, or mixed (all are positional-or-keyword in the documented signatures)."""
    rng = case.rng
    style = ['positional', 'keyword', 'mixed'][int(rng.integers(0, 3))]
    nlead = 0
    while nlead < len(params) and params[nlead][2]:
        nlead += 1
    if style == 'keyword':
        npos = 0
    elif style == 'positional':
        npos = nlead
    else:
        npos = int(rng.integers(1, nlead + 1)) if nlead else 0
    pos = [params[j][1] for j in range(npos)]
    kw = {n: v for n, v, g in params[npos:] if g}
    case.note('axis_argstyle_' + style)
    return lambda o: getattr(o, name)(*pos, **kw)


def _mask_form(case, mask):
    """The boolean `mask` in a randomly drawn dtype / container / layout. -> (arg, dtype kind, layout kind)"""
    rng = case.rng
    r = rng.random()
    if r < 0.62:
        arg, dk = mask.copy(), 'bool'
    elif r < 0.72:
        arg, dk = mask.astype(np.uint8), 'uint8'
    elif r < 0.80:
        arg, dk = mask.astype(np.int64), 'int64'
    elif r < 0.87:
        arg, dk = mask.astype(float), 'float64'
    else:
        arg, dk = mask.tolist(), 'nested_list'
    lk = 'plain'
    if dk != 'nested_list' and rng.random() < 0.4:
        arg, lk = gen.relayout(rng, arg, kinds=['fortran', 'strided_view', 'transposed_view', 'offset_view',
                                               'readonly'])
    case.note('axis_mask_dtype_' + dk)
    case.note('axis_mask_layout_' + lk)
    return arg, dk, lk


# ----------------------------------------------------------------------
# reading and judging one attribute
# ----------------------------------------------------------------------
def _deblend_check(ctx, attr, val):
    case, D, model = ctx.case, ctx.D, ctx.model
    present = set(D.labels)
    exp_children = {p: set(ch) for p, ch in model.deblend.items() if ch}
    exp_all = set().union(*exp_children.values()) if exp_children else set()
    if attr == 'deblended_labels':
        named = set(_ints(val))
        obs_cmp, exp_cmp = named - {0}, exp_all
    elif attr == 'deblended_labels_map':
        named = {int(k) for k in val}
        obs_cmp = {int(k) for k in val} - {0}
        exp_cmp = exp_all
        parents_of = {}
        for p, ch in exp_children.items():
            for c in ch:
                parents_of.setdefault(c, set()).add(p)
        okp = all(int(v) in parents_of.get(int(k), {int(v)}) for k, v in val.items() if int(k) != 0)
        case.check(okp, 'deblend_parent_vs_model', ctx.mech(attr), obs=repr(val)[:300], exp=repr(model.deblend)[:300])
    else:
        named = {int(c) for ch in val.values() for c in np.atleast_1d(ch)}
        obs_cmp = {int(p): {int(c) for c in np.atleast_1d(ch)} - {0} for p, ch in val.items()}
        obs_cmp = {p: s for p, s in obs_cmp.items() if s}
        exp_cmp = exp_children
    absent = named - present
    case.check(not absent, 'deblend_names_absent_label',
               ctx.mech(attr, only_zero_named=(absent == {0}),
                        after_remove_of_deblended_child=bool(model.child_removed)),
               absent=sorted(absent), labels=D.labels[:20])
    case.check(obs_cmp == exp_cmp, 'deblend_map_vs_model', ctx.mech(attr),
               obs=repr(obs_cmp)[:300], exp=repr(exp_cmp)[:300])


def _segments_check(ctx, segs, fresh_segs):
    case, D, cur = ctx.case, ctx.D, ctx.cur
    mech = ctx.mech('segments', **_poly_flags(D))
    if not case.check(len(segs) == D.nlabels, 'segments_one_per_label', mech, n=len(segs), nlabels=D.nlabels):
        return
    for i, seg in enumerate(segs):
        lab = D.labels[i]
        slc = D.slices[i]
        cut = cur[slc]
        ok = (int(seg.label) == lab and tuple(seg.slices) == slc and _bbox_t(seg.bbox) == D.bbox[i]
              and int(seg.area) == D.areas[i]
              and np.array_equal(seg.data, np.where(cut == lab, cut, 0)) and seg.data.dtype == cur.dtype
              and np.array_equal(np.ma.getmaskarray(seg.data_ma), cut != lab)
              and np.array_equal(np.ma.getdata(seg.data_ma), cut))
        if not case.check(ok, 'segment_vs_definition', mech, index=i, label=lab, seg=repr(seg)[:200]):
            break
        if not case.check(seg.polygon is not None and _polygon_ok(seg.polygon, D, i),
                          'segment_polygon_vs_label_pixels', mech, index=i, label=lab):
            break
    if fresh_segs is not Fresh.FAILED and len(fresh_segs) == len(segs):
        ok = all(int(a.label) == int(b.label) and tuple(a.slices) == tuple(b.slices) and a.bbox == b.bbox
                 and int(a.area) == int(b.area) and a.polygon.wkb == b.polygon.wkb
                 for a, b in zip(segs, fresh_segs))
        case.check(ok, 'segments_vs_fresh', mech)


def _polygons_check(ctx, polys, fresh_polys):
    case, D = ctx.case, ctx.D
    n = len(polys)
    mech = ctx.mech('polygons', **_poly_flags(D))
    if n != D.nlabels:
        mech['count_is_region_count'] = (n == _expected_regions(D))
    if case.check(n == D.nlabels, 'polygons_one_per_label', mech, n=n, nlabels=D.nlabels,
                  regions_per_label=D.ncomp[:20]):
        for i in range(n):
            if not case.check(_polygon_ok(polys[i], D, i), 'polygon_vs_label_pixels', mech, index=i,
                              label=D.labels[i], area=float(polys[i].area), exp_area=D.areas[i],
                              bounds=list(polys[i].bounds), bbox=D.bbox[i]):
                break
    if fresh_polys is not Fresh.FAILED:
        ok = len(fresh_polys) == n and all(a.wkb == b.wkb for a, b in zip(polys, fresh_polys))
        case.check(ok, 'polygons_vs_fresh', mech, n=n, n_fresh=len(fresh_polys))


def observe(ctx, attr):
    """Read one attribute on ctx.obj and judge it. Returns True if read without exception."""
    case, obj, D, cur, rng = ctx.case, ctx.obj, ctx.D, ctx.cur, ctx.case.rng
    expect_invalid = False
    arg = None
    either = False
    if attr in ('get_index', 'get_area'):
        la = _label_arg(case, D, True, cur.dtype, p_invalid=0.15, axis='read_label')
        arg, lst, expect_invalid = la['arg'], la['lst'], not la['valid']
    elif attr in ('get_indices', 'get_areas', 'check_labels'):
        if rng.random() < 0.1:
            arg, kind = _empty_arg(rng)
            lst = []
        else:
            la = _label_arg(case, D, False, cur.dtype, p_invalid=0.15, axis='read_labels')
            arg, lst, expect_invalid, either = la['arg'], la['lst'], not la['valid'], la['either']
    elif attr == 'getitem':
        ny, nx = cur.shape
        y0, x0 = int(rng.integers(0, ny)), int(rng.integers(0, nx))
        arg = (slice(y0, int(rng.integers(y0 + 1, ny + 1))), slice(x0, int(rng.integers(x0 + 1, nx + 1))))
    elif attr == 'make_source_mask':
        arg = [None, 3, (1, 3)][int(rng.integers(0, 3))]

    try:
        if attr in LAZY:
            val = getattr(obj, attr)
        elif attr == 'repr':
            val = repr(obj)
        elif attr == 'array':
            val = np.asarray(obj)
        elif attr == 'getitem':
            val = obj[arg]
            val = (np.array(val.data, copy=True), _ints(val.labels))
        elif attr == 'make_source_mask':
            val = obj.make_source_mask(size=arg)
        else:
            val = getattr(obj, attr)(arg)
    except Exception as exc:  # noqa: BLE001
        if core.exc_location(exc) is None:
            raise
        if expect_invalid and isinstance(exc, ValueError):
            case.check(True, 'invalid_label_rejected', ctx.mech(attr))
            return True
        if either:                      # a call form the documentation does not name (set): counted, not judged
            case.note('undocumented_form_rejected_' + attr)
            return True
        m = ctx.mech(attr, exc=type(exc).__name__, at=core.exc_location(exc))
        if attr == 'segments':
            m.update(_poly_flags(D))
        case.check(False, 'attr_read_raised', m, msg=str(exc)[:200], arg=repr(arg)[:100])
        return False
    if expect_invalid:
        case.note('invalid_label_accepted_by_' + attr)
        return True

    mech = ctx.mech(attr)
    fv = ctx.fresh.get(attr) if attr in LAZY else None
    chk = case.check
    if attr == 'labels':
        chk(_ints(val) == D.labels, 'labels_vs_definition', mech, obs=_ints(val)[:30], exp=D.labels[:30])
        # byte order is not part of the comparison (documentation silent): counted only
        nat = lambda d: np.dtype(d).newbyteorder('=')      # noqa: E731
        if np.asarray(val).dtype != cur.dtype and nat(np.asarray(val).dtype) == nat(cur.dtype):
            case.note('labels_byteorder_differs_from_data')
        chk(nat(np.asarray(val).dtype) == nat(cur.dtype), 'labels_dtype', mech, obs=str(np.asarray(val).dtype),
            exp=str(cur.dtype))
        if fv is not Fresh.FAILED:
            chk(np.array_equal(val, fv) and nat(np.asarray(val).dtype) == nat(fv.dtype), 'labels_vs_fresh', mech)
    elif attr == 'nlabels':
        chk(int(val) == D.nlabels, 'nlabels_vs_definition', mech, obs=int(val), exp=D.nlabels)
    elif attr == 'max_label':
        chk(int(val) == D.max_label, 'max_label_vs_definition', mech, obs=int(val), exp=D.max_label)
    elif attr == 'areas':
        chk(_ints(val) == D.areas, 'areas_vs_definition', mech, obs=_ints(val)[:30], exp=D.areas[:30])
        if fv is not Fresh.FAILED:
            chk(np.array_equal(val, fv), 'areas_vs_fresh', mech)
    elif attr == 'slices':
        chk([tuple(s) for s in val] == D.slices, 'slices_vs_definition', mech, obs=repr(val)[:300],
            exp=repr(D.slices)[:300])
        if fv is not Fresh.FAILED:
            chk(list(val) == list(fv), 'slices_vs_fresh', mech)
    elif attr == 'bbox':
        chk([_bbox_t(b) for b in val] == D.bbox, 'bbox_vs_definition', mech, obs=repr(val)[:300], exp=D.bbox[:10])
        if fv is not Fresh.FAILED:
            chk(list(val) == list(fv), 'bbox_vs_fresh', mech)
    elif attr == 'missing_labels':
        chk(_ints(val) == D.missing, 'missing_labels_vs_definition', mech, obs=_ints(val)[:30], exp=D.missing[:30])
        if fv is not Fresh.FAILED:
            chk(np.array_equal(val, fv), 'missing_labels_vs_fresh', mech)
    elif attr == 'is_consecutive':
        if D.is_consecutive is None:
            case.note('is_consecutive_on_all_zero_either')
        else:
            chk(bool(val) == D.is_consecutive, 'is_consecutive_vs_definition', mech, obs=bool(val))
        if fv is not Fresh.FAILED:
            chk(bool(val) == bool(fv), 'is_consecutive_vs_fresh', mech)
    elif attr == 'background_area':
        chk(int(val) == D.background_area, 'background_area_vs_definition', mech, obs=int(val),
            exp=D.background_area)
    elif attr == 'data_ma':
        chk(np.array_equal(np.ma.getdata(val), cur) and np.array_equal(np.ma.getmaskarray(val), cur == 0)
            and np.ma.getdata(val).dtype == cur.dtype, 'data_ma_vs_definition', mech)
    elif attr == 'shape':
        chk(tuple(val) == cur.shape, 'shape_vs_definition', mech, obs=tuple(val), exp=cur.shape)
    elif attr == 'segments':
        _segments_check(ctx, val, fv)
    elif attr == 'polygons':
        _polygons_check(ctx, val, fv)
    elif attr in ('deblended_labels', 'deblended_labels_map', 'deblended_labels_inverse_map'):
        _deblend_check(ctx, attr, val)
    elif attr == 'cmap':
        if D.nlabels == 0:
            chk(val is None, 'cmap_vs_definition', mech)
        else:
            chk(val is not None and len(val.colors) == D.max_label + 1, 'cmap_vs_definition', mech,
                n=None if val is None else len(val.colors), exp=D.max_label + 1)
            if fv is not Fresh.FAILED and val is not None and fv is not None:
                chk(np.array_equal(np.asarray(val.colors), np.asarray(fv.colors)), 'cmap_vs_fresh', mech)
    elif attr == 'get_index':
        chk(int(val) == D.index(lst[0]), 'get_index_vs_definition', mech, obs=int(val), label=lst[0])
    elif attr == 'get_indices':
        exp = [D.index(v) for v in lst]
        chk(_ints(val) == exp and (either or np.shape(val) == np.shape(arg)), 'get_indices_vs_definition', mech,
            obs=_ints(val), exp=exp)
    elif attr == 'get_area':
        chk(int(val) == D.areas[D.index(lst[0])], 'get_area_vs_definition', mech, obs=int(val), label=lst[0])
    elif attr == 'get_areas':
        exp = [D.areas[D.index(v)] for v in lst]
        chk(_ints(val) == exp, 'get_areas_vs_definition', mech, obs=_ints(val), exp=exp)
    elif attr == 'check_labels':
        chk(val is None, 'check_labels_accepts_valid', mech)
    elif attr == 'repr':
        chk(f'nlabels: {D.nlabels}' in val and f'shape: {cur.shape}' in val, 'repr_vs_definition', mech,
            obs=val[-120:])
    elif attr == 'array':
        chk(np.array_equal(val, cur) and val.dtype == cur.dtype, 'array_vs_data', mech)
    elif attr == 'getitem':
        sub, sublabels = val
        chk(np.array_equal(sub, cur[arg]) and sublabels == ref.labels_of(cur[arg]), 'getitem_vs_definition', mech)
    elif attr == 'make_source_mask':
        if arg is None:
            exp = cur != 0
        else:
            from scipy.ndimage import binary_dilation
            fp = np.ones((arg, arg) if np.isscalar(arg) else arg, dtype=bool)
            exp = binary_dilation(cur != 0, structure=fp)
        chk(np.array_equal(val, exp), 'make_source_mask_vs_definition', mech, size=repr(arg))
    return True


def verify_all(case, obj, model, op, src, extra=None):
    ctx = Ctx(case, obj, model, op, src, extra)
    order = list(ALL_ATTRS)
    case.rng.shuffle(order)
    for attr in order:
        observe(ctx, attr)
    return ctx


# ----------------------------------------------------------------------
# initial objects
# ----------------------------------------------------------------------
def _initial(case):
    """-> (live SegmentationImage, input array or None, deblend dict, info)"""
    from photutils.segmentation import SegmentationImage, deblend_sources, detect_sources
    rng, cls = case.rng, case.cls
    info = {}
    if cls in ('detect', 'deblend'):
        for attempt in range(6):
            img = gen.scene(rng)
            npix = int(rng.integers(3, 8))
            segm = detect_sources(img, 4.0, npix, connectivity=int(rng.choice([4, 8])))
            if segm is None:
                continue
            if cls == 'detect':
                info.update(source='detect_sources', npixels=npix)
                return segm, None, {}, info
            relabel = bool(rng.random() < 0.5)
            if rng.random() < 0.4 and segm.nlabels > 1:       # labels with gaps as deblend input
                segm.remove_label(int(rng.choice(segm.labels)))
                segm.reassign_label(int(segm.labels[-1]), int(segm.max_label) + int(rng.integers(2, 6)))
            pv_ = rng.random()
            if pv_ < 0.2 and segm.nlabels:                       # provenance of the deblend input (x)
                segm.labels, segm.max_label, segm.slices
                segm.relabel_consecutive(start_label=int(rng.integers(2, 9)))
                segm.max_label
                case.note('axis2_provenance_deblend_input_relabelled_from_k')
            elif pv_ < 0.35:
                segm = segm.copy()
                case.note('axis2_provenance_deblend_input_copy')
            elif pv_ < 0.5:
                segm = segm[0:segm.shape[0], 0:segm.shape[1]]
                case.note('axis2_provenance_deblend_input_slice')
            if rng.random() < 0.5:
                segm.areas, segm.bbox                           # cached state travels into deblend_sources
            deb = deblend_sources(img, segm, npixels=npix, nlevels=int(rng.choice([8, 32])),
                                  contrast=float(rng.choice([0.0, 0.001, 0.05])),
                                  mode=str(rng.choice(['exponential', 'linear', 'sinh'])), nproc=1,
                                  progress_bar=False, relabel=relabel)
            dmap = {int(p): [int(c) for c in ch] for p, ch in deb.deblended_labels_inverse_map.items()}
            del deb.__dict__['deblended_labels_inverse_map']     # undo the harness read
            # the map handed over by deblend_sources must describe the array: the children of a parent
            # are exactly the labels found on the parent's footprint
            okm = all(set(ref.labels_of(deb.data[segm.data == p])) == set(ch) and len(ch) >= 2
                      for p, ch in dmap.items())
            case.check(okm, 'deblend_initial_map_vs_pixels', {'op': 'init', 'relabel': relabel},
                       map=repr(dmap)[:300])
            if dmap or attempt == 5:
                info.update(source='deblend_sources', npixels=npix, relabel=relabel, parents=len(dmap))
                return deb, None, dmap, info
        case.skip('scene without detections')
    dtype = gen.pick_dtype(rng)
    shape, sk = gen.any_shape(rng, plain=0.75)
    case.note('axis_shape_initial_' + sk)
    info['shape_kind'] = sk
    if cls != 'all_zero' and rng.random() < 0.1:          # degenerate start, whatever the class
        kind = ['all_zero', 'constant_label', 'border_only'][int(rng.integers(0, 3))]
        data = (np.zeros(shape, dtype=dtype) if kind == 'all_zero' else
                gen.constant_label(rng, shape, dtype) if kind == 'constant_label' else
                gen.border_only(rng, shape, dtype))
        case.note('axis_degenerate_initial_' + kind)
        info['degenerate'] = kind
        return _finish_initial(case, data, info)
    if cls == 'blobs':
        data = gen.blobs(rng, shape, dtype)
    elif cls == 'scatter':
        data = gen.scatter(rng, shape, dtype)
    elif cls == 'disconnected':
        data = gen.disconnected(rng, shape, dtype)
    elif cls == 'no_background':
        data = gen.no_background(rng, shape, dtype)
    elif cls == 'single_pixel':
        data = gen.single_pixel(rng, shape, dtype)
    elif cls == 'all_zero':
        data = np.zeros(shape, dtype=dtype)
    elif cls == 'gaps_big':
        if dtype.itemsize == 1:
            dtype = np.dtype(np.int16 if dtype.kind == 'i' else np.uint16)
        data = gen.blobs(rng, shape, dtype, big=True)
    elif cls == 'dtype_max':
        data = gen.dtype_max(rng, shape)
    elif cls == 'border':
        data = gen.border(rng, shape, dtype)
    elif cls == 'tiny':
        data = gen.tiny(rng, dtype)
    elif rng.random() < 0.3:  # layout: the object returned by slicing a larger SegmentationImage (a view)
        big = gen.blobs(rng, (shape[0] + 4, shape[1] + 4), dtype)
        y0, x0 = int(rng.integers(0, 5)), int(rng.integers(0, 5))
        parent = SegmentationImage(big)
        if rng.random() < 0.5:
            parent.labels, parent.slices, parent.areas
        live = parent[y0:y0 + shape[0], x0:x0 + shape[1]]
        info.update(layout='getitem_view', dtype=str(big.dtype), shape=list(live.data.shape))
        return live, big, {}, info
    else:  # layout
        data, lay = gen.relayout(rng, gen.blobs(rng, shape, dtype))
        info['layout'] = lay
        case.note('axis_layout_initial_' + lay)
        info.update(dtype=str(data.dtype), shape=list(data.shape))
        return SegmentationImage(data), data, {}, info
    return _finish_initial(case, data, info)


def _axes2_array(case, data, where):
    """Second list of generic axes on a raw label array, independent of the class: labels next to the dtype
    limits (vii) and a segment touching exactly one border / corner (viii)."""
    rng = case.rng
    tags = {}
    if rng.random() < 0.15:
        data, side = gen.edge_blob(rng, data)
        if side:
            case.note(f'axis2_edge_{where}_{side}')
            tags['edge'] = side
    if rng.random() < 0.12:
        data, kind = gen.near_limit(rng, data)
        if kind:
            case.note(f'axis2_dtype_limit_{where}_{kind}_{data.dtype.name}')
            tags['near_limit'] = kind
    case.note(f'axis2_dtype_{where}_{data.dtype.name}')
    return data, tags


def _finish_initial(case, data, info):
    """Layout axis independent of the class: 40 % of the raw arrays get a non-plain layout/container."""
    from photutils.segmentation import SegmentationImage
    data, tags = _axes2_array(case, data, 'initial')
    info.update(tags)
    lay = 'plain'
    if case.rng.random() < 0.4:
        data, lay = gen.relayout(case.rng, data)
    case.note('axis_layout_initial_' + lay)
    info.update(layout=lay, dtype=str(data.dtype), shape=list(data.shape))
    return SegmentationImage(data), data, {}, info


def _new_data(case, D, cur):
    """Array for `.data = value`: (value, kind, layout)."""
    rng = case.rng
    k = int(rng.integers(0, 13))
    dtype = cur.dtype.newbyteorder('=') if rng.random() < 0.5 else gen.pick_dtype(rng)
    if rng.random() < 0.6:
        shape, sk = cur.shape, 'same'
    else:
        shape, sk = gen.any_shape(rng)
    case.note('axis_shape_setdata_' + sk)
    lay = 'plain'
    if k == 0:
        value, kind = np.zeros(shape, dtype=dtype), 'all_zero'
    elif k == 1:
        value, kind = gen.no_background(rng, shape, dtype), 'no_background'
    elif k == 2:
        value, kind = gen.disconnected(rng, shape, dtype), 'disconnected'
    elif k == 3:
        value, kind = gen.scatter(rng, shape, dtype), 'scatter'
    elif k == 4:
        return cur.astype(float), 'invalid_float', lay
    elif k == 5:
        sd = np.dtype(np.int16) if dtype.kind == 'u' else dtype
        v = gen.blobs(rng, shape, sd)
        v[0, 0] = -1
        return v, 'invalid_negative', lay
    elif k == 6:
        value, kind = gen.constant_label(rng, shape, dtype), 'constant_label'
    elif k == 7:
        value, kind = cur.copy(), 'same_values'
    elif k == 8:
        value, kind = gen.border_only(rng, shape, dtype), 'border_only'
    elif k == 9:
        value, kind = gen.single_pixel(rng, shape, dtype), 'single_pixel'
    else:
        value, kind = gen.blobs(rng, shape, dtype), 'blobs'
    if kind in ('all_zero', 'constant_label', 'border_only'):
        case.note('axis_degenerate_setdata_' + kind)
    elif kind != 'same_values':
        value, _ = _axes2_array(case, value, 'setdata')
    if rng.random() < 0.4:
        value, lay = gen.relayout(rng, value)
    case.note('axis_layout_setdata_' + lay)
    return value, kind, lay


# ----------------------------------------------------------------------
# one mutation step
# ----------------------------------------------------------------------
OPS = ['reassign_label', 'reassign_labels', 'relabel_consecutive', 'keep_label', 'keep_labels', 'remove_label',
       'remove_labels', 'remove_border_labels', 'remove_masked_labels', 'set_data', 'copy']
OPW = np.array([12, 10, 12, 5, 7, 8, 8, 12, 12, 8, 6], dtype=float)


def _new_label(rng, D, dtype, exclude):
    top = int(np.iinfo(dtype).max)
    r = rng.random()
    others = [v for v in D.labels if v not in exclude]
    if r < 0.4 and others:
        return int(others[int(rng.integers(0, len(others)))]), 'merge_existing'
    if r < 0.45 and exclude:
        return int(exclude[0]), 'same_label'
    if r < 0.5:
        return 0, 'zero'
    cands = [v for v in (D.missing[:4] + [D.max_label + 1, D.max_label + int(rng.integers(2, 9))]) if 0 < v <= top]
    if r > 0.97 and dtype.itemsize <= 2:
        cands = [top]
    if not cands:
        return (int(others[0]), 'merge_existing') if others else (int(exclude[0]), 'same_label')
    return int(cands[int(rng.integers(0, len(cands)))]), 'unused'


def _gen_op(case, model, D):
    """-> (op, call(obj), apply(model), mech-extras, description)"""
    rng = case.rng
    dtype = model.data.dtype
    w = OPW.copy()
    if not D.labels:            # nothing left to operate on: mostly assign new data
        w[[0, 1, 3, 4, 5, 6]] *= 0.15
        w[[2, 7, 8, 10]] *= 0.4
        w[9] *= 8
    op = OPS[int(rng.choice(len(OPS), p=w / w.sum()))]
    relabel = bool(rng.random() < 0.5)
    give_relabel = bool(rng.random() < 0.8)
    if not give_relabel:
        relabel = False
    ex = {}
    if op in ('reassign_label', 'reassign_labels'):
        single = op == 'reassign_label'
        if not single and rng.random() < 0.08:
            arg, kind = _empty_arg(rng)
            la = dict(arg=arg, kind=kind, dtype=None, valid=True, lst=[], either=False)
        else:
            la = _label_arg(case, D, single, dtype)
        lst = la['lst']
        new, nk = _new_label(rng, D, dtype, lst)
        newarg, nform, ndt = _scalar_form(case, new, 'new_label') if new >= 0 else (new, 'python_int', None)
        ex = dict(relabel=relabel, arg_kind=la['kind'], new_label=nk, new_label_form=nform,
                  empty_label_set=(len(lst) == 0), _either=la['either'])
        if new == int(np.iinfo(dtype).max):
            ex['label_at_dtype_max'] = True
        call = _styled_call(case, op, [('label' if single else 'labels', la['arg'], True),
                                       ('new_label', newarg, True), ('relabel', relabel, give_relabel)])
        return (op, call, lambda m: m.reassign(lst, new, relabel=relabel), ex,
                f'{op}({lst}->{new},relabel={relabel})[{la["kind"]}:{la["dtype"]},{nform}:{ndt}]')
    if op == 'relabel_consecutive':
        top = int(np.iinfo(dtype).max)
        r = rng.random()
        n = max(D.nlabels, 1)
        given = True
        if r < 0.3:
            given, start = False, 1
        elif r < 0.5:
            start = 1
        elif r < 0.9:
            start = int(rng.integers(2, 10))
            if start + n - 1 > top:
                start = 1
        elif r < 0.93 and dtype.itemsize <= 2 and top - n + 1 > 0:
            start = top - n + 1
            ex['label_at_dtype_max'] = True
        else:
            start = int(rng.choice([0, -2]))
        sarg, sform, sdt = _scalar_form(case, start, 'start_label') if given else (None, 'default', None)
        if sform in ('numpy_scalar', 'zero_d_array'):
            ex['start_label_numpy_scalar'] = True
        ex.update(start_label=('default' if not given else 'one' if start == 1 else 'invalid' if start <= 0
                               else 'other'), start_label_form=sform)
        ex['_start'] = start
        call = _styled_call(case, op, [('start_label', sarg, given)])
        return (op, call, lambda m: m.relabel_consecutive(start), ex,
                f'relabel_consecutive({start})[{sform}:{sdt}]')
    if op in ('keep_label', 'keep_labels', 'remove_label', 'remove_labels'):
        single = not op.endswith('s')
        if not single and rng.random() < 0.1:
            arg, kind = _empty_arg(rng)
            la = dict(arg=arg, kind=kind, dtype=None, valid=True, lst=[], either=False)
        else:
            la = _label_arg(case, D, single, dtype)
        lst = la['lst']
        keep = op.startswith('keep')
        nothing = (set(lst) >= set(D.labels)) if keep else (len(lst) == 0)
        ex = dict(relabel=relabel, arg_kind=la['kind'], empty_label_set=bool(nothing), _either=la['either'])
        if la['valid'] and D.labels and ((not keep and set(lst) >= set(D.labels)) or (keep and not lst)):
            case.note('axis_degenerate_every_label_removed')
        call = _styled_call(case, op, [('label' if single else 'labels', la['arg'], True),
                                       ('relabel', relabel, give_relabel)])
        return (op, call,
                (lambda m: m.keep(lst, relabel=relabel)) if keep else (lambda m: m.remove(lst, relabel=relabel)),
                ex, f'{op}({lst},relabel={relabel})[{la["kind"]}:{la["dtype"]}]')
    po = bool(rng.random() < 0.55)
    give_po = bool(rng.random() < 0.85)
    if not give_po:
        po = True
    if op == 'remove_border_labels':
        r = rng.random()
        half = min(model.data.shape) / 2
        if r < 0.15:
            width = 0
        elif r < 0.9:
            width = int(rng.integers(1, 4))
        else:
            width = int(np.ceil(half)) + int(rng.integers(0, 2))
        warg, wform, wdt = _scalar_form(case, width, 'border_width')
        ex = dict(relabel=relabel, partial_overlap=po, border_width_zero=(width == 0), border_width_form=wform)
        if width < half:
            rm = model.masked_label_set(model.border_mask(model.data.shape, width), po)
            ex['empty_label_set'] = len(rm) == 0
            if D.labels and len(rm) == D.nlabels:
                case.note('axis_degenerate_every_label_removed')
        call = _styled_call(case, op, [('border_width', warg, True), ('partial_overlap', po, give_po),
                                       ('relabel', relabel, give_relabel)])
        return (op, call, lambda m: m.remove_border(width, po, relabel), ex,
                f'remove_border_labels({width},partial_overlap={po},relabel={relabel})[{wform}:{wdt}]')
    if op == 'remove_masked_labels':
        shape = model.data.shape
        r = rng.random()
        mk = 'random'
        if r < 0.4:
            mask = rng.random(shape) < float(rng.choice([0.05, 0.2, 0.5]))
        elif r < 0.5:
            mask, mk = np.zeros(shape, dtype=bool), 'all_false'
        elif r < 0.54:
            mask, mk = np.ones(shape, dtype=bool), 'all_true'
        elif r < 0.7:
            mask, mk = np.zeros(shape, dtype=bool), 'row_or_col'
            if rng.random() < 0.5:
                mask[int(rng.integers(0, shape[0]))] = True
            else:
                mask[:, int(rng.integers(0, shape[1]))] = True
        elif r < 0.93 and D.labels:
            lab = D.labels[int(rng.integers(0, D.nlabels))]
            mask, mk = model.data == lab, 'label_footprint'
            if rng.random() < 0.5:                     # all but one pixel of the label
                ys, xs = np.nonzero(mask)
                j = int(rng.integers(0, ys.size))
                mask = mask.copy()
                mask[ys[j], xs[j]] = False
                mk = 'label_footprint_minus_one'
        elif r < 0.93:
            mask, mk = np.zeros(shape, dtype=bool), 'all_false'
        else:
            mask, mk = np.zeros((shape[0] + 1, shape[1]), dtype=bool), 'wrong_shape'
        mask = np.ascontiguousarray(mask)
        if mask.shape == shape and (not mask.any() or mask.all()):
            case.note('axis2_mask_' + ('all_false' if not mask.any() else 'all_true'))
        marg, mdk, mlk = _mask_form(case, mask)
        ex = dict(relabel=relabel, partial_overlap=po, mask_kind=mk, mask_dtype=mdk, mask_layout=mlk)
        if mask.shape == shape:
            rm = model.masked_label_set(mask, po)
            ex['empty_label_set'] = len(rm) == 0
            if D.labels and len(rm) == D.nlabels:
                case.note('axis_degenerate_every_label_removed')
        ex['_mask'] = (marg, np.array(marg, copy=True) if mdk != 'nested_list' else [list(r_) for r_ in marg])
        call = _styled_call(case, op, [('mask', marg, True), ('partial_overlap', po, give_po),
                                       ('relabel', relabel, give_relabel)])
        return (op, call, lambda m: m.remove_masked(mask, po, relabel), ex,
                f'remove_masked_labels({mk},partial_overlap={po},relabel={relabel})[{mdk},{mlk}]')
    if op == 'set_data':
        if rng.random() < 0.15 and D.labels:
            return ('set_data', None, None, dict(data_kind='inplace_edit_then_assign'), 'set_data(inplace_edit)')
        value, kind, lay = _new_data(case, D, model.data)
        return ('set_data', lambda o: setattr(o, 'data', value), lambda m: m.set_data(value),
                dict(data_kind=kind, data_layout=lay, _value=value),
                f'set_data({kind},{value.dtype},{value.shape},{lay})')
    return ('copy', None, None, {}, 'copy()')


def _nonbool_mask_explained(ex, before, obs, raised):
    """Is the outcome exactly what `data[mask]` / `data[~mask]` give when a non-boolean mask is used as an
    *index array* (the mechanism of the known finding) - so that nothing else hides behind that key?"""
    marg, _ = ex['_mask']
    kind = ex['mask_dtype']
    if kind == 'nested_list':
        return isinstance(raised, AttributeError)
    if kind == 'float64':
        return isinstance(raised, IndexError) or (np.shape(marg) != before.shape and isinstance(raised, ValueError))
    if np.shape(marg) != before.shape:
        return isinstance(raised, ValueError)
    try:
        rm = set(ref.labels_of(before[marg]))
        if not ex['partial_overlap']:
            rm -= set(ref.labels_of(before[~marg]))
    except IndexError:
        return isinstance(raised, IndexError)
    if raised is not None:
        return False
    m = ref.LabelModel(before)
    m.remove(sorted(rm), relabel=ex['relabel'])
    return bool(obs.shape == m.data.shape and np.array_equal(obs, m.data))


def _resync(model, live, before, saved):
    """Continue from the actual state after a recorded array violation: the
    documented effect did not happen, so the model adopts what is there."""
    obs = live.data
    model.data = np.array(obs, copy=True)
    if obs.shape == before.shape and np.array_equal(obs, before):
        model.deblend, model.child_removed = saved          # the call changed nothing
        return
    present = set(ref.labels_of(obs))
    try:
        inv = _copy.deepcopy(live).deblended_labels_inverse_map
    except Exception:  # noqa: BLE001
        inv = {}
    newdeb = {}
    for p, ch in inv.items():
        ch = [int(c) for c in np.atleast_1d(ch)]
        kept = [c for c in ch if c in present]
        if len(kept) != len(ch):
            model.child_removed = True
        newdeb[int(p)] = kept
    model.deblend = newdeb


def _install_recorder(case):
    """The framework keeps at most 20 violation records per case. Known defects
    (polygons of disconnected labels, ...) re-fire after every step, so records are
    rationed per mechanism: at most 2 per (what, structural flags) and, once 12 are
    stored, only mechanisms not seen before in this case - a new kind of violation
    is never crowded out by repeats of an old one. Every evaluation is still counted."""
    seen = {}
    orig = case.check

    def check(ok, what, mech=None, **detail):
        if ok:
            return orig(True, what, mech)
        key = (what, tuple(sorted((k, repr(v)) for k, v in (mech or {}).items() if k not in ('src', 'op'))))
        n = seen.get(key, 0)
        seen[key] = n + 1
        if n >= 2 or (n >= 1 and len(case.violations) >= 12):
            case.nchecks += 1
            case.note('repeat_violation_records_not_stored')
            return False
        if len(case.violations) >= 20:
            case.note('violation_records_dropped_by_cap')
        return orig(False, what, mech, **detail)

    case.check = check


def run_case(case):
    rng = case.rng
    _install_recorder(case)
    with warnings.catch_warnings():
        warnings.simplefilter('ignore')
        live, input_arr, dmap, info = _initial(case)
    # provenance (x): the history may start from an object that is itself the product of copy() / slicing,
    # with cached properties read on the source before
    pr = rng.random()
    prov = 'direct'
    if pr < 0.3:
        ctx0 = Ctx(case, live, ref.LabelModel(np.array(live.data, copy=True), dmap), 'init', 'live')
        for a in [str(a) for a in rng.choice(LAZY, size=int(rng.integers(0, 6)), replace=False)]:
            observe(ctx0, a)
        ny, nx = live.data.shape
        if pr < 0.12:
            live, prov = live.copy(), 'copy'
        else:
            if pr < 0.22:
                key, prov = (slice(0, ny), slice(0, nx)), 'full_slice'
            else:
                y0, x0 = int(rng.integers(0, ny)), int(rng.integers(0, nx))
                key = (slice(y0, int(rng.integers(y0 + 1, ny + 1))), slice(x0, int(rng.integers(x0 + 1, nx + 1))))
                prov = 'sub_slice'
            src = live
            live = src[key]
            dmap = {}                         # a sliced image is a new SegmentationImage without deblend history
            if input_arr is None:
                input_arr = src.data          # the source object's array must stay untouched by the history
            if rng.random() < 0.3:
                live, prov = live.copy(), prov + '_then_copy'
    case.note('axis2_provenance_start_' + prov)
    info['provenance'] = prov
    init_data = np.array(live.data, copy=True)
    model = ref.LabelModel(init_data, dmap)
    inputs = []                                    # (array object, snapshot) handed to the library
    if input_arr is not None:
        inputs.append((input_arr, input_arr.copy()))
    nsteps = int(rng.integers(1, 9))
    ops_done = []
    shadow = None                                  # (object left behind by copy(), its data snapshot, labels)
    last_op = 'init'
    effective_after_read = False
    tracked = [None]        # the `labels` array cached by relabel_consecutive(<numpy scalar>) while it stays cached

    def sticky():
        if tracked[0] is not None and live.__dict__.get('labels') is tracked[0]:
            return {'labels_cached_by_relabel_consecutive_numpy_start': True}
        return {}
    case.params = dict(info, cls=case.cls, nsteps=nsteps)

    # the initial object must already be right (pre-seeded caches of detect/deblend outputs)
    if rng.random() < 0.5:
        verify_all(case, _copy.deepcopy(live), model, 'init', 'clone')

    for step in range(nsteps):
        # ---- reads on the live object ---------------------------------
        r = rng.random()
        nread = 0 if r < 0.1 else int(rng.integers(1, 4)) if r < 0.6 else int(rng.integers(4, 9)) if r < 0.85 \
            else len(ALL_ATTRS)
        reads = [str(a) for a in rng.choice(ALL_ATTRS, size=min(nread, len(ALL_ATTRS)), replace=False)]
        if reads:
            ctx = Ctx(case, live, model, last_op, 'live', sticky())
            for a in reads:
                observe(ctx, a)
        cached = sorted(k for k in live.__dict__ if k in LAZY or k == '_raw_slices')

        # ---- mutation ----------------------------------------------------
        D = ref.Defs(model.data)
        case.note('steps')
        if not D.labels:
            case.note('steps_starting_from_all_zero_array')
        op, call, apply, ex, desc = _gen_op(case, model, D)
        ops_done.append(desc)
        mech = {'op': op}
        mech.update({k: v for k, v in ex.items() if not k.startswith('_')})
        mech.update(D.flags())
        mech.update(sticky())
        last_op = op

        if op == 'copy':
            new = live.copy()
            okc = (np.array_equal(new.data, live.data) and new.data.dtype == live.data.dtype
                   and not np.shares_memory(new.data, live.data) and new is not live)
            case.check(okc, 'copy_equal_and_independent', mech)
            snap = (np.array(live.data, copy=True), ref.labels_of(live.data))
            st = sticky()
            if rng.random() < 0.5:
                shadow = (live, ) + snap
                live = new
                if st:
                    tracked[0] = live.__dict__.get('labels')
            else:
                shadow = (new, ) + snap
                verify_all(case, new, model, 'copy', 'copy', st)
            case.note('op_copy')
        else:
            if ex.get('data_kind') == 'inplace_edit_then_assign' and not live.data.flags.writeable:
                ex = dict(data_kind='same_array_reassigned')
                mech['data_kind'] = 'same_array_reassigned'
                value = live.data
                call = lambda o: setattr(o, 'data', value)     # noqa: E731
                apply = lambda m: m.set_data(value)            # noqa: E731
            elif ex.get('data_kind') == 'inplace_edit_then_assign':
                arr = live.data                           # the user edits the array in place and re-assigns it
                lab = D.labels[int(rng.integers(0, D.nlabels))]
                if rng.random() < 0.5:
                    arr[arr == lab] = 0
                else:
                    y, x = int(rng.integers(0, arr.shape[0])), int(rng.integers(0, arr.shape[1]))
                    arr[y, x] = min(D.max_label + 1, int(np.iinfo(arr.dtype).max))
                inputs = [(a, s) for a, s in inputs if not np.shares_memory(a, arr)]   # the harness edits it now
                value = arr
                call = lambda o: setattr(o, 'data', value)     # noqa: E731
                apply = lambda m: m.set_data(value)            # noqa: E731
            elif op == 'set_data':
                value = ex['_value']
            before = np.array(live.data, copy=True)
            pred_exc = None
            saved = (_copy.deepcopy(model.deblend), model.child_removed)
            saved_data = model.data
            try:
                note = apply(model)
            except ref.Invalid as inv:
                pred_exc = inv
                note = None
            raised = None
            with warnings.catch_warnings():
                warnings.simplefilter('ignore')
                try:
                    call(live)
                except Exception as exc:  # noqa: BLE001
                    if core.exc_location(exc) is None:
                        raise
                    raised = exc
            case.note('op_' + op)
            if '_mask' in ex:
                marg, msnap = ex['_mask']
                case.check(marg == msnap if isinstance(marg, list) else np.array_equal(marg, msnap),
                           'mask_unchanged', {'op': op, 'mask_dtype': ex['mask_dtype']})
            if ex.get('mask_dtype', 'bool') != 'bool':
                mech['mask_nonbool'] = True
                mech['nonbool_mask_explained'] = _nonbool_mask_explained(ex, before, live.data, raised)
            if ex.get('_either') and raised is not None and pred_exc is None:
                # a call form the documentation does not name (set): rejection is counted, not judged;
                # the object must then be unchanged
                case.note('undocumented_form_rejected_' + op)
                model.data = saved_data
                model.deblend, model.child_removed = saved
                raised = None
                pred_exc = ref.Invalid(type(None), 'undocumented call form')
                mech['undocumented_form_rejected'] = True
            if ex.get('start_label_numpy_scalar') and raised is None and pred_exc is None:
                tracked[0] = live.__dict__.get('labels')
            if mech.get('undocumented_form_rejected'):
                pass
            elif pred_exc is not None:
                mech['rejected'] = True
                if raised is None:
                    case.note('invalid_argument_accepted_' + op)     # outside the quantifier: no verdict
                    model.data = np.array(live.data, copy=True)
                else:
                    case.check(isinstance(raised, pred_exc.exc), 'rejection_type', mech,
                               exc=type(raised).__name__, exp=pred_exc.exc.__name__, why=pred_exc.why)
                    case.note('invalid_argument_rejected')
            elif raised is not None:
                if note == 'noop_all_zero' and isinstance(raised, ValueError):
                    case.note('relabel_all_zero_invalid_start_either')
                else:
                    m = dict(mech, exc=type(raised).__name__, at=core.exc_location(raised))
                    case.check(False, 'raised', m, msg=str(raised)[:200], op=desc, cached=cached)
                    # the documented effect did not happen; continue from the actual state
                    model.data = np.array(live.data, copy=True)
                    model.deblend, model.child_removed = saved
            if op == 'set_data' and pred_exc is None and raised is None:
                inputs.append((value, value.copy()))

            # ---- array vs model -------------------------------------------
            obs = live.data
            ok_dtype = case.check(obs.dtype == model.data.dtype, 'dtype_preserved', mech,
                                  obs=str(obs.dtype), exp=str(model.data.dtype), op=desc)
            same_arr = obs.shape == model.data.shape and np.array_equal(obs, model.data)
            m2 = dict(mech)
            if not same_arr and ex.get('border_width_zero'):
                m2['all_labels_removed'] = bool(not obs.any() and before.any())
            if not same_arr and ex.get('relabel') and ex.get('empty_label_set'):
                m2['array_unchanged_by_call'] = bool(obs.shape == before.shape and np.array_equal(obs, before))
            case.check(same_arr, 'array_vs_model', m2, op=desc, cached=cached,
                       obs=obs if obs.size <= 64 else ref.labels_of(obs)[:30],
                       exp=model.data if model.data.size <= 64 else model.labels()[:30])
            if pred_exc is None and raised is None:
                labs_now = ref.labels_of(obs)
                if op == 'relabel_consecutive' and note != 'noop_all_zero':
                    s0 = ex['_start']
                    case.check(labs_now == list(range(s0, s0 + len(labs_now))), 'relabel_consecutive_leaves_run',
                               mech, labels=labs_now[:30])
                elif ex.get('relabel'):
                    case.check(labs_now == list(range(1, len(labs_now) + 1)), 'relabel_true_leaves_1_to_N',
                               m2, labels=labs_now[:30], op=desc)
                if ex.get('border_width_zero'):
                    m3 = dict(mech, all_labels_removed=bool(not obs.any() and before.any()))
                    case.check(obs.shape == before.shape and np.array_equal(obs != 0, before != 0)
                               and len(labs_now) == len(ref.labels_of(before))
                               and (ex.get('relabel') or labs_now == ref.labels_of(before)),
                               'border_width_zero_removes_nothing', m3,
                               before=ref.labels_of(before)[:30], after=labs_now[:30])
                if cached and (op == 'set_data' or not np.array_equal(before, model.data)):
                    effective_after_read = True
            if not (same_arr and ok_dtype):
                # resynchronise so that the rest of the history is still judged
                _resync(model, live, before, saved)

        # ---- caller-owned arrays are never written ------------------------
        for a, s in inputs:
            case.check(np.array_equal(a, s), 'input_array_unchanged', {'op': op})
        if shadow is not None and op != 'copy':
            sobj, sdata, slabels = shadow
            case.check(np.array_equal(sobj.data, sdata) and _ints(sobj.labels) == slabels,
                       'copy_unaffected_by_later_mutation', {'op': op})

        # ---- every attribute, on a clone with identical cache content -----
        verify_all(case, _copy.deepcopy(live), model, op, 'clone', sticky())

    verify_all(case, live, model, last_op, 'live', sticky())
    if shadow is not None:
        sobj, sdata, slabels = shadow
        case.check(np.array_equal(sobj.data, sdata), 'copy_unaffected_by_later_mutation', {'op': last_op})
    case.params['ops'] = ops_done
    case.nontrivial = effective_after_read
    case.digest = core.arr_digest(init_data) + core.digest(ops_done)
