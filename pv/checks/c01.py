"""C01 Aperture masks are the true pixel-overlap fractions of the shape.

Monitors (DESIGN section 4, C01):

* M1 reference model (pv.ref.c01_geometry): exact polygon∩disk areas for the
  circle/ellipse 'exact' masks, tie-banded (sub)pixel-centre counting for
  'center'/'subpixel' and for the rectangles' 'exact' (= documented 32x32
  sub-sampling) masks, shapely areas + a computed sub-sampling error bound for
  rectangles, true extents for the bounding boxes, brute-force index sets for
  overlap slices / to_image / cutout / multiply / get_values.
* M2 relations: one-at-a-time vs multi-position, center == subpixel(1),
  `subpixels` ignored unless method='subpixel', copy()/indexing, re-assigned
  parameters (cached _bbox/_centered_edges) vs fresh object.
* M6 contracts (plain wrappers, no icontract needed) on the three
  ``*_overlap_grid`` kernels as imported by the aperture modules, on
  BoundingBox.from_float and BoundingBox.get_overlap_slices; they ride along on
  every call and are counted.
* kernels: the *current* generated .c files are compiled and served through a
  meta_path finder (pv.c01_kernels); thorough tier adds an ASan+UBSan build
  driven by the same generator in a subprocess (driver_legs), and a source
  twin is NOT implemented (see ASSUMPTIONS).
"""
from __future__ import annotations

import json
import math
import os
import subprocess
import sys
import time

import numpy as np

from pv import c01_kernels as K
from pv import core
from pv.gen import c01_twin as T
from pv.ref import c01_geometry as G

ID = 'C01'
RULE = ('one case = one randomly generated pixel aperture (six classes x three methods, scalar or 1-5 positions) '
        'from a hostile geometry class (generic / lattice ties / integer±1e-12..1e-9 / far off-image / tiny / large / '
        'circle through a pixel corner / tangent to a pixel edge / pixel corner on the ellipse / needle / k·pi/4 angles / '
        'thin annulus / multi-position / re-assigned parameters / augmented in-place updates (+=, -=, *=) of positions, shape parameters or theta applied to one of parent / indexed / sliced / iterated child / copy() / the source array of the caller with ALL relatives (created before and after, with and without filled caches) judged at the parameters they report / image-edge straddling) or a BoundingBox algebra case; '
        'every mask is judged against the reference weights, box, area and against brute-force index sets for one or '
        'more image shapes; non-trivial = some judged mask has a pixel weight strictly between 0 and 1 (center method: '
        'contains both 0 and 1 pixels), bbox_algebra: boxes partially overlap; distinct by digest of '
        '(class, shape parameters, positions, method, subpixels, image shapes)')
CLASSES = ['generic', 'lattice', 'near_lattice', 'far', 'tiny', 'large', 'corner', 'tangent', 'vertex',
           'needle', 'angles', 'thin_annulus', 'multi', 'reassign', 'inplace', 'image_ops', 'bbox_algebra']
MUST_REACH = [
    'photutils.aperture.core:PixelAperture._bbox',
    'photutils.aperture.core:PixelAperture._centered_edges',
    'photutils.aperture.core:PixelAperture._translate_mask_mode',
    'photutils.aperture.core:PixelAperture.bbox',
    'photutils.aperture.bounding_box:BoundingBox.from_float',
    'photutils.aperture.bounding_box:BoundingBox.get_overlap_slices',
    'photutils.aperture.bounding_box:BoundingBox.union',
    'photutils.aperture.bounding_box:BoundingBox.intersection',
    'photutils.aperture.bounding_box:BoundingBox.extent',
    'photutils.aperture.circle:CircularMaskMixin.to_mask',
    'photutils.aperture.ellipse:EllipticalMaskMixin.to_mask',
    'photutils.aperture.ellipse:EllipticalMaskMixin._calc_extents',
    'photutils.aperture.rectangle:RectangularMaskMixin.to_mask',
    'photutils.aperture.rectangle:RectangularMaskMixin._calc_extents',
    'photutils.aperture.mask:ApertureMask.get_overlap_slices',
    'photutils.aperture.mask:ApertureMask.to_image',
    'photutils.aperture.mask:ApertureMask.cutout',
    'photutils.aperture.mask:ApertureMask.multiply',
    'photutils.aperture.mask:ApertureMask.get_values',
]
ANCHOR_FILES = ['aperture/core.py', 'aperture/circle.py', 'aperture/ellipse.py', 'aperture/rectangle.py',
                'aperture/bounding_box.py', 'aperture/mask.py', 'aperture/attributes.py']
MIN_NONTRIVIAL = {'quick': 400, 'thorough': 6000}

_HAVE_C = K.c_sources() is not None
ASSUMPTIONS = [
    'numpy, astropy units and shapely (rectangle/pixel intersection areas) are the trusted base',
    ('compiled kernels under test = the CURRENT <repo>/photutils/geometry/*.c compiled by gcc -O2 and loaded through a '
     'meta_path overlay before photutils.geometry is imported (each case notes overlay_active)') if _HAVE_C else
    ('generated .c files are ABSENT in the tree: the installed .so of the repository were executed, an edit to the '
     'kernel sources is not reflected'),
    ('Cython is not available: the .pyx sources themselves cannot be executed; the run reports whether every code line '
     'Cython embedded in the .c files still equals the same line of the .pyx (coverage.kernel_overlay.pyx_drift); a '
     '.pyx-only edit is detected as drift (-> inconclusive) but its effect is not executed; no source twin'),
    'exact ties of a (sub)pixel centre with the shape boundary (measure zero) are accepted either way (property is silent)',
    'a sanitizer-clean run means 0 reports on the executed kernel calls, nothing stronger',
]

EXACT_ATOL = 1e-9          # per-pixel tolerance of 'exact' circle/ellipse weights (measured max dev: see evidence)
# The ellipse kernel converts chord length to arc angle by asin(): for a chord within 1e-16 of a diameter the result
# is only good to sqrt(eps) ~ 1.5e-8 (unit-circle frame), i.e. 1.5e-8 * a*b of a pixel.  Two crossing points are
# antipodal when an (almost) right-angled triangle corner lies (almost) on the circle (Thales), e.g. axis-aligned
# ellipse + pixel corner within ~1e-6 of the boundary.  Measured on the unchanged tree: 2.3e-10 for a*b = 0.006
# (unit-frame 2.9e-8), 1e-13 elsewhere.  Those masks are judged with the honest bound below and tracked separately.
NEAR_CORNER_BAND = 2e-6    # |d^2 - 1| of a pixel corner in the unit-circle frame
NEAR_CORNER_ATOL = 5e-7    # x max(1, a*b), added to EXACT_ATOL


ON_CORNER_ATOL = 1e-8      # x max(1, a): consequence of the kernel's own 1e-10 'on the circle' tolerance


def _exact_atol(size):
    """scaling of rounding errors with the shape size: ~1e-16 * size^2 of a pixel (measured 1.9e-11 at 400)."""
    return EXACT_ATOL * max(1.0, (size / 100.0) ** 2)
TIE_EPS = 1e-9             # tie band (pixels) for inside tests and box edges


def plan(tier):
    if tier == 'thorough':
        return dict(shards=16, cases=40000, timeout=2400, budget_s=600)
    return dict(shards=8, cases=2500, timeout=600, budget_s=45)


def selftest():
    G.selftest()
    # build the overlay once, before the shards start (they then hit the cache)
    info = K.build('plain')
    if info['error'] and K.c_sources() is not None:
        raise RuntimeError('kernel overlay build failed: ' + info['error'])


# ----------------------------------------------------------------------
# worker setup: overlay + contracts
# ----------------------------------------------------------------------
_STATE = {'overlay': None, 'contracts': {}, 'contract_fail': [], 'kernel_calls': {}, 'kernel_pixels': 0,
          'twin': None, 'twin_status': 'not loaded', 'twin_masks': 0, 'twin_gate_maxdev': None, 'compiled': {}}


def _count(name):
    _STATE['contracts'][name] = _STATE['contracts'].get(name, 0) + 1


def _fail(name, **detail):
    if len(_STATE['contract_fail']) < 50:
        _STATE['contract_fail'].append((name, core._jsonable(detail)))


def _wrap_kernel(fn, kname):
    def wrapper(xmin, xmax, ymin, ymax, nx, ny, *rest):
        out = fn(xmin, xmax, ymin, ymax, nx, ny, *rest)
        use_exact, subpixels = rest[-2], rest[-1]
        _STATE['kernel_calls'][kname] = _STATE['kernel_calls'].get(kname, 0) + 1
        _STATE['kernel_pixels'] += int(nx) * int(ny)
        cname = 'kernel:' + kname
        _count(cname)
        ok = (isinstance(out, np.ndarray) and out.shape == (ny, nx) and out.dtype == np.float64)
        if not ok:
            _fail(cname, why='shape/dtype', shape=getattr(out, 'shape', None), want=(ny, nx))
            return out
        if not np.all(np.isfinite(out)):
            extra = {}
            if kname.endswith('elliptical') and use_exact:
                # same structural flags as the range contract below, so that a NaN weight produced by
                # the known corner-on-ellipse / tangent-edge mechanism is classified as that mechanism
                extra = _kernel_special_flags(xmin + np.arange(nx + 1), ymin + np.arange(ny + 1),
                                              [(rest[0], rest[1], rest[2])])
                extra.update(shape='ellipse', method='exact',
                             kernel='pyx_twin' if kname.startswith('pyx_twin') else 'compiled')
            _fail(cname, why='non-finite weight', _mech=extra)
        elif use_exact:
            tol = _exact_atol(max(rest[0], rest[1]) if kname.endswith('elliptical') else rest[0])
            if out.min() < -tol or out.max() > 1 + tol:
                extra = {}
                if kname.endswith('elliptical'):
                    extra = _kernel_special_flags(xmin + np.arange(nx + 1), ymin + np.arange(ny + 1),
                                                  [(rest[0], rest[1], rest[2])])
                    extra.update(shape='ellipse', method='exact',
                                 kernel='pyx_twin' if kname.startswith('pyx_twin') else 'compiled')
                    if extra['corner_near_ellipse']:
                        tol += NEAR_CORNER_ATOL * max(1.0, rest[0] * rest[1])
                    if extra['corner_on_ellipse']:
                        tol += ON_CORNER_ATOL * max(1.0, rest[0], rest[1])
                if out.min() < -tol or out.max() > 1 + tol:
                    _fail(cname, why='exact weight outside [0,1]', min=float(out.min()), max=float(out.max()),
                          _mech=extra)
        else:
            k = out * (subpixels * subpixels)
            if out.min() < 0 or out.max() > 1 or np.abs(k - np.rint(k)).max() > 1e-9:
                _fail(cname, why='sampled weight is not k/s^2 in [0,1]', min=float(out.min()),
                      max=float(out.max()), s=int(subpixels))
        return out
    wrapper.__wrapped__ = fn
    wrapper.__name__ = getattr(fn, '__name__', kname)
    return wrapper


def _install_contracts():
    import photutils.aperture.circle as pc
    import photutils.aperture.ellipse as pe
    import photutils.aperture.rectangle as pr
    from photutils.aperture.bounding_box import BoundingBox
    pc.circular_overlap_grid = _wrap_kernel(pc.circular_overlap_grid, 'circular')
    pe.elliptical_overlap_grid = _wrap_kernel(pe.elliptical_overlap_grid, 'elliptical')
    pr.rectangular_overlap_grid = _wrap_kernel(pr.rectangular_overlap_grid, 'rectangular')

    orig_ff = BoundingBox.__dict__['from_float'].__func__

    def from_float(cls, xmin, xmax, ymin, ymax):
        box = orig_ff(cls, xmin, xmax, ymin, ymax)
        _count('from_float')
        for lo, hi, imin, imax, ax in ((xmin, xmax, box.ixmin, box.ixmax, 'x'), (ymin, ymax, box.iymin, box.iymax, 'y')):
            lo, hi = float(lo), float(hi)
            eps = TIE_EPS + 4 * max(math.ulp(abs(lo) + 1), math.ulp(abs(hi) + 1))
            contains = (imin - 0.5 <= lo + eps) and (imax - 0.5 >= hi - eps)
            # minimal: dropping the first/last pixel would cut the rectangle (only if it has an interior)
            minimal = True
            if hi - lo > 2 * eps:
                minimal = (imin + 0.5 > lo - eps) and (imax - 1.5 < hi + eps)
            if not (contains and minimal):
                _fail('from_float', axis=ax, lo=lo, hi=hi, imin=int(imin), imax=int(imax),
                      contains=contains, minimal=minimal)
        return box
    BoundingBox.from_float = classmethod(from_float)

    orig_gos = BoundingBox.get_overlap_slices

    def get_overlap_slices(self, shape):
        res = orig_gos(self, shape)
        _count('get_overlap_slices')
        sl, ss = res
        if (sl is None) != (ss is None):
            _fail('get_overlap_slices', why='one None', res=repr(res))
        elif sl is not None:
            ok = True
            for ax in (0, 1):
                a, b = sl[ax], ss[ax]
                n = self.shape[ax]
                ok &= (0 <= a.start <= a.stop <= shape[ax]) and (0 <= b.start <= b.stop <= n)
                ok &= (a.stop - a.start) == (b.stop - b.start)
                org = self.iymin if ax == 0 else self.ixmin
                ok &= (a.start - b.start) == org or (a.stop == a.start)
            if not ok:
                _fail('get_overlap_slices', why='inconsistent slices', res=repr(res), box=repr(self),
                      shape=list(shape))
        return res
    BoundingBox.get_overlap_slices = get_overlap_slices


def setup(tier):
    info = K.activate('plain')
    _STATE['overlay'] = info
    _install_contracts()
    _load_twin(drift=bool(info['pyx_drift']['drift']))
    return {k: info[k] for k in ('source', 'dir', 'sha', 'cached', 'overlay_active', 'error', 'repo')} | {
        'pyx_drift': info['pyx_drift'], 'twin_status': _STATE['twin_status']}


def teardown():
    return {'contracts': _STATE['contracts'], 'kernel_calls': _STATE['kernel_calls'],
            'kernel_pixels': _STATE['kernel_pixels'], 'twin_status': _STATE['twin_status'],
            'twin_masks': _STATE['twin_masks'], 'twin_gate_maxdev': _STATE['twin_gate_maxdev']}


# ----------------------------------------------------------------------
# source twin of the .pyx kernels (pv.gen.c01_twin): the only way to EXECUTE a .pyx edit here
# ----------------------------------------------------------------------
def _twin_probe_set():
    rng = np.random.default_rng(20260926)
    probes = []
    for k in range(36):
        nx, ny = int(rng.integers(1, 7)), int(rng.integers(1, 7))
        xc, yc = rng.uniform(-2, 2, 2)
        e = (-nx / 2 - xc, nx / 2 - xc, -ny / 2 - yc, ny / 2 - yc)
        r = float(math.exp(rng.uniform(math.log(0.05), math.log(4.0))))
        b = r * float(rng.uniform(0.02, 1))
        th = float(rng.uniform(-7, 7)) if k % 3 else float(int(rng.integers(-4, 5)) * math.pi / 4)
        for ue, ss in ((1, 1), (0, 1), (0, int(rng.integers(2, 9)))):
            probes.append(('circular', e + (nx, ny, r, ue, ss)))
            probes.append(('elliptical', e + (nx, ny, r, b, th, ue, ss)))
            if not ue:
                probes.append(('rectangular', e + (nx, ny, 2 * r, 2 * b, th, ue, ss)))
    return probes


def _load_twin(drift):
    """De-type and load the .pyx kernels; soundness gate: on a fixed probe set the twin must reproduce the compiled
    overlay (only meaningful when the .c is the translation of the current .pyx, i.e. no drift)."""
    try:
        tw = T.load(K.geometry_dir())
    except T.TwinError as exc:
        _STATE['twin_status'] = 'unavailable: ' + str(exc)[:300]
        return
    import photutils.aperture.circle as pc
    import photutils.aperture.ellipse as pe
    import photutils.aperture.rectangle as pr
    comp = {'circular': pc.circular_overlap_grid.__wrapped__, 'elliptical': pe.elliptical_overlap_grid.__wrapped__,
            'rectangular': pr.rectangular_overlap_grid.__wrapped__}
    worst = 0.0
    try:
        for kname, args in _twin_probe_set():
            a = comp[kname](*args)
            b = tw[kname + '_overlap_grid'](*args)
            if np.shape(a) != np.shape(b):
                worst = float('inf')
                break
            worst = max(worst, float(np.abs(np.asarray(a) - np.asarray(b)).max()))
    except Exception as exc:  # noqa: BLE001
        _STATE['twin_status'] = f'unavailable: probe raised {type(exc).__name__}: {exc}'[:300]
        return
    _STATE['twin_gate_maxdev'] = worst
    _STATE['twin'] = {k: _wrap_kernel(tw[k + '_overlap_grid'], 'pyx_twin:' + k)
                      for k in ('circular', 'elliptical', 'rectangular')}
    if drift:
        _STATE['twin_status'] = ('active, ungated: the .pyx differs from the source of the compiled .c, so agreement '
                                 f'with the compiled kernels is not expected (probe deviation {worst:.3g})')
    elif worst <= 1e-12:
        _STATE['twin_status'] = f'active, gate passed (max deviation from the compiled overlay on the probe set {worst:.3g})'
    else:
        _STATE['twin_status'] = (f'active, gate FAILED: twin deviates from the compiled overlay by {worst:.3g} although the '
                                 '.c embeds the current .pyx text (edited .c, or de-typer unsound)')


class _TwinKernels:
    """context manager: the aperture modules call the de-typed .pyx kernels instead of the compiled ones."""

    def __enter__(self):
        import photutils.aperture.circle as pc
        import photutils.aperture.ellipse as pe
        import photutils.aperture.rectangle as pr
        self.mods = (pc, pe, pr)
        self.saved = (pc.circular_overlap_grid, pe.elliptical_overlap_grid, pr.rectangular_overlap_grid)
        tw = _STATE['twin']
        pc.circular_overlap_grid = tw['circular']
        pe.elliptical_overlap_grid = tw['elliptical']
        pr.rectangular_overlap_grid = tw['rectangular']
        return self

    def __exit__(self, *exc):
        pc, pe, pr = self.mods
        pc.circular_overlap_grid, pe.elliptical_overlap_grid, pr.rectangular_overlap_grid = self.saved
        return False


def _judge_twin(case, aper, spec, methods):
    """Same aperture object, same reference, but the kernels executed are the de-typed .pyx sources."""
    if _STATE['twin'] is None:
        return
    outer, inner = _ref_shapes(spec)
    pos = np.atleast_2d(np.array(spec['positions'], dtype=float))
    bbs = aper._bbox
    for method, s in methods:
        s_eff = 1 if method == 'center' else (32 if (method == 'exact' and spec['fam'] == 'rect') else s)
        npx = sum(b.shape[0] * b.shape[1] for b in bbs)
        cost = npx * (s_eff * s_eff if not (method == 'exact' and spec['fam'] != 'rect') else 60)
        if spec['annulus']:
            cost *= 2
        if cost > 60_000:
            case.note('twin_skipped_too_costly')
            continue
        mech = _mech(spec, method, kernel='pyx_twin')
        with _TwinKernels():
            masks = aper.to_mask(method=method, subpixels=s)
        masks = masks if isinstance(masks, list) else [masks]
        for mk, (xc, yc) in zip(masks, pos):
            box = _box_tuple(mk.bbox)
            ex, ey = G.extents(*outer)
            _judge_weights(case, mk.data, box, spec, float(xc), float(yc), outer, inner, method, s, mech, ex, ey)
            _STATE['twin_masks'] += 1
            case.note('pyx_twin_masks_judged')


def _drain_contracts(case):
    """turn contract evaluations/failures accumulated since the last drain into case records."""
    for name, n in _STATE['contracts'].items():
        last = _STATE.setdefault('_drained', {}).get(name, 0)
        if n > last:
            case.note('contract_evals:' + name, n - last)
            case.nchecks += n - last
            _STATE['_drained'][name] = n
    fails, _STATE['contract_fail'] = _STATE['contract_fail'], []
    for name, detail in fails:
        mech = {'contract': name}
        mech.update(detail.pop('_mech', None) or {})
        case.check(False, 'contract:' + name, mech, **detail)


# ----------------------------------------------------------------------
# generator
# ----------------------------------------------------------------------
def _loguniform(rng, lo, hi):
    return float(math.exp(rng.uniform(math.log(lo), math.log(hi))))


def _theta(rng, kind=None):
    """(value passed to the constructor, radians as float, description)"""
    import astropy.units as u
    kind = kind or ['uniform', 'kpi4', 'kpi4_eps', 'zero', 'deg', 'deg_k45'][int(rng.integers(0, 6))]
    if kind == 'uniform':
        t = float(rng.uniform(-2 * math.pi, 2 * math.pi))
        return t, t, kind
    if kind == 'kpi4':
        t = float(int(rng.integers(-8, 9)) * math.pi / 4)
        return t, t, kind
    if kind == 'kpi4_eps':
        t = float(int(rng.integers(-8, 9)) * math.pi / 4 + float(rng.choice([-1, 1])) * 10 ** rng.uniform(-12, -9))
        return t, t, kind
    if kind == 'zero':
        return 0.0, 0.0, kind
    if kind == 'deg':
        d = float(rng.uniform(-360, 360))
        q = d * u.deg
        return q, float(q.to(u.radian).value), kind
    d = float(int(rng.integers(-8, 9)) * 45.0)
    q = d * u.deg
    return q, float(q.to(u.radian).value), 'deg_k45'


def _center(rng, kind, span=40.0):
    if kind == 'generic':
        return float(rng.uniform(-5, span)), float(rng.uniform(-5, span))
    if kind == 'integer':
        return float(rng.integers(-3, int(span))), float(rng.integers(-3, int(span)))
    if kind == 'half':
        return float(rng.integers(-3, int(span))) + 0.5, float(rng.integers(-3, int(span))) + 0.5
    if kind == 'mixed':
        return (float(rng.integers(-3, int(span))) + float(rng.choice([0.0, 0.5, 0.25])),
                float(rng.uniform(-3, span)))
    if kind == 'near':
        def one():
            base = float(rng.integers(-3, int(span))) + float(rng.choice([0.0, 0.5]))
            return base + float(rng.choice([-1, 1])) * 10 ** float(rng.uniform(-12, -9))
        return one(), one()
    if kind == 'far':
        def one():
            m = float(rng.choice([-1, 1])) * 10 ** float(rng.uniform(3, 6))
            return float(np.round(m) + rng.choice([0.0, 0.5, float(rng.uniform(0, 1))]))
        if rng.random() < 0.3:
            return one(), float(rng.uniform(-5, span))
        return one(), one()
    raise ValueError(kind)


_SIZE = {'tiny': (0.03, 0.5), 'small': (0.5, 5.0), 'medium': (5.0, 60.0), 'large': (60.0, 400.0)}


def _gen_spec(rng, cls, tier):
    """Return a spec dict describing aperture class, parameters, positions, method."""
    fam = ['circle', 'ellipse', 'rect'][int(rng.integers(0, 3))]
    annulus = bool(rng.random() < 0.4)
    ckind = 'generic'
    size_cls = ['tiny', 'small', 'small', 'medium'][int(rng.integers(0, 4))]
    tkind = None
    ratio = float(rng.uniform(0.2, 1.0))            # axis ratio b/a, h/w
    if cls == 'generic':
        ckind = ['generic', 'generic', 'mixed'][int(rng.integers(0, 3))]
    elif cls == 'lattice':
        ckind = ['integer', 'half', 'mixed'][int(rng.integers(0, 3))]
    elif cls == 'near_lattice':
        ckind = 'near'
    elif cls == 'far':
        ckind = 'far'
    elif cls == 'tiny':
        size_cls = 'tiny'
    elif cls == 'large':
        size_cls = 'large'
    elif cls == 'corner':
        fam = 'circle'
    elif cls == 'tangent':
        fam = ['circle', 'ellipse', 'ellipse', 'rect'][int(rng.integers(0, 4))]
        size_cls = ['tiny', 'tiny', 'small', 'small', 'medium'][int(rng.integers(0, 5))]
    elif cls == 'vertex':
        fam = 'ellipse'
    elif cls == 'needle':
        fam = ['ellipse', 'rect'][int(rng.integers(0, 2))]
        ratio = _loguniform(rng, 0.02, 0.2)
    elif cls == 'angles':
        fam = ['ellipse', 'rect'][int(rng.integers(0, 2))]
        tkind = ['kpi4', 'kpi4_eps', 'deg', 'deg_k45', 'zero'][int(rng.integers(0, 5))]
    elif cls == 'thin_annulus':
        annulus = True
    elif cls == 'inplace':
        size_cls = ['tiny', 'small', 'small'][int(rng.integers(0, 3))]
        ckind = ['generic', 'integer', 'half', 'mixed'][int(rng.integers(0, 4))]
    elif cls in ('multi', 'reassign', 'image_ops'):
        size_cls = ['tiny', 'small', 'small', 'medium'][int(rng.integers(0, 4))]
        ckind = ['generic', 'integer', 'half', 'mixed'][int(rng.integers(0, 4))]

    lo, hi = _SIZE[size_cls]
    if size_cls == 'large' and tier != 'thorough':
        hi = 150.0
    if size_cls == 'medium' and cls in ('multi', 'image_ops', 'reassign'):
        hi = 20.0
    size = _loguniform(rng, lo, hi)                  # r / a / w/2
    if cls == 'lattice':
        # dyadic sizes -> exact arithmetic in the box computation, exact sample ties
        size = max(0.125, round(size * 8) / 8.0)
        ratio = float(rng.choice([0.25, 0.5, 0.75, 1.0]))
        if tkind is None:
            tkind = ['zero', 'zero', 'kpi4', 'deg_k45'][int(rng.integers(0, 4))]
    theta_arg, theta, tdesc = _theta(rng, tkind)
    if fam == 'circle':
        theta_arg, theta, tdesc = 0.0, 0.0, 'n/a'
    minor = max(size * ratio, 0.03 * 0.02) if fam != 'circle' else size
    if cls == 'lattice' and fam != 'circle':
        minor = size * ratio
    # annulus ratio
    if annulus:
        if cls == 'thin_annulus':
            ar = float(rng.choice([0.9, 0.99, 0.999, float(rng.uniform(0.9, 0.999))]))
        elif cls == 'lattice':
            ar = float(rng.choice([0.25, 0.5, 0.75]))
        else:
            ar = float(rng.uniform(0.1, 0.95))
    else:
        ar = None

    xc, yc = _center(rng, ckind)
    special = None
    if cls == 'corner':
        # circle through a pixel corner (outer radius; for the annulus sometimes the inner one)
        i, j = int(rng.integers(-6, 7)), int(rng.integers(-6, 7))
        xc, yc = _center(rng, ['generic', 'integer', 'half'][int(rng.integers(0, 3))], span=12)
        cx, cy = math.floor(xc) + i + 0.5, math.floor(yc) + j + 0.5
        size = math.hypot(cx - xc, cy - yc)
        if size < 0.03:
            size = math.hypot(cx + 1 - xc, cy - yc)
        minor = size
        special = 'outer'
        if annulus and rng.random() < 0.4:
            special = 'inner'                          # inner circle through the corner
    elif cls == 'vertex':
        # a pixel corner (almost) on the ellipse: centre = corner - boundary point (+ tiny offset)
        phi = float(rng.uniform(0, 2 * math.pi))
        if rng.random() < 0.3:
            phi = float(int(rng.integers(0, 8)) * math.pi / 4)
        ct, st = math.cos(theta), math.sin(theta)
        bx, by = size * math.cos(phi), minor * math.sin(phi)
        px, py = bx * ct - by * st, bx * st + by * ct
        cx, cy = float(rng.integers(0, 30)) + 0.5, float(rng.integers(0, 30)) + 0.5
        off = float(rng.choice([0.0, 1e-12, -1e-12, 1e-10, -1e-10, 3e-11, 1e-9]))
        xc, yc = cx - px * (1 + off), cy - py * (1 + off)
        special = f'off={off:g}'

    spec = {'fam': fam, 'annulus': annulus, 'theta_arg': theta_arg, 'theta': theta, 'tdesc': tdesc,
            'ckind': ckind, 'special': special}
    if fam == 'circle':
        if annulus:
            if special == 'inner':
                r_in = size
                r_out = size / ar
            else:
                r_out, r_in = size, size * ar
            spec['prm'] = {'r_in': r_in, 'r_out': r_out}
        else:
            spec['prm'] = {'r': size}
    elif fam == 'ellipse':
        if annulus:
            a_out, b_out = size, minor
            a_in = a_out * ar
            b_in = None
            if rng.random() < 0.4:
                spec['explicit_inner'] = True
                b_in = b_out * float(rng.uniform(0.1, 0.95)) if cls != 'lattice' else b_out * 0.5
            spec['prm'] = {'a_in': a_in, 'a_out': a_out, 'b_out': b_out, 'b_in': b_in}
        else:
            spec['prm'] = {'a': size, 'b': minor}
    else:
        w, h = 2 * size, 2 * minor
        if rng.random() < 0.3:
            w, h = h, w
        if annulus:
            w_in = w * ar
            h_in = None
            if rng.random() < 0.4:
                spec['explicit_inner'] = True
                h_in = h * float(rng.uniform(0.1, 0.95)) if cls != 'lattice' else h * 0.5
            spec['prm'] = {'w_in': w_in, 'w_out': w, 'h_out': h, 'h_in': h_in}
        else:
            spec['prm'] = {'w': w, 'h': h}
    if cls == 'tangent':
        # the shape (or the hole of an annulus) touches a pixel-edge line: xc -/+ ex is a half-integer (same for y with
        # probability 1/2); ellipses sometimes touch a pixel diagonal instead.  Any size, any rotation.
        o_, i_ = _ref_shapes(spec)
        tgt = i_ if (i_ is not None and rng.random() < 0.3) else o_
        ex_, ey_ = G.extents(*tgt)
        if tgt[0] == 'ellipse' and rng.random() < 0.25:
            q_ = tgt[1]
            ct, st = math.cos(q_['theta']), math.sin(q_['theta'])
            n_ = (math.sqrt(0.5), -math.sqrt(0.5))
            h_ = math.hypot(q_['a'] * (n_[0] * ct + n_[1] * st), q_['b'] * (-n_[0] * st + n_[1] * ct))
            p0 = (float(rng.integers(0, 25)) - 0.5, float(rng.integers(0, 25)) - 0.5)
            t_ = float(rng.uniform(-1.5, 1.5)) * max(1.0, ex_)
            sg = float(rng.choice([-1, 1]))
            xc = p0[0] + t_ * math.sqrt(0.5) + sg * h_ * n_[0]
            yc = p0[1] + t_ * math.sqrt(0.5) + sg * h_ * n_[1]
            special = 'diagonal'
        else:
            sg = float(rng.choice([-1, 1]))
            xc = (float(rng.integers(0, 25)) + 0.5) - sg * ex_
            special = 'x'
            if rng.random() < 0.5:
                sg = float(rng.choice([-1, 1]))
                yc = (float(rng.integers(0, 25)) + 0.5) - sg * ey_
                special = 'xy'
            if rng.random() < 0.2:
                xc, yc = yc, xc
                special += '-swapped'
        spec['special'] = special
    # positions
    npos = 0                                            # scalar
    if cls == 'multi' or rng.random() < 0.2:
        npos = int(rng.integers(1, 6))
    if cls == 'inplace':
        npos = int(rng.integers(2, 6))
    if npos == 0:
        spec['positions'] = [xc, yc]
    else:
        pts = [[xc, yc]]
        for _ in range(npos - 1):
            ck = ckind if ckind != 'far' or rng.random() < 0.5 else 'generic'
            pts.append(list(_center(rng, ck)))
        spec['positions'] = pts
    spec['npos'] = npos
    # method
    m = ['exact', 'center', 'subpixel'][int(rng.integers(0, 3))]
    s = int(rng.choice([1, 2, 3, 4, 5, 7, 8, 10, 16, 31, 32])) if m == 'subpixel' else int(rng.integers(1, 12))
    if size_cls == 'large':
        s = min(s, 8)
    spec['method'], spec['subpixels'] = m, s
    return spec


def _ref_shapes(spec):
    """(outer, inner) as (kind, params) for the reference; inner None if no annulus."""
    p, t = spec['prm'], spec['theta']
    if spec['fam'] == 'circle':
        if spec['annulus']:
            return ('circle', {'r': p['r_out']}), ('circle', {'r': p['r_in']})
        return ('circle', {'r': p['r']}), None
    if spec['fam'] == 'ellipse':
        if spec['annulus']:
            b_in = p['b_in'] if p['b_in'] is not None else p['b_out'] * p['a_in'] / p['a_out']
            return (('ellipse', {'a': p['a_out'], 'b': p['b_out'], 'theta': t}),
                    ('ellipse', {'a': p['a_in'], 'b': b_in, 'theta': t}))
        return ('ellipse', {'a': p['a'], 'b': p['b'], 'theta': t}), None
    if spec['annulus']:
        h_in = p['h_in'] if p['h_in'] is not None else p['w_in'] * p['h_out'] / p['w_out']
        return (('rect', {'w': p['w_out'], 'h': p['h_out'], 'theta': t}),
                ('rect', {'w': p['w_in'], 'h': h_in, 'theta': t}))
    return ('rect', {'w': p['w'], 'h': p['h'], 'theta': t}), None


def _ref_area(outer, inner):
    def one(sh):
        k, q = sh
        if k == 'circle':
            return math.pi * q['r'] * q['r']
        if k == 'ellipse':
            return math.pi * q['a'] * q['b']
        return q['w'] * q['h']
    return one(outer) - (one(inner) if inner is not None else 0.0)


def _pos_form(form, pos):
    """positions (float ndarray, shape (2,) or (N, 2)) in the drawn call form."""
    if form is None or form == 'float_array':
        return np.array(pos, dtype=float)
    if pos.ndim == 1:
        x, y = float(pos[0]), float(pos[1])
        return {'tuple': (x, y), 'list': [x, y], 'list_of_numpy_scalars': [np.float64(x), np.float64(y)],
                'int_array': np.array([int(x), int(y)]), 'int_tuple': (int(x), int(y)),
                'float32_array': np.array([x, y], dtype=np.float32),
                'bigendian_array': np.array([x, y], dtype='>f8'),
                'strided_view': np.array([x, -1.0, y, -1.0])[::2]}[form]
    if form == 'list_of_tuples':
        return [(float(a), float(b)) for a, b in pos]
    if form == 'tuple_of_tuples':
        return tuple((float(a), float(b)) for a, b in pos)
    if form == 'list_of_lists':
        return [[float(a), float(b)] for a, b in pos]
    if form == 'zip':
        return zip([float(a) for a in pos[:, 0]], [float(b) for b in pos[:, 1]])
    if form == 'int_array':
        return np.array(pos).astype(np.int64)
    if form == 'float32_array':
        return np.array(pos, dtype=np.float32)
    if form == 'bigendian_array':
        return np.array(pos, dtype='>f8')
    if form == 'fortran_array':
        return np.asfortranarray(np.array(pos, dtype=float))
    if form == 'transposed_view':
        return np.array([pos[:, 0], pos[:, 1]], dtype=float).T
    if form == 'strided_view':
        big = np.full((2 * len(pos), 4), -7.0)
        big[::2, 1:3] = pos
        return big[::2, 1:3]
    raise ValueError(form)


def _scalar_form(form, v):
    if v is None or form is None or form == 'float':
        return v
    return {'np.float64': np.float64, 'np.float32': np.float32, 'int': int, 'np.int64': np.int64}[form](v)


def _theta_form(form, theta):
    import astropy.units as u
    from astropy.coordinates import Angle
    if form == 'np.float64':
        return np.float64(theta)
    if form == 'int':
        return int(theta)
    if form == 'np.int64':
        return np.int64(theta)
    if form == 'np.float32':
        return np.float32(theta)
    if form == 'quantity_rad':
        return theta * u.rad
    if form == 'quantity_deg':
        return (theta * u.rad).to(u.deg)
    if form == 'quantity_arcmin':
        return (theta * u.rad).to(u.arcmin)
    if form == 'angle_deg':
        return Angle((theta * u.rad).to(u.deg))
    if form == 'angle_hourangle':
        return Angle((theta * u.rad).to(u.hourangle))
    raise ValueError(form)


def _build(spec, positions=None):
    from photutils import aperture as A
    forms = spec.get('forms') or {}
    sf = forms.get('scalars')
    p = {k: _scalar_form(sf, v) for k, v in spec['prm'].items()}
    if positions is None:
        pos = _pos_form(forms.get('positions'), np.array(spec['positions'], dtype=float))
    else:
        pos = np.array(positions, dtype=float)
    positional = bool(forms.get('positional'))
    th = spec['theta_arg']
    fam, ann = spec['fam'], spec['annulus']
    if fam == 'circle':
        if ann:
            return A.CircularAnnulus(pos, p['r_in'], p['r_out']) if positional else \
                A.CircularAnnulus(positions=pos, r_in=p['r_in'], r_out=p['r_out'])
        return A.CircularAperture(pos, p['r']) if positional else A.CircularAperture(positions=pos, r=p['r'])
    if fam == 'ellipse':
        if ann:
            if positional:
                return A.EllipticalAnnulus(pos, p['a_in'], p['a_out'], p['b_out'], p['b_in'], th)
            return A.EllipticalAnnulus(pos, a_in=p['a_in'], a_out=p['a_out'], b_out=p['b_out'], b_in=p['b_in'],
                                       theta=th)
        return A.EllipticalAperture(pos, p['a'], p['b'], th) if positional else \
            A.EllipticalAperture(pos, a=p['a'], b=p['b'], theta=th)
    if ann:
        if positional:
            return A.RectangularAnnulus(pos, p['w_in'], p['w_out'], p['h_out'], p['h_in'], th)
        return A.RectangularAnnulus(pos, w_in=p['w_in'], w_out=p['w_out'], h_out=p['h_out'], h_in=p['h_in'], theta=th)
    return A.RectangularAperture(pos, p['w'], p['h'], th) if positional else \
        A.RectangularAperture(pos, w=p['w'], h=p['h'], theta=th)


def _draw_axes(case, spec, cls):
    """GENERIC AXES drawn independently of the generator class (tools/generic_axes.txt): coordinate magnitude, call
    form of every argument, array layout/dtype of positions, shapes much smaller than a pixel on a pixel edge/corner.
    The spec keeps the VALUES the library receives (after float32 / integer conversion) so that the reference judges
    the shape that was actually requested.  About half of the cases stay plain."""
    import astropy.units as u
    rng = case.rng
    forms = {}
    plain = True
    special = cls in ('corner', 'tangent', 'vertex', 'lattice', 'near_lattice')
    # (vi) degenerate: shape much smaller than a pixel sitting on a pixel edge / corner
    if rng.random() < (0.02 if special else 0.05):
        plain = False
        big = max(v for v in spec['prm'].values() if v is not None)
        f = _loguniform(rng, 0.01, 0.3) / big
        spec['prm'] = {k: (None if v is None else v * f) for k, v in spec['prm'].items()}
        where = ['edge_x', 'edge_y', 'corner'][int(rng.integers(0, 3))]

        def on_edge():
            off = float(rng.choice([0.0, 0.0, 1e-12, -1e-12, 1e-9, -1e-9, big * f, -big * f, 0.5 * big * f]))
            return float(rng.integers(-3, 30)) + 0.5 + off
        pts = np.atleast_2d(np.array(spec['positions'], dtype=float))
        for row in pts:
            if where in ('edge_x', 'corner'):
                row[0] = on_edge()
            if where in ('edge_y', 'corner'):
                row[1] = on_edge()
        spec['positions'] = pts.tolist() if spec['npos'] else pts[0].tolist()
        spec['special'] = f'sub-pixel shape on pixel {where}'
        case.note('axis:degenerate:subpixel_shape_on_pixel_' + where)
    # (ix) exact half-integer / parity: centres exactly at k or k + 0.5 (even and odd k), and - for unrotated shapes -
    # sizes such that the shape's edges fall exactly on pixel boundaries (box arithmetic exact -> zero tie band)
    if not special and rng.random() < 0.08:
        plain = False
        pts = np.atleast_2d(np.array(spec['positions'], dtype=float))
        half = bool(rng.random() < 0.5)
        for row in pts:
            for j in (0, 1):
                k_ = int(rng.integers(-4, 40))
                row[j] = k_ + (0.5 if half else 0.0)
                case.note('axis2_ix:centre_%s_%s' % ('half' if half else 'integer', 'even' if k_ % 2 == 0 else 'odd'))
        spec['positions'] = pts.tolist() if spec['npos'] else pts[0].tolist()
        if rng.random() < 0.6:
            # edges on pixel boundaries: half-extent m + 0.5 for integer centres, m for half-integer centres
            def ext(v, inner=False):
                m_ = max(1, int(round(v))) if not inner else max(1, int(v))
                return float(m_) if half else m_ + 0.5
            pr = spec['prm']
            if spec['fam'] == 'circle':
                if spec['annulus']:
                    pr['r_out'] = ext(pr['r_out']) + 1.0
                    pr['r_in'] = min(ext(pr['r_in'], True), pr['r_out'] - 1.0)
                else:
                    pr['r'] = ext(pr['r'])
            elif spec['fam'] == 'ellipse':
                if spec['annulus']:
                    pr['a_out'], pr['b_out'] = ext(pr['a_out']) + 1.0, ext(pr['b_out'])
                    pr['b_out'] = min(pr['b_out'], pr['a_out'])
                    pr['a_in'] = min(ext(pr['a_in'], True), pr['a_out'] - 1.0)
                    pr['b_in'] = None
                else:
                    pr['a'] = ext(pr['a'])
                    pr['b'] = min(ext(pr['b']), pr['a'])
            else:
                if spec['annulus']:
                    pr['w_out'], pr['h_out'] = 2 * ext(pr['w_out'] / 2) + 2.0, 2 * ext(pr['h_out'] / 2)
                    pr['w_in'] = min(2 * ext(pr['w_in'] / 2, True), pr['w_out'] - 2.0)
                    pr['h_in'] = None
                else:
                    pr['w'], pr['h'] = 2 * ext(pr['w'] / 2), 2 * ext(pr['h'] / 2)
            if spec['fam'] != 'circle':
                spec['theta_arg'], spec['theta'], spec['tdesc'] = 0.0, 0.0, 'zero'
            spec['explicit_inner'] = False
            case.note('axis2_ix:edges_exactly_on_pixel_boundaries')
    # (i) coordinate magnitude: far from the origin / negative, float64 still resolves sub-pixel offsets
    if rng.random() < (0.05 if special else 0.12):
        plain = False
        pts = np.atleast_2d(np.array(spec['positions'], dtype=float))
        k = [float(rng.choice([-1, 1])) * float(np.round(10 ** float(rng.uniform(6, 9)))) for _ in range(2)]
        if rng.random() < 0.3:
            k[int(rng.integers(0, 2))] = 0.0
        pts = pts + np.array(k)
        spec['positions'] = pts.tolist() if spec['npos'] else pts[0].tolist()
        case.note('axis:magnitude:positions_1e6_to_1e9')
        if min(k) < 0:
            case.note('axis:magnitude:negative_positions')
    # (ii) call form of the shape scalars
    if rng.random() < 0.15:
        vals = [v for v in spec['prm'].values() if v is not None]
        form = ['np.float64', 'np.float32', 'int', 'np.int64'][int(rng.integers(0, 4))]
        if form in ('int', 'np.int64'):
            new = {k_: (None if v is None else float(max(1, round(v)))) for k_, v in spec['prm'].items()}
            ok = min(vals) >= 0.6
            for lo_, hi_ in (('r_in', 'r_out'), ('a_in', 'a_out'), ('b_in', 'b_out'), ('w_in', 'w_out'),
                             ('h_in', 'h_out')):
                if lo_ in new and hi_ in new and new[lo_] is not None and not new[lo_] < new[hi_]:
                    ok = False
            if 'a' in new and new['b'] > new['a']:
                ok = False
            if ok and not special:
                spec['prm'] = new
                forms['scalars'] = form
        elif form == 'np.float32':
            new = {k_: (None if v is None else float(np.float32(v))) for k_, v in spec['prm'].items()}
            ok = True
            for lo_, hi_ in (('r_in', 'r_out'), ('a_in', 'a_out'), ('b_in', 'b_out'), ('w_in', 'w_out'),
                             ('h_in', 'h_out')):
                if lo_ in new and hi_ in new and new[lo_] is not None and not new[lo_] < new[hi_]:
                    ok = False
            if ok:
                spec['prm'] = new
                forms['scalars'] = form
        else:
            forms['scalars'] = form
        if 'scalars' in forms:
            plain = False
            case.note('axis:call_form:scalars:' + forms['scalars'])
    # (ii) call form of theta
    if spec['fam'] != 'circle' and rng.random() < 0.2:
        form = ['np.float64', 'np.float32', 'int', 'np.int64', 'quantity_rad', 'quantity_deg', 'quantity_arcmin',
                'angle_deg', 'angle_hourangle'][int(rng.integers(0, 9))]
        th = spec['theta']
        if form in ('int', 'np.int64'):
            th = float(int(rng.integers(-6, 7)))
            if special:
                form = 'np.float64'
                th = spec['theta']
        arg = _theta_form(form, th)
        spec['theta_arg'] = arg
        spec['theta'] = float(arg.to_value(u.rad)) if hasattr(arg, 'unit') else float(arg)
        spec['tdesc'] = form
        forms['theta'] = form
        plain = False
        case.note('axis:call_form:theta:' + form)
    # (ii)/(iii) call form, dtype and memory layout of positions
    if rng.random() < 0.2:
        pts = np.array(spec['positions'], dtype=float)
        if pts.ndim == 1:
            form = ['tuple', 'list', 'list_of_numpy_scalars', 'int_array', 'int_tuple', 'float32_array',
                    'bigendian_array', 'strided_view'][int(rng.integers(0, 8))]
        else:
            form = ['list_of_tuples', 'tuple_of_tuples', 'list_of_lists', 'zip', 'int_array', 'float32_array',
                    'bigendian_array', 'fortran_array', 'transposed_view', 'strided_view'][int(rng.integers(0, 10))]
        if form.startswith('int'):
            pts = np.round(pts)
        elif form == 'float32_array':
            pts = pts.astype(np.float32).astype(float)
        spec['positions'] = pts.tolist()
        forms['positions'] = form
        plain = False
        case.note('axis:call_form:positions:' + form)
    if rng.random() < 0.08:
        forms['positional'] = True
        plain = False
        case.note('axis:call_form:positional_arguments')
    spec['forms'] = forms
    case.note('axis:plain_case' if plain else 'axis:some_axis_drawn')
    # (v) option combinations actually occurring together
    combo = [spec['method']]
    if spec['annulus']:
        combo.append('annulus_explicit_inner' if spec.get('explicit_inner') else 'annulus')
    if spec['npos']:
        combo.append('multi')
    if len(combo) >= 3:
        case.note('axis:options:' + '+'.join(combo))
    return spec


def _spec_params(spec):
    return {'fam': spec['fam'], 'annulus': spec['annulus'],
            'prm': {k: v for k, v in spec['prm'].items()},
            'theta': spec['theta'], 'tdesc': spec['tdesc'], 'positions': spec['positions'],
            'method': spec['method'], 'subpixels': spec['subpixels'], 'special': spec['special']}


# ----------------------------------------------------------------------
# oracles
# ----------------------------------------------------------------------
def _box_tuple(b):
    return (int(b.ixmin), int(b.ixmax), int(b.iymin), int(b.iymax))


def _exact_arith(spec, xc, yc):
    """True when the box computation is exact in IEEE arithmetic (dyadic inputs, no trigonometry rounding)."""
    vals = [xc, yc]
    fam, p = spec['fam'], spec['prm']
    if fam == 'circle':
        vals.append(p['r_out'] if spec['annulus'] else p['r'])
    else:
        if spec['theta'] != 0.0:
            return False
        if fam == 'ellipse':
            vals += [p['a_out'], p['b_out']] if spec['annulus'] else [p['a'], p['b']]
        else:
            vals += [p['w_out'] / 2, p['h_out'] / 2] if spec['annulus'] else [p['w'] / 2, p['h'] / 2]
    return all(G.is_dyadic(v, bits=10, limit=2.0 ** 14) for v in vals[2:]) and \
        all(G.is_dyadic(v, bits=10, limit=2.0 ** 30) for v in vals[:2])


def _judge_bbox(case, box, spec, xc, yc, outer, mech, what='bbox_smallest_containing_box'):
    ex, ey = G.extents(*outer)
    exact = _exact_arith(spec, xc, yc)
    eps = 0.0 if exact else TIE_EPS + 8 * max(math.ulp(abs(xc) + ex), math.ulp(abs(yc) + ey))
    adm = G.bbox_admissible(xc, yc, ex, ey, eps)
    ok = all(v in s for v, s in zip(box, adm))
    case.note('bbox_exact_arith' if exact else 'bbox_tie_band')
    if any(len(s) > 1 for s in adm):
        case.note('bbox_within_tie_band')
    m = dict(mech)
    m['exact_arith'] = exact
    case.check(ok, what, m, obs=list(box), admissible=[sorted(s) for s in adm], xc=xc, yc=yc, ex=ex, ey=ey)
    return ex, ey, eps


def _kernel_special_flags(xs, ys, shapes):
    """Structural facts about the configurations the elliptical kernel treats specially (its own tolerance is
    |d^2-1| < 1e-10 in the frame where the ellipse is the unit circle):
    corner_on_ellipse        a pixel corner P lies on the ellipse within that tolerance;
    chord_edge_at_on_corner  a pixel edge or splitting-diagonal edge (the kernel cuts each pixel along
                             (xmin,ymin)-(xmax,ymax)) from such a corner heads into the disk while its other end Q is
                             outside, i.e. the triangle edge P->Q is a chord of the ellipse;
    edge_tangent_to_ellipse  a pixel-edge line or a splitting diagonal is tangent to the ellipse within the same
                             tolerance (the kernel then finds a 'chord' whose midpoint is a vertex on the circle).
    xs, ys: 1-D corner coordinates relative to the centre; shapes: list of (a, b, theta)."""
    on_any = secant_any = tangent_any = near_any = False
    xs = np.asarray(xs, float)
    ys = np.asarray(ys, float)
    X, Y = np.meshgrid(xs, ys)
    for a, b, th in shapes:
        ux, uy = G._to_unit(X, Y, a, b, th)
        d2 = ux * ux + uy * uy
        on = np.abs(d2 - 1.0) < 1.2e-10
        if np.any((np.abs(d2 - 1.0) < NEAR_CORNER_BAND) & ~on):
            near_any = True
        if on.any():
            on_any = True
            for j, i in np.argwhere(on):
                for dj, di in ((0, 1), (0, -1), (1, 0), (-1, 0), (1, 1), (-1, -1)):
                    jj, ii = j + dj, i + di
                    if 0 <= jj < d2.shape[0] and 0 <= ii < d2.shape[1]:
                        dot = ux[j, i] * (ux[jj, ii] - ux[j, i]) + uy[j, i] * (uy[jj, ii] - uy[j, i])
                        if dot < 0 and d2[jj, ii] > 1.0 + 1.2e-10:
                            secant_any = True
        ex, ey = G.extents('ellipse', {'a': a, 'b': b, 'theta': th})
        ct, st = math.cos(th), math.sin(th)
        nx_, ny_ = math.sqrt(0.5), -math.sqrt(0.5)
        hd = math.hypot(a * (nx_ * ct + ny_ * st), b * (-nx_ * st + ny_ * ct))
        dd = (X - Y) * math.sqrt(0.5)
        tol = 1.2e-10
        if (np.any(np.abs(np.abs(xs) / ex - 1.0) < tol) or np.any(np.abs(np.abs(ys) / ey - 1.0) < tol)
                or np.any(np.abs(np.abs(dd) / hd - 1.0) < tol)):
            tangent_any = True
    return {'corner_on_ellipse': bool(on_any), 'chord_edge_at_on_corner': bool(secant_any),
            'edge_tangent_to_ellipse': bool(tangent_any), 'corner_near_ellipse': bool(near_any)}


def _judge_weights(case, data, box, spec, xc, yc, outer, inner, method, s, mech, ex, ey):
    """weights of one mask against the reference; returns nontrivial flag."""
    ny, nx = box[3] - box[2], box[1] - box[0]
    if not case.check(data.shape == (ny, nx) and data.dtype.kind == 'f', 'mask_shape_is_bbox_shape', mech,
                      shape=list(data.shape), box=list(box)):
        return False
    if data.size > 900_000:
        case.note('mask_too_large_for_reference')
        return False
    fam = spec['fam']
    fkey = fam + ('_annulus' if inner is not None else '')
    if spec.get('_mech_extra'):
        fkey += '@inplace_history'      # keeps stale-cache findings out of the audit of the plain tolerances
    area = _ref_area(outer, inner)
    nontriv = False
    if method == 'exact' and fam in ('circle', 'ellipse'):
        def fr(sh):
            k, q = sh
            if k == 'circle':
                return G.exact_fractions(box, xc, yc, q['r'])
            return G.exact_fractions(box, xc, yc, q['a'], q['b'], q['theta'])
        ref, st = fr(outer)
        if inner is not None:
            ri, _ = fr(inner)
            ref = ref - ri
        atol = _exact_atol(max(ex, ey))
        if fam == 'ellipse':
            shp = [(sh[1]['a'], sh[1]['b'], sh[1]['theta']) for sh in (outer, inner) if sh is not None]
            fl = _kernel_special_flags(np.arange(box[0], box[1] + 1) - 0.5 - xc,
                                       np.arange(box[2], box[3] + 1) - 0.5 - yc, shp)
            mech = dict(mech, **fl)
            if fl['chord_edge_at_on_corner'] or fl['edge_tangent_to_ellipse']:
                fkey += '+corner_on_boundary_with_chord_or_tangent_edge(known defect)'
            elif fl['corner_on_ellipse']:
                fkey += '+corner_on_boundary_no_chord'
            elif fl['corner_near_ellipse']:
                fkey += '+corner_within_1e-6_of_boundary'
            if fl['corner_near_ellipse']:
                atol += NEAR_CORNER_ATOL * sum(max(1.0, a_ * b_) for a_, b_, _t in shp)
            if fl['corner_on_ellipse']:
                # the kernel deliberately treats a vertex with |d^2-1| < 1e-10 (unit frame) as lying on the circle:
                # the boundary is displaced by <= 5e-11 along an edge of unit-frame length ~1/b, i.e. by up to
                # ~1e-10 * a of a pixel (measured 1.0e-9 at a = 47.6); judged with 100x that
                atol += ON_CORNER_ATOL * sum(max(1.0, a_, b_) for a_, b_, _t in shp)
            for k_, v_ in fl.items():
                if v_:
                    case.note('ellipse_exact_masks:' + k_)
        d = float(np.abs(data - ref).max()) if data.size else 0.0
        case.dev('exact_weight_absdev:' + fkey, d)
        if d > atol:
            j, i = np.unravel_index(int(np.argmax(np.abs(data - ref))), data.shape)
            case.check(False, 'exact_weight_equals_overlap_fraction', mech, dev=d, pixel=[int(j), int(i)],
                       obs=float(data[j, i]), exp=float(ref[j, i]), box=list(box), atol=atol)
        else:
            case.check(True, 'exact_weight_equals_overlap_fraction', mech)
        case.check(bool(data.min() >= -atol and data.max() <= 1 + atol), 'weights_in_unit_interval', mech,
                   min=float(data.min()), max=float(data.max()), atol=atol)
        # sum = analytic area (box contains the shape by construction of the oracle's own box; only demanded
        # when the observed box contains the true extent)
        contains = (box[0] - 0.5 <= xc - ex + TIE_EPS and box[1] - 0.5 >= xc + ex - TIE_EPS
                    and box[2] - 0.5 <= yc - ey + TIE_EPS and box[3] - 0.5 >= yc + ey - TIE_EPS)
        nb = int(np.sum((data > 0) & (data < 1)))
        tol = 1e-9 * area + 1e-10 * max(nb, 1) + (4 * atol if atol > EXACT_ATOL else 0.0)
        sd = abs(float(data.sum()) - area)
        case.dev('sum_vs_area_reldev:' + fkey, sd / area)
        case.check(sd <= tol, 'weights_sum_to_analytic_area', dict(mech, box_contains_shape=bool(contains)),
                   sum=float(data.sum()), area=area, tol=tol)
        # minimality, semantic: an outer row/column is empty only if the shape does not reach into it
        reach = {'left': (box[0] + 0.5) - (xc - ex), 'right': (xc + ex) - (box[1] - 1.5),
                 'bottom': (box[2] + 0.5) - (yc - ey), 'top': (yc + ey) - (box[3] - 1.5)}
        sums = {'left': data[:, 0].sum(), 'right': data[:, -1].sum(), 'bottom': data[0, :].sum(),
                'top': data[-1, :].sum()}
        for side, dlt in reach.items():
            if dlt > 1e-4:
                case.check(bool(sums[side] > 0), 'outer_row_or_column_not_empty', dict(mech, side=side),
                           reach=dlt, sum=float(sums[side]), box=list(box))
        nontriv = nb > 0
    else:
        # center / subpixel / rectangle exact (= 32x32 sub-sampling)
        if method == 'center':
            s_eff = 1
        elif method == 'exact':
            s_eff = 32
        else:
            s_eff = s
        eps_s = TIE_EPS + 4 * max(math.ulp(abs(xc)), math.ulp(abs(yc)))      # scales with the coordinate magnitude
        state = _state_for_sampling(box, xc, yc, outer, inner, eps_s)
        res = G.sampled_bounds(box, xc, yc, s_eff, outer, inner, eps=eps_s, state=state, max_points=12_000_000)
        if res is None:
            case.note('sampling_reference_too_large')
            return False
        lo, hi, ntie = res
        if ntie:
            case.note('sample_points_in_tie_band', ntie)
        slack = 1e-12
        bad = (data < lo - slack) | (data > hi + slack)
        mm = dict(mech, s_eff=s_eff)
        if bad.any():
            j, i = np.argwhere(bad)[0]
            case.check(False, 'sampled_weight_equals_fraction_of_centres', mm, nbad=int(bad.sum()),
                       pixel=[int(j), int(i)], obs=float(data[j, i]), lo=float(lo[j, i]), hi=float(hi[j, i]),
                       box=list(box))
        else:
            case.check(True, 'sampled_weight_equals_fraction_of_centres', mm)
        case.dev('sampled_weight_outside_interval', float(np.maximum(lo - data, data - hi).max()) if data.size else 0)
        case.check(bool(data.min() >= -slack and data.max() <= 1 + slack), 'weights_in_unit_interval', mech,
                   min=float(data.min()), max=float(data.max()))
        if method == 'exact':          # rectangles: documented 32x32 accuracy vs the true overlap
            def tf(sh):
                q = sh[1]
                return G.rect_exact_fractions(box, xc, yc, q['w'], q['h'], q['theta'])

            def un(sh, stt):
                q = sh[1]
                return G.rect_subsample_uncertain(box, xc, yc, q['w'], q['h'], q['theta'], 32, state=stt)
            true = tf(outer)
            unc = un(outer, G.rect_state(box, xc, yc, outer[1]['w'], outer[1]['h'], outer[1]['theta'], TIE_EPS))
            if inner is not None:
                true = true - tf(inner)
                unc = unc + un(inner, G.rect_state(box, xc, yc, inner[1]['w'], inner[1]['h'], inner[1]['theta'],
                                                   TIE_EPS))
            err = np.abs(data - true)
            bound = unc / 1024.0 + 1e-9
            case.dev('rect_exact_vs_true_overlap_absdev', float(err.max()))
            case.check(bool(np.all(err <= bound)), 'rect_exact_within_subsampling_bound', mech,
                       worst=float((err - bound).max()))
            case.check(abs(float(data.sum()) - area) <= float(unc.sum()) / 1024.0 + 1e-9 * max(area, 1.0),
                       'weights_sum_to_analytic_area', dict(mech, box_contains_shape=True),
                       sum=float(data.sum()), area=area, bound=float(unc.sum()) / 1024.0)
        if method == 'center':
            nontriv = bool((data == 0).any() and (data == 1).any())
        else:
            nontriv = bool(np.any((data > 0) & (data < 1)))
    return nontriv


def _state_for_sampling(box, xc, yc, outer, inner, eps=TIE_EPS):
    """+1 pixel entirely inside the (annular) shape, -1 entirely outside of it, 0 needs sampling.
    Only certain classifications (margin > tie band) are used."""
    def st(sh):
        k, q = sh
        if k == 'circle':
            _, s_ = G.exact_fractions(box, xc, yc, max(q['r'] * (1 - 4e-9) - 2 * eps, 1e-300))
            _, s2 = G.exact_fractions(box, xc, yc, q['r'] * (1 + 4e-9) + 2 * eps)
            return np.where(s_ == 1, 1, np.where(s2 == -1, -1, 0))
        if k == 'ellipse':
            _, s_ = G.exact_fractions(box, xc, yc, max(q['a'] * (1 - 4e-9) - 2 * eps, 1e-300),
                                      max(q['b'] * (1 - 4e-9) - 2 * eps, 1e-300), q['theta'])
            _, s2 = G.exact_fractions(box, xc, yc, q['a'] * (1 + 4e-9) + 2 * eps, q['b'] * (1 + 4e-9) + 2 * eps,
                                      q['theta'])
            return np.where(s_ == 1, 1, np.where(s2 == -1, -1, 0))
        return G.rect_state(box, xc, yc, q['w'], q['h'], q['theta'], 2 * eps)
    so = st(outer)
    if inner is None:
        return so
    si = st(inner)
    out = np.zeros_like(so)
    out[(so == 1) & (si == -1)] = 1
    out[(so == -1) | (si == 1)] = -1
    return out


def _judge_image_ops(case, mask, box, rng, mech, shapes):
    """overlap slices / to_image / cutout / multiply / get_values vs brute-force index sets."""
    data = np.array(mask.data, copy=True)
    ny, nx = data.shape
    for shape in shapes:
        ys, xs = G.common_pixels(box, shape)
        empty = not ys or not xs
        degenerate = shape[0] == 0 or shape[1] == 0
        if min(shape) == 1 and max(shape) > 1:
            case.note('axis:shape:1xN_or_Nx1')
        if min(shape) >= 1 and max(shape) >= 30 * min(shape):
            case.note('axis:shape:strongly_elongated')
        if empty and not degenerate:
            case.note('axis:degenerate:aperture_entirely_off_image')
        elif not degenerate and len(ys) * len(xs) < ny * nx:
            case.note('axis:degenerate:partial_overlap')
        sl, ss = mask.get_overlap_slices(shape)
        m = dict(mech, op='get_overlap_slices')
        if degenerate:
            case.note('zero_sized_image_either')
            ok = (sl is None) or (len(np.arange(shape[0])[sl[0]]) * len(np.arange(shape[1])[sl[1]]) == 0)
            case.check(ok, 'overlap_slices_select_common_pixels', m, shape=list(shape), box=list(box))
            continue
        if not case.check((sl is None) == empty and (ss is None) == empty, 'overlap_none_iff_no_common_pixel', m,
                          shape=list(shape), box=list(box), got=repr((sl, ss))):
            continue
        img = mask.to_image(shape)
        cut_data = rng.normal(size=shape)
        fill = [0.0, 0.0, -1.5, float('nan')][int(rng.integers(0, 4))]
        dt = None
        if rng.random() < 0.25:
            # (vii) narrow / unsigned / bool / huge-integer image dtypes: same numbers expected, nothing may wrap;
            # only the default fill value 0 is judged (a negative or NaN fill in an unsigned image: docs silent)
            dt = _IMAGE_DTYPES[int(rng.integers(0, len(_IMAGE_DTYPES)))]
            cut_data = _typed_image(rng, shape, dt)
            fill = 0.0
            case.note('axis2_vii:image_dtype:' + dt)
        cut = mask.cutout(cut_data, fill_value=fill)
        if empty:
            case.check(img is None, 'to_image_none_iff_no_overlap', dict(mech, op='to_image'), shape=list(shape))
            case.check(cut is None, 'cutout_none_iff_no_overlap', dict(mech, op='cutout'), shape=list(shape))
            case.check(mask.multiply(cut_data) is None, 'multiply_none_iff_no_overlap', dict(mech, op='multiply'))
            gv = mask.get_values(cut_data)
            case.check(isinstance(gv, np.ndarray) and gv.shape == (0,), 'get_values_empty_iff_no_overlap',
                       dict(mech, op='get_values'))
            continue
        sel_l = (list(np.arange(shape[0])[sl[0]]), list(np.arange(shape[1])[sl[1]]))
        sel_s = (list(np.arange(ny)[ss[0]]), list(np.arange(nx)[ss[1]]))
        exp_s = ([y - box[2] for y in ys], [x - box[0] for x in xs])
        case.check(sel_l == (ys, xs) and sel_s == exp_s, 'overlap_slices_select_common_pixels', m,
                   shape=list(shape), box=list(box), got=repr((sl, ss)))
        # to_image: zeros with the mask pasted at the common pixels
        exp_img = np.zeros(shape)
        for y in ys:
            for x in xs:
                exp_img[y, x] = data[y - box[2], x - box[0]]
        case.check(img is not None and core.exact(img, exp_img), 'to_image_is_mask_pasted_at_common_pixels',
                   dict(mech, op='to_image'), shape=list(shape), box=list(box))
        # cutout: box-shaped window on the data, fill outside
        exp_cut = np.full((ny, nx), fill, dtype=float)
        for y in ys:
            for x in xs:
                exp_cut[y - box[2], x - box[0]] = float(cut_data[y, x])
        okc = cut is not None and core.exact(np.asarray(cut, float), exp_cut)
        if okc and dt is not None:
            # the very same numbers, compared in the image's own dtype (no float64 rounding in the comparison)
            exp_nat = np.zeros((ny, nx), dtype=cut_data.dtype)
            for y in ys:
                for x in xs:
                    exp_nat[y - box[2], x - box[0]] = cut_data[y, x]
            okc = np.asarray(cut).dtype.kind == cut_data.dtype.kind and bool(np.array_equal(np.asarray(cut), exp_nat))
        case.check(okc, 'cutout_is_box_window_of_data',
                   dict(mech, op='cutout', fill=repr(fill), image_dtype=dt or 'float64'), shape=list(shape),
                   box=list(box), got_dtype=str(getattr(cut, 'dtype', None)))
        # multiply (fill 0: everywhere; other fill: documented only where the weight is non-zero)
        mul = mask.multiply(cut_data, fill_value=fill)
        exp_cut0 = np.where(np.isnan(exp_cut), np.nan, exp_cut)
        with np.errstate(invalid='ignore'):
            exp_mul = exp_cut0 * data
        if fill == 0.0:
            okm = mul is not None and core.exact(np.asarray(mul, float), np.where(data == 0, 0.0, exp_mul))
        else:
            sel = data != 0
            okm = mul is not None and mul.shape == data.shape and core.exact(np.asarray(mul, float)[sel], exp_mul[sel])
        case.check(okm, 'multiply_is_weighted_cutout', dict(mech, op='multiply', fill=repr(fill),
                                                            image_dtype=dt or 'float64'),
                   shape=list(shape), box=list(box), got_dtype=str(getattr(mul, 'dtype', None)))
        # get_values with and without a pixel mask
        pm = None
        if rng.random() < 0.5:
            pm = rng.random(shape) < 0.3
        gv = mask.get_values(cut_data, mask=pm)
        exp_v = [float(cut_data[y, x]) * data[y - box[2], x - box[0]] for y in ys for x in xs
                 if data[y - box[2], x - box[0]] > 0 and not (pm is not None and pm[y, x])]
        case.check(isinstance(gv, np.ndarray) and gv.ndim == 1 and core.exact(gv, np.array(exp_v, dtype=float)),
                   'get_values_are_weighted_unmasked_common_pixels',
                   dict(mech, op='get_values', pixmask=pm is not None, image_dtype=dt or 'float64'),
                   shape=list(shape), box=list(box), n_obs=int(np.size(gv)), n_exp=len(exp_v))
    # the calls above must not have changed the mask
    case.check(core.exact(mask.data, data), 'mask_data_unchanged_by_image_ops', mech)


_IMAGE_DTYPES = ['uint8', 'uint16', 'uint32', 'uint64', 'int8', 'int16', 'int64', 'bool', 'float32', 'float16']


def _typed_image(rng, shape, dt):
    if dt == 'bool':
        return rng.random(shape) < 0.5
    if dt in ('float32', 'float16'):
        return rng.normal(size=shape).astype(dt)
    info = np.iinfo(dt)
    if dt == 'uint64':
        a = rng.integers(2 ** 53, 2 ** 63, size=shape, dtype=np.uint64) * np.uint64(2) + np.uint64(1)
    elif dt == 'int64':
        a = rng.integers(-2 ** 62, 2 ** 62, size=shape, dtype=np.int64)
    else:
        a = rng.integers(info.min, int(info.max) + 1, size=shape, dtype=np.int64).astype(dt)
    r = rng.random(shape)
    a[r < 0.15] = info.max          # at the limits of the dtype
    a[r > 0.9] = info.min
    return a


_PLACEMENTS = [('left', 'neg', 'in'), ('right', 'pos', 'in'), ('bottom', 'in', 'neg'), ('top', 'in', 'pos'),
               ('bottom_left', 'neg', 'neg'), ('bottom_right', 'pos', 'neg'), ('top_left', 'neg', 'pos'),
               ('top_right', 'pos', 'pos'), ('inside', 'in', 'in'), ('flush_left', 'flush_lo', 'in'),
               ('flush_right', 'flush_hi', 'in'), ('flush_bottom', 'in', 'flush_lo'), ('flush_top', 'in', 'flush_hi'),
               ('touching_outside_left', 'out_lo', 'in'), ('touching_outside_right', 'out_hi', 'in'),
               ('touching_outside_bottom', 'in', 'out_lo'), ('touching_outside_top', 'in', 'out_hi')]


def _place(rng, mode, n, dim):
    """start index of a window of length n relative to an axis of length dim."""
    if mode == 'neg':
        return -int(rng.integers(1, n)) if n > 1 else -1
    if mode == 'pos':
        return dim - n + (int(rng.integers(1, n)) if n > 1 else 1)
    if mode == 'flush_lo':
        return 0
    if mode == 'flush_hi':
        return dim - n
    if mode == 'out_lo':
        return -n
    if mode == 'out_hi':
        return dim
    return int(rng.integers(0, dim - n + 1)) if dim >= n else -int(rng.integers(0, n - dim + 1))


def _judge_overhang(case, mask, rng, mech):
    """(viii) the same mask weights, re-positioned (public ApertureMask(data, bbox) constructor) so that its box
    overhangs EACH border / corner of a strongly non-square image separately, lies flush with it, or touches it from
    outside; every op that takes a shape or an image is judged by the brute-force index sets."""
    from photutils.aperture import ApertureMask, BoundingBox
    ny, nx = mask.data.shape
    name, mx, my = _PLACEMENTS[int(rng.integers(0, len(_PLACEMENTS)))]
    short, long_ = int(rng.integers(2, 14)), int(rng.integers(40, 400))
    orient = ['wide', 'tall'][int(rng.integers(0, 2))]
    shape = (short, long_) if orient == 'wide' else (long_, short)
    x0 = _place(rng, mx, nx, shape[1])
    y0 = _place(rng, my, ny, shape[0])
    m2 = ApertureMask(np.array(mask.data, copy=True), BoundingBox(x0, x0 + nx, y0, y0 + ny))
    case.note('axis2_viii:placement:' + name)
    case.note('axis2_viii:image:' + orient)
    _judge_image_ops(case, m2, (x0, x0 + nx, y0, y0 + ny), rng, dict(mech, placement=name, image=orient), [shape])


def _image_shapes(rng, box, n, hostile=False):
    """image shapes incl. 1xN; the box straddles / misses / contains them."""
    out = []
    for _ in range(n):
        k = int(rng.integers(0, 8))
        if k == 6:
            shp = (int(rng.integers(1, 4)), int(rng.integers(100, 3000)))       # strongly elongated
        elif k == 7:
            shp = (int(rng.integers(100, 3000)), int(rng.integers(1, 4)))
        elif k == 0:
            shp = (1, int(rng.integers(1, 65)))
        elif k == 1:
            shp = (int(rng.integers(1, 65)), 1)
        elif k == 2:
            shp = (1, 1)
        elif k == 3 and abs(box[1]) < 10 ** 4 and abs(box[3]) < 10 ** 4:
            # image edge inside / at the box edges
            shp = (max(1, box[3] + int(rng.integers(-3, 3))), max(1, box[1] + int(rng.integers(-3, 3))))
            shp = (min(shp[0], 2000), min(shp[1], 2000))
        elif k == 4 and hostile:
            shp = (max(1, box[2] + int(rng.integers(-1, 2))), max(1, box[0] + int(rng.integers(-1, 2))))
            shp = (min(shp[0], 2000), min(shp[1], 2000))
        else:
            shp = (int(rng.integers(1, 65)), int(rng.integers(1, 65)))
        out.append(shp)
    if hostile and rng.random() < 0.1:
        out.append([(0, 5), (5, 0), (0, 0)][int(rng.integers(0, 3))])
    return out


def _mech(spec, method, kernel='compiled'):
    m = {'shape': spec['fam'], 'annulus': spec['annulus'], 'method': method, 'kernel': kernel}
    m.update(spec.get('_mech_extra') or {})
    return m


def _judge_aperture(case, aper, spec, methods, n_img=1, hostile_img=False):
    """Full set of oracles on one aperture object (scalar or multi)."""
    rng = case.rng
    outer, inner = _ref_shapes(spec)
    pos = np.atleast_2d(np.array(spec['positions'], dtype=float))
    scalar = spec['npos'] == 0
    nontriv = False
    m0 = _mech(spec, 'n/a')
    # .area
    area = _ref_area(outer, inner)
    obs_area = aper.area
    case.check(np.isscalar(obs_area) or np.ndim(obs_area) == 0, 'area_is_scalar', m0)
    case.close(float(obs_area), area, 'area_is_analytic_area', rtol=1e-11, mech=m0)
    # .bbox
    bb = aper.bbox
    case.check((not isinstance(bb, list)) == scalar, 'bbox_scalar_vs_list', m0, type=type(bb).__name__)
    bbs = [bb] if not isinstance(bb, list) else bb
    case.check(len(bbs) == len(pos), 'one_bbox_per_position', m0, n=len(bbs), npos=len(pos))
    if not scalar:
        case.check(len(aper) == len(pos) and aper.shape == (len(pos),), 'len_is_number_of_positions', m0)
    for b, (xc, yc) in zip(bbs, pos):
        _judge_bbox(case, _box_tuple(b), spec, float(xc), float(yc), outer, m0, what='aperture_bbox_smallest_box')
    for method, s in methods:
        mech = _mech(spec, method)
        masks = aper.to_mask(method=method, subpixels=s)
        case.check((not isinstance(masks, list)) == scalar, 'to_mask_scalar_vs_list', mech)
        masks = [masks] if not isinstance(masks, list) else masks
        if not case.check(len(masks) == len(pos), 'one_mask_per_position', mech):
            continue
        for k, (mk, (xc, yc)) in enumerate(zip(masks, pos)):
            xc, yc = float(xc), float(yc)
            box = _box_tuple(mk.bbox)
            case.check(box == _box_tuple(bbs[k]), 'mask_bbox_is_aperture_bbox', mech)
            ex, ey, _ = _judge_bbox(case, box, spec, xc, yc, outer, mech)
            nontriv |= _judge_weights(case, mk.data, box, spec, xc, yc, outer, inner, method, s, mech, ex, ey)
            if mk.data.size <= 40_000 and abs(box[0]) < 10 ** 7:
                _judge_image_ops(case, mk, box, rng, mech, _image_shapes(rng, box, n_img, hostile_img))
            if mk.data.size <= 2500 and rng.random() < (0.7 if hostile_img else 0.3):
                _judge_overhang(case, mk, rng, mech)
            elif abs(box[0]) >= 10 ** 7 or mk.data.size > 40_000:
                # far / large: index arithmetic only (no brute-force pasting of big arrays)
                shp = (int(rng.integers(1, 65)), int(rng.integers(1, 65)))
                ys, xs = G.common_pixels(box, shp)
                sl, ss = mk.get_overlap_slices(shp)
                case.check((sl is None) == (not ys or not xs), 'overlap_none_iff_no_common_pixel',
                           dict(mech, op='get_overlap_slices'), shape=list(shp), box=list(box))
            # multi-position: same mask as the scalar aperture at that position (same arithmetic -> exact)
            if not scalar and mk.data.size <= 40_000:
                single = _build(spec, positions=[xc, yc]).to_mask(method=method, subpixels=s)
                case.check(_box_tuple(single.bbox) == box and core.exact(single.data, mk.data),
                           'multi_position_equals_one_at_a_time', mech, k=k)
    return nontriv


# ----------------------------------------------------------------------
# cases
# ----------------------------------------------------------------------
def run_case(case):
    if _STATE['overlay'] is not None:
        case.note('overlay_active' if _STATE['overlay'].get('overlay_active') else 'installed_so_used')
    try:
        if case.cls == 'bbox_algebra':
            _case_bbox_algebra(case)
        else:
            _case_aperture(case)
    finally:
        _drain_contracts(case)


def _case_aperture(case):
    rng, cls = case.rng, case.cls
    spec = _gen_spec(rng, cls, case.tier)
    spec = _draw_axes(case, spec, cls)
    case.params = _spec_params(spec)
    case.params['forms'] = dict(spec['forms'])
    case.digest = core.digest([cls, case.params])
    method, s = spec['method'], spec['subpixels']
    methods = [(method, s)]
    size = max(v for v in spec['prm'].values() if v is not None)
    if size < 30 and rng.random() < 0.35:
        # judge a second method on the same object as well
        m2 = ['exact', 'center', 'subpixel'][int(rng.integers(0, 3))]
        if m2 != method:
            methods.append((m2, int(rng.choice([1, 2, 5, 9]))))
    aper = _build(spec)

    if cls == 'reassign':
        _case_reassign(case, aper, spec, methods)
        return
    if cls == 'inplace':
        _case_inplace(case, aper, spec)
        return
    nontriv = _judge_aperture(case, aper, spec, methods, n_img=3 if cls == 'image_ops' else 1,
                              hostile_img=cls == 'image_ops')
    case.nontrivial = nontriv
    if rng.random() < (0.5 if _STATE['overlay'] and _STATE['overlay']['pyx_drift']['drift'] else 0.2):
        _judge_twin(case, aper, spec, methods)
    if size < 30 and rng.random() < 0.06 and float(np.abs(np.array(spec['positions'])).max()) < 1e5:
        _judge_provenance(case, aper, spec)
    # relations on method translation (small masks only)
    if size < 30 and rng.random() < 0.3:
        _method_relations(case, aper, spec)
    if spec['npos'] > 0 and rng.random() < 0.5:
        _index_copy_relations(case, aper, spec, method, s)


def _method_relations(case, aper, spec):
    rng = case.rng
    mech = _mech(spec, 'relations')

    def data(**kw):
        mk = aper.to_mask(**kw)
        mk = mk if isinstance(mk, list) else [mk]
        return [(m.data, _box_tuple(m.bbox)) for m in mk]

    def same(a, b):
        return len(a) == len(b) and all(x[1] == y[1] and core.exact(x[0], y[0]) for x, y in zip(a, b))
    k = int(rng.integers(2, 12))
    case.check(same(data(method='center', subpixels=k), data(method='subpixel', subpixels=1)),
               'center_equals_subpixel_1', mech)
    case.check(same(data(method='exact', subpixels=k), data(method='exact')), 'subpixels_ignored_for_exact', mech)
    case.check(same(data(method='center', subpixels=k), data(method='center')), 'subpixels_ignored_for_center', mech)
    if spec['fam'] == 'rect':
        case.check(same(data(method='exact'), data(method='subpixel', subpixels=32)),
                   'rect_exact_is_subpixel_32', mech)
    # call forms the library rejects: Quantity positions (explicit TypeError); 0-d arrays for scalars (docs silent:
    # counted, not judged)
    import astropy.units as u
    kw = {nm: getattr(aper, nm) for nm in aper._params}
    try:
        type(aper)(**dict(kw, positions=np.array(aper.positions) * u.pix))
        case.check(False, 'quantity_positions_rejected', mech)
    except TypeError:
        case.check(True, 'quantity_positions_rejected', mech)
    first = [nm for nm in aper._params if nm not in ('positions', 'theta')][-1]
    try:
        type(aper)(**dict(kw, **{first: np.array(float(kw[first]))}))
        case.note('axis:call_form:0d_array_scalar_accepted')
    except ValueError:
        case.note('axis:call_form:0d_array_scalar_rejected_ValueError')
    for bad in ({'method': 'nearest'}, {'method': 'subpixel', 'subpixels': 0}, {'method': 'subpixel', 'subpixels': -3},
                {'method': 'subpixel', 'subpixels': 2.5}):
        try:
            aper.to_mask(**bad)
            case.check(False, 'invalid_mask_arguments_rejected', dict(mech, bad=repr(bad)))
        except ValueError:
            case.check(True, 'invalid_mask_arguments_rejected', dict(mech, bad=repr(bad)))


def _index_copy_relations(case, aper, spec, method, s):
    mech = _mech(spec, method)
    masks = aper.to_mask(method=method, subpixels=s)
    k = int(case.rng.integers(0, len(masks)))
    sub = aper[k]
    mk = sub.to_mask(method=method, subpixels=s)
    case.check(sub.isscalar and not isinstance(mk, list) and _box_tuple(mk.bbox) == _box_tuple(masks[k].bbox)
               and core.exact(mk.data, masks[k].data), 'indexed_aperture_gives_same_mask', mech, k=k)
    cp = aper.copy()
    mc = cp.to_mask(method=method, subpixels=s)
    case.check(all(_box_tuple(a.bbox) == _box_tuple(b.bbox) and core.exact(a.data, b.data)
                   for a, b in zip(mc, masks)), 'copied_aperture_gives_same_masks', mech)


def _case_reassign(case, aper, spec, methods):
    """Fill the caches (_bbox, _centered_edges, area, ...), re-assign parameters, judge against the new spec."""
    rng = case.rng
    # touch caches on the old object
    _ = aper.bbox, aper.area, aper._centered_edges
    aper.to_mask(method=methods[0][0], subpixels=methods[0][1])
    new = _gen_spec(rng, 'reassign', case.tier)
    tries = 0
    while (new['fam'] != spec['fam'] or new['annulus'] != spec['annulus']) and tries < 200:
        new = _gen_spec(rng, 'reassign', case.tier)
        tries += 1
    if new['fam'] != spec['fam'] or new['annulus'] != spec['annulus']:
        case.skip('no second spec of the same class generated')
    changed = []
    names = [k for k, v in new['prm'].items() if v is not None]
    which = [n for n in names if rng.random() < 0.6] or [names[0]]
    merged = dict(spec)
    merged['forms'] = {}
    merged['prm'] = dict(spec['prm'])
    # default (None) inner sizes were resolved by the constructor: keep the resolved value unless re-assigned
    for kk in ('b_in', 'h_in'):
        if kk in merged['prm'] and merged['prm'][kk] is None:
            merged['prm'][kk] = float(getattr(aper, kk))
    for n in which:
        merged['prm'][n] = new['prm'][n]
    p = merged['prm']
    order_ok = True
    for lo_, hi_ in (('r_in', 'r_out'), ('a_in', 'a_out'), ('b_in', 'b_out'), ('w_in', 'w_out'), ('h_in', 'h_out')):
        if lo_ in p and hi_ in p and not (p[lo_] is not None and p[lo_] < p[hi_]):
            order_ok = False
    if not order_ok:
        merged['prm'] = dict(spec['prm'])
        for kk in ('b_in', 'h_in'):
            if kk in merged['prm'] and merged['prm'][kk] is None:
                merged['prm'][kk] = float(getattr(aper, kk))
        which = []
    for n in which:
        setattr(aper, n, merged['prm'][n])
        changed.append(n)
    if spec['fam'] != 'circle' and rng.random() < 0.5:
        merged['theta_arg'], merged['theta'], merged['tdesc'] = new['theta_arg'], new['theta'], new['tdesc']
        aper.theta = new['theta_arg']
        changed.append('theta')
    if rng.random() < 0.6 or not changed:
        merged['positions'], merged['npos'] = new['positions'], new['npos']
        aper.positions = np.array(new['positions'], dtype=float)
        changed.append('positions')
    case.params = _spec_params(merged)
    case.params['reassigned'] = changed
    case.digest = core.digest(['reassign', case.params])
    case.note('reassign_steps', len(changed))
    nontriv = _judge_aperture(case, aper, merged, methods)
    # and against a fresh object with the same parameters (exact)
    fresh = _build(merged)
    for method, s in methods:
        a = aper.to_mask(method=method, subpixels=s)
        b = fresh.to_mask(method=method, subpixels=s)
        a = a if isinstance(a, list) else [a]
        b = b if isinstance(b, list) else [b]
        case.check(len(a) == len(b) and all(_box_tuple(x.bbox) == _box_tuple(y.bbox) and core.exact(x.data, y.data)
                                            for x, y in zip(a, b)),
                   'reassigned_aperture_equals_fresh_one', dict(_mech(merged, method), changed=sorted(set(changed))))
    case.nontrivial = nontriv


def _simple_wcs(rng):
    from astropy.wcs import WCS
    w = WCS(naxis=2)
    rot = float(rng.uniform(-math.pi, math.pi))
    sc = float(rng.choice([0.05, 0.2, 1.0])) / 3600.0
    flip = float(rng.choice([-1.0, 1.0]))
    w.wcs.ctype = ['RA---TAN', 'DEC--TAN']
    w.wcs.crval = [float(rng.uniform(10, 300)), float(rng.uniform(-60, 60))]
    w.wcs.crpix = [float(rng.uniform(0, 40)), float(rng.uniform(0, 40))]
    w.wcs.cd = [[flip * sc * math.cos(rot), -sc * math.sin(rot)], [flip * sc * math.sin(rot), sc * math.cos(rot)]]
    return w


def _judge_provenance(case, aper, spec):
    """(x) objects with a history, each used for two requests: pixel -> sky -> pixel (to_sky / to_pixel), the sky
    aperture converted twice, copies and indexed children asked twice.  Every derived pixel aperture is judged at the
    parameters it reports; a second request must give what the first gave; the sky aperture must not change."""
    rng = case.rng
    wcs = _simple_wcs(rng)
    m0 = _mech(spec, 'n/a')
    sky = aper.to_sky(wcs)
    snap = {nm: (getattr(sky, nm).copy() if hasattr(getattr(sky, nm), 'copy') else getattr(sky, nm))
            for nm in sky._params}
    p1 = sky.to_pixel(wcs)
    p2 = sky.to_pixel(wcs)
    case.note('axis2_x:sky_aperture_converted_twice')

    def same_params(a, b):
        for nm in a._params:
            x, y = getattr(a, nm), getattr(b, nm)
            if nm == 'positions':
                if not core.exact(np.asarray(x), np.asarray(y)):
                    return False
            elif hasattr(x, 'unit'):
                if not (x.unit == y.unit and core.exact(np.asarray(x.value), np.asarray(y.value))):
                    return False
            elif x != y:
                return False
        return True
    case.check(same_params(p1, p2), 'to_pixel_twice_gives_same_parameters', dict(m0, provenance='sky.to_pixel x2'),
               first=repr(p1)[:200], second=repr(p2)[:200])
    unchanged = True
    for nm in sky._params:
        x, y = getattr(sky, nm), snap[nm]
        if nm == 'positions':
            unchanged &= bool(np.all(x.ra == y.ra) and np.all(x.dec == y.dec))
        elif hasattr(x, 'unit'):
            unchanged &= bool(x.unit == y.unit and np.all(x.value == y.value))
        else:
            unchanged &= bool(x == y)
    case.check(unchanged, 'sky_aperture_unchanged_by_to_pixel', dict(m0, provenance='sky.to_pixel x2'))
    s_sub = int(rng.choice([2, 3, 5]))
    methods = [('exact', 1), ('center', 1), ('subpixel', s_sub)]
    derived = {'pixel_from_sky_1': p1, 'pixel_from_sky_2': p2, 'copy': aper.copy()}
    if spec['npos']:
        derived['indexed'] = aper[int(rng.integers(0, len(aper)))]
        derived['pixel_from_sky_indexed'] = p2[int(rng.integers(0, len(p2)))]
    for name, obj in derived.items():
        extra = {'provenance': name}
        # first use
        first = obj.to_mask(method=methods[0][0], subpixels=s_sub)
        _ = obj.bbox, obj.area
        rspec = _reported_spec(obj, spec, extra)
        _judge_aperture(case, obj, rspec, methods)
        # second use of the same object: same answer as the first
        again = obj.to_mask(method=methods[0][0], subpixels=s_sub)
        fl = first if isinstance(first, list) else [first]
        al = again if isinstance(again, list) else [again]
        case.check(len(fl) == len(al) and all(_box_tuple(a_.bbox) == _box_tuple(b_.bbox) and core.exact(a_.data, b_.data)
                                              for a_, b_ in zip(fl, al)),
                   'second_request_equals_first', dict(_mech(rspec, 'exact'), provenance=name))
        case.note('axis2_x:derived_object_used_twice:' + name)


_PARAM_NAMES = {('circle', False): ['r'], ('circle', True): ['r_in', 'r_out'],
                ('ellipse', False): ['a', 'b'], ('ellipse', True): ['a_in', 'a_out', 'b_out', 'b_in'],
                ('rect', False): ['w', 'h'], ('rect', True): ['w_in', 'w_out', 'h_out', 'h_in']}
# direction in which a parameter may move without leaving the documented domain (outer > inner, a >= b)
_PARAM_DIR = {'r': 'free', 'r_in': 'down', 'r_out': 'up', 'a': 'up', 'b': 'down', 'a_in': 'down', 'a_out': 'up',
              'b_out': 'up', 'b_in': 'down', 'w': 'free', 'h': 'free', 'w_in': 'down', 'w_out': 'up', 'h_out': 'up',
              'h_in': 'down'}


def _reported_spec(obj, spec, extra):
    """The spec of the shape the object REPORTS right now (attributes read back from it)."""
    import astropy.units as u
    names = _PARAM_NAMES[(spec['fam'], spec['annulus'])]
    prm = {n: float(getattr(obj, n)) for n in names}
    th = float(obj.theta.to(u.radian).value) if spec['fam'] != 'circle' else 0.0
    pos = np.array(obj.positions, dtype=float, copy=True)
    out = dict(spec)
    out.update(prm=prm, theta=th, theta_arg=th, tdesc='reported', positions=pos.tolist(),
               npos=0 if pos.ndim == 1 else len(pos), special=None, _mech_extra=extra, forms={})
    return out


def _case_inplace(case, parent, spec):
    """History over a family of related objects: parent, int-indexed child, slice child, iterated child, copy(),
    an aperture built from a caller-owned float array - created before and after an augmented in-place update
    (`+=`, `-=`, `*=` of positions, of a shape parameter, of theta, or of the caller's source array) applied to ONE
    of them.  Some objects are 'used' (bbox / _centered_edges / to_mask evaluated, caches filled) before the update.
    Afterwards bbox, to_mask (all three methods) and area of EVERY object are judged against the geometric oracle
    evaluated at the parameters that object reports at that moment."""
    import astropy.units as u
    rng = case.rng
    s_sub = int(rng.choice([2, 3, 5]))
    methods = [('exact', 1), ('center', 1), ('subpixel', s_sub)]
    n = len(parent)
    src = np.array(spec['positions'], dtype=float)            # caller-owned array
    family = {'parent': parent}
    k = int(rng.integers(0, n))
    i0 = int(rng.integers(0, n - 1))
    i1 = int(rng.integers(i0 + 1, n + 1))
    family['child_index'] = parent[k]
    family['child_slice'] = parent[i0:i1]
    family['child_iter'] = list(parent)[int(rng.integers(0, n))]
    family['copy'] = parent.copy()
    # an aperture constructed directly from a float64 array the caller keeps
    cls_ = type(parent)
    kw = {nm: getattr(parent, nm) for nm in parent._params if nm != 'positions'}
    family['from_array'] = cls_(positions=src, **kw)
    used = {}
    for name, obj in family.items():
        used[name] = bool(rng.random() < 0.6)
        if used[name]:
            _ = obj.bbox, obj._centered_edges, obj.area
            obj.to_mask(method=methods[int(rng.integers(0, 3))][0], subpixels=s_sub)
    def reported(o):
        th_ = float(o.theta.to(u.radian).value) if spec['fam'] != 'circle' else 0.0
        return (np.array(o.positions, dtype=float, copy=True), th_,
                [float(getattr(o, nm_)) for nm_ in _PARAM_NAMES[(spec['fam'], spec['annulus'])]])
    before = {name: reported(obj) for name, obj in family.items()}
    # ---- the update(s), applied to one object (or to the caller's array)
    targets = ['parent', 'parent', 'parent', 'child_slice', 'child_index', 'copy', 'source_array']
    target = targets[int(rng.integers(0, len(targets)))]
    steps = []
    for _ in range(int(rng.integers(1, 3))):
        what = ['positions', 'positions', 'param', 'theta'][int(rng.integers(0, 4))]
        if target == 'source_array':
            what = 'positions'
        if what == 'theta' and spec['fam'] == 'circle':
            what = 'param'
        op = ['+=', '-=', '*='][int(rng.integers(0, 3))]
        if what == 'positions':
            dkind = int(rng.integers(0, 3))
            d = (np.array([float(rng.integers(-9, 10)), float(rng.integers(-9, 10))]) if dkind == 0 else
                 np.array([float(rng.integers(-9, 10)) + 0.5, float(rng.integers(-9, 10)) + 0.5]) if dkind == 1 else
                 rng.uniform(-9, 9, 2))
            if not d.any():
                d = np.array([3.0, -2.0])
            f = float(rng.choice([0.5, 1.5, 2.0, float(rng.uniform(0.3, 1.7))]))
            if target == 'source_array':
                if op == '+=':
                    src += d
                elif op == '-=':
                    src -= d
                else:
                    src *= f
            else:
                obj = family[target]
                if op == '+=':
                    obj.positions += d
                elif op == '-=':
                    obj.positions -= d
                else:
                    obj.positions *= f
            steps.append(f'{target}.positions {op}')
        elif what == 'theta':
            obj = family[target]
            q = float(rng.choice([math.pi / 4, 0.3, float(rng.uniform(0.05, 1.5))]))
            if op == '+=':
                obj.theta += q * u.rad
            elif op == '-=':
                obj.theta -= q * u.rad
            else:
                obj.theta *= float(rng.choice([2.0, 0.5, -1.0]))
            steps.append(f'{target}.theta {op}')
        else:
            obj = family[target]
            names = _PARAM_NAMES[(spec['fam'], spec['annulus'])]
            nm = names[int(rng.integers(0, len(names)))]
            dr = _PARAM_DIR[nm]
            if dr == 'free':
                dr = ['up', 'down'][int(rng.integers(0, 2))]
            v = float(getattr(obj, nm))
            if dr == 'up':
                if op == '-=':
                    op = '+='
                if op == '+=':
                    setattr(obj, nm, getattr(obj, nm) + v * float(rng.uniform(0.1, 1.0)))
                else:
                    fct = float(rng.uniform(1.1, 2.0))
                    cur = getattr(obj, nm)
                    cur *= fct
                    setattr(obj, nm, cur)
            else:
                if op == '+=':
                    op = '-='
                if op == '-=':
                    cur = getattr(obj, nm)
                    cur -= v * float(rng.uniform(0.1, 0.5))
                    setattr(obj, nm, cur)
                else:
                    cur = getattr(obj, nm)
                    cur *= float(rng.uniform(0.5, 0.9))
                    setattr(obj, nm, cur)
            steps.append(f'{target}.{nm} {op}')
    # ---- relatives created after the update
    p2 = family['parent']
    n2 = len(p2)
    family['child_index_after'] = p2[int(rng.integers(0, n2))]
    family['child_iter_after'] = list(p2)[int(rng.integers(0, n2))]
    family['copy_after'] = p2.copy()
    if n2 >= 2:
        j0 = int(rng.integers(0, n2 - 1))
        family['child_slice_after'] = p2[j0:int(rng.integers(j0 + 1, n2 + 1))]
    # ---- judge every object at the parameters it reports now
    case.params = _spec_params(spec)
    case.params.update(steps=steps, used=[k_ for k_, v_ in used.items() if v_], target=target)
    case.digest = core.digest(['inplace', case.params])
    step_kinds = sorted({'positions' if '.positions ' in st else 'theta' if '.theta ' in st else 'shape_param'
                         for st in steps})
    nontriv = False
    for name, obj in family.items():
        is_target = name == target
        extra = {'history': 'inplace_update', 'role': name, 'updated': is_target, 'target': target,
                 'used_before_update': bool(used.get(name, False)), 'updated_attrs': '+'.join(step_kinds)}
        if name in before:
            # structural facts about aliasing: an object that was NOT the target reports other parameters than before
            now = reported(obj)
            extra['untouched_object_positions_moved'] = bool(not is_target and not core.exact(now[0], before[name][0]))
            extra['untouched_object_theta_moved'] = bool(not is_target and now[1] != before[name][1])
            extra['untouched_object_shape_param_moved'] = bool(not is_target and now[2] != before[name][2])
            for kk in ('untouched_object_positions_moved', 'untouched_object_theta_moved',
                       'untouched_object_shape_param_moved'):
                if extra[kk]:
                    case.note('inplace:' + kk)
        rspec = _reported_spec(obj, spec, extra)
        case.note('inplace_objects_judged')
        if used.get(name):
            case.note('inplace_objects_judged_with_filled_caches')
        nontriv |= _judge_aperture(case, obj, rspec, methods)
    case.note('inplace_update_steps', len(steps))
    case.nontrivial = nontriv


def _case_bbox_algebra(case):
    from photutils.aperture import BoundingBox
    rng = case.rng
    mech = {'shape': 'bbox', 'cls': case.cls}

    def rbox(lo=-20, hi=60):
        x0 = int(rng.integers(lo, hi))
        y0 = int(rng.integers(lo, hi))
        return BoundingBox(x0, x0 + int(rng.integers(1, 30)), y0, y0 + int(rng.integers(1, 30)))

    def pix(b):
        if b is None:
            return set()
        return {(y, x) for y in range(b.iymin, b.iymax) for x in range(b.ixmin, b.ixmax)}
    a, b = rbox(), rbox()
    if rng.random() < 0.3:    # touching / nested / identical boxes
        k = int(rng.integers(0, 4))
        if k == 0:
            b = BoundingBox(a.ixmax, a.ixmax + int(rng.integers(1, 9)), a.iymin, a.iymax)
        elif k == 1:
            b = BoundingBox(a.ixmin, a.ixmax, a.iymax, a.iymax + int(rng.integers(1, 9)))
        elif k == 2:
            b = BoundingBox(a.ixmin, a.ixmax, a.iymin, a.iymax)
        else:
            b = BoundingBox(a.ixmax - 1, a.ixmax + 3, a.iymax - 1, a.iymax + 2)
    pa, pb = pix(a), pix(b)
    params = {'a': list(_box_tuple(a)), 'b': list(_box_tuple(b))}
    # union: smallest box containing both pixel sets
    un = a.union(b)
    both = pa | pb
    exp_u = (min(x for _, x in both), max(x for _, x in both) + 1, min(y for y, _ in both), max(y for y, _ in both) + 1)
    case.check(_box_tuple(un) == exp_u, 'union_is_smallest_box_containing_both', dict(mech, op='union'),
               obs=list(_box_tuple(un)), exp=list(exp_u))
    case.check(_box_tuple(a | b) == _box_tuple(un) and _box_tuple(b.union(a)) == _box_tuple(un),
               'union_operator_and_symmetry', dict(mech, op='union'))
    # intersection: exactly the common pixels (None or an empty box both denote the empty set)
    it = a.intersection(b)
    case.check(pix(it) == (pa & pb), 'intersection_is_common_pixels', dict(mech, op='intersection'),
               obs=None if it is None else list(_box_tuple(it)), n_common=len(pa & pb))
    it2 = a & b
    case.check(pix(it2) == (pa & pb) and pix(b.intersection(a)) == (pa & pb), 'intersection_operator_and_symmetry',
               dict(mech, op='intersection'))
    if it is None:
        case.note('intersection_none')
    elif not pix(it):
        case.note('intersection_empty_box')
    # extent / shape / center by the pixel convention
    xs = [x for _, x in pa]
    ys = [y for y, _ in pa]
    case.check(tuple(a.extent) == (min(xs) - 0.5, max(xs) + 0.5, min(ys) - 0.5, max(ys) + 0.5),
               'extent_is_outer_pixel_edges', dict(mech, op='extent'), obs=list(a.extent))
    case.check(tuple(a.shape) == (len(set(ys)), len(set(xs))), 'shape_is_pixel_counts', dict(mech, op='shape'))
    case.check(tuple(a.center) == (float(np.mean(sorted(set(ys)))), float(np.mean(sorted(set(xs))))),
               'center_is_mean_pixel_index', dict(mech, op='center'), obs=list(a.center))
    # overlap slices against image shapes
    nontriv = bool(pa & pb) and (pa & pb) != pa and (pa & pb) != pb
    for shape in _image_shapes(rng, _box_tuple(a), 3, hostile=True):
        if shape[0] == 0 or shape[1] == 0:
            continue
        ys_, xs_ = G.common_pixels(_box_tuple(a), shape)
        sl, ss = a.get_overlap_slices(shape)
        empty = not ys_ or not xs_
        if not case.check((sl is None) == empty and (ss is None) == empty, 'overlap_none_iff_no_common_pixel',
                          dict(mech, op='get_overlap_slices'), shape=list(shape), box=params['a']):
            continue
        if not empty:
            sel_l = (list(np.arange(shape[0])[sl[0]]), list(np.arange(shape[1])[sl[1]]))
            sel_s = (list(np.arange(a.shape[0])[ss[0]]), list(np.arange(a.shape[1])[ss[1]]))
            case.check(sel_l == (ys_, xs_) and sel_s == ([y - a.iymin for y in ys_], [x - a.ixmin for x in xs_]),
                       'overlap_slices_select_common_pixels', dict(mech, op='get_overlap_slices'),
                       shape=list(shape), box=params['a'], got=repr((sl, ss)))
            nontriv |= len(ys_) * len(xs_) < len(pa)
    try:
        a.get_overlap_slices((3, 4, 5))
        case.check(False, 'non_2d_shape_rejected', mech)
    except ValueError:
        case.check(True, 'non_2d_shape_rejected', mech)
    # from_float: smallest box containing a float rectangle
    kind = int(rng.integers(0, 4))
    if kind == 0:
        v = [float(rng.integers(-40, 40)) + float(rng.choice([0.0, 0.5, 0.25, 0.75])) for _ in range(4)]
    elif kind == 1:
        v = [float(rng.integers(-40, 40)) + float(rng.choice([0.0, 0.5])) + float(rng.choice([-1, 1]))
             * 10 ** float(rng.uniform(-13, -8)) for _ in range(4)]
    elif kind == 2:
        v = [float(rng.uniform(-1e6, 1e6)) for _ in range(4)]
    else:
        v = [float(rng.uniform(-30, 30)) for _ in range(4)]
    xmin, xmax = sorted(v[:2])
    ymin, ymax = sorted(v[2:])
    ff = BoundingBox.from_float(xmin, xmax, ymin, ymax)
    exact = all(G.is_dyadic(t, bits=10) for t in (xmin, xmax, ymin, ymax))
    eps = 0.0 if exact else TIE_EPS
    adm = []
    for lo_, hi_ in ((xmin, xmax), (ymin, ymax)):
        adm.append({math.floor(lo_ + 0.5 - eps), math.floor(lo_ + 0.5 + eps), math.floor(lo_ + 0.5)})
        adm.append({math.ceil(hi_ + 0.5 - eps), math.ceil(hi_ + 0.5 + eps), math.ceil(hi_ + 0.5)})
    params['from_float'] = [xmin, xmax, ymin, ymax]
    case.check(all(o in s for o, s in zip(_box_tuple(ff), adm)), 'from_float_is_smallest_containing_box',
               dict(mech, op='from_float', exact_arith=exact), obs=list(_box_tuple(ff)),
               admissible=[sorted(s) for s in adm], rect=params['from_float'])
    # semantic form: pixel set = pixels whose open square meets the rectangle (when it has an interior)
    if exact and xmax > xmin and ymax > ymin:
        want_x = [x for x in range(math.floor(xmin) - 2, math.ceil(xmax) + 3) if x + 0.5 > xmin and x - 0.5 < xmax]
        want_y = [y for y in range(math.floor(ymin) - 2, math.ceil(ymax) + 3) if y + 0.5 > ymin and y - 0.5 < ymax]
        case.check(list(range(ff.ixmin, ff.ixmax)) == want_x and list(range(ff.iymin, ff.iymax)) == want_y,
                   'from_float_pixels_are_those_meeting_the_rectangle', dict(mech, op='from_float'),
                   obs=list(_box_tuple(ff)), rect=params['from_float'])
    for bad in ((1.5, 2, 3, 4), (1, 2, 3.0, 4)):
        try:
            BoundingBox(*bad)
            case.check(False, 'non_integer_box_rejected', mech)
        except TypeError:
            case.check(True, 'non_integer_box_rejected', mech)
    case.params = params
    case.digest = core.digest(['bbox', params])
    case.nontrivial = nontriv


# ----------------------------------------------------------------------
# driver legs: overlay report (both tiers) + sanitizer leg (thorough)
# ----------------------------------------------------------------------
def _leg_record(tier, seed, name, violations, params, nchecks=1):
    return {'kind': 'case', 'pid': ID, 'tier': tier, 'seed': int(seed), 'shard': 0, 'idx': 0, 'cls': CLASSES[0],
            'leg': True, 'params': dict(params, leg=name), 'digest': 'leg-' + name, 'nontrivial': False,
            'nchecks': nchecks, 'violations': violations, 'skipped': None, 'maxdev': {}, 'notes': {}, 'error': None}


def _asan_runtime():
    try:
        p = subprocess.run(['clang', '-print-file-name=libclang_rt.asan-x86_64.so'], capture_output=True, text=True,
                           timeout=30)
        path = p.stdout.strip()
        return path if os.path.isfile(path) else None
    except Exception:  # noqa: BLE001
        return None


SAN_MARKERS = ('AddressSanitizer', 'runtime error:', 'UndefinedBehaviorSanitizer', 'SUMMARY: ')


def driver_legs(tier, seed, tmpdir, only=None):
    from pv.run import worker_env, PY, VERIF
    recs, info = [], {}
    # --- overlay report -------------------------------------------------
    ov = K.build('plain')
    drift = K.pyx_drift()
    cov = {'source': ov['source'], 'sha': ov['sha'], 'dir': ov['dir'], 'cached': ov['cached'],
           'build_seconds': round(ov['seconds'], 2), 'repo': ov['repo'], 'pyx_lines_compared_with_c': drift['checked'],
           'pyx_drift': drift['drift']}
    inc = []
    if ov['source'] != 'overlay':
        if K.c_sources() is None:
            cov['note'] = 'generated .c files absent: installed .so executed'
        else:
            inc.append('kernel overlay build failed: ' + str(ov['error'])[:400])
    # what the shards report about the source twin (their logs are in tmpdir)
    tw_masks, tw_status, gate = 0, set(), []
    import glob
    for fn in glob.glob(os.path.join(tmpdir, 'shard*.jsonl')):
        try:
            with open(fn) as f:
                for line in f:
                    if '"kind": "tail"' in line:
                        td = json.loads(line).get('teardown', {})
                        tw_masks += int(td.get('twin_masks', 0))
                        tw_status.add(str(td.get('twin_status')))
                        if td.get('twin_gate_maxdev') is not None:
                            gate.append(td['twin_gate_maxdev'])
        except Exception:  # noqa: BLE001
            pass
    tcov = {'status': sorted(tw_status), 'masks_judged_by_reference': tw_masks,
            'gate_max_deviation_from_compiled': max(gate) if gate else None}
    tinc = []
    if drift['drift']:
        msg = (f"{len(drift['drift'])}+ line(s) of the .pyx kernels differ from the source the executed .c was "
               f"generated from (first: {drift['drift'][0]}); the compiled kernels are therefore NOT the .pyx in the tree")
        cov['note_drift'] = msg
        if tw_masks < 200 and only is None:
            inc.append(msg + f'; the de-typed .pyx twin judged only {tw_masks} masks (< 200): the .pyx edit was not '
                             'executed enough to decide')
    if any('gate FAILED' in t for t in tw_status):
        tcov['note'] = ('twin and compiled overlay disagree although the .c embeds the current .pyx text: the .c was '
                        'edited by hand or the de-typer is unsound; both were judged by the reference independently')
    info['kernel_overlay'] = {'coverage': cov, 'inconclusive': inc}
    info['pyx_source_twin'] = {'coverage': tcov, 'inconclusive': tinc}
    if tier != 'thorough' and not (only and only.get('params', {}).get('leg') == 'sanitizer'):
        return recs, info
    # --- sanitizer leg --------------------------------------------------
    t0 = time.time()
    scov = {'flags': ' '.join(K.FLAGS['asan'])}
    sinc = []
    info['sanitizer'] = {'coverage': scov, 'inconclusive': sinc}
    if K.c_sources() is None:
        sinc.append('sanitizer leg: generated .c files absent')
        return recs, info
    b = K.build('asan')
    scov['build_seconds'] = round(b['seconds'], 2)
    scov['cached'] = b['cached']
    if b['source'] != 'overlay':
        sinc.append('sanitizer build failed: ' + str(b['error'])[:400])
        return recs, info
    rt = _asan_runtime()
    if rt is None:
        sinc.append('ASan runtime library not found')
        return recs, info
    ncases = 6000
    nproc = 4
    outs = []
    env = worker_env({'LD_PRELOAD': rt,
                      'ASAN_OPTIONS': 'detect_leaks=0:halt_on_error=1:abort_on_error=1',
                      'UBSAN_OPTIONS': 'print_stacktrace=1:halt_on_error=1',
                      'PV_REACH': '0'})
    procs = []
    for w in range(nproc):
        out = os.path.join(tmpdir, f'asan{w}.json')
        cmd = [PY, '-m', 'pv.checks.c01', '--asan-worker', str(seed), str(w), str(ncases // nproc), out, tier]
        procs.append((w, out, subprocess.Popen(cmd, cwd=VERIF, env=env, stdout=subprocess.PIPE,
                                               stderr=subprocess.PIPE, text=True)))
    calls = pixels = cases = 0
    for w, out, p in procs:
        try:
            so, se = p.communicate(timeout=900)
        except subprocess.TimeoutExpired:
            p.kill()
            p.communicate()
            sinc.append(f'sanitizer worker {w} timed out')
            continue
        rep = None
        if os.path.exists(out):
            try:
                with open(out) as f:
                    rep = json.load(f)
            except Exception:  # noqa: BLE001
                rep = None
        san = any(mk in se for mk in SAN_MARKERS[:3])
        if p.returncode != 0 and san:
            last = None
            prog = out + '.progress'
            if os.path.exists(prog):
                with open(prog) as f:
                    last = f.read()[-2000:]
            kernel_frame = 'photutils/geometry' in se or '_overlap' in se
            recs.append(_leg_record(tier, seed, 'sanitizer', [{
                'what': 'sanitizer_report', 'mech': {'leg': 'sanitizer', 'kernel_frame': bool(kernel_frame),
                                                    'kind': _san_kind(se)},
                'detail': {'stderr': se[-3000:], 'last_case': last, 'worker': w}}],
                {'worker': w, 'last_case': last}))
            continue
        if p.returncode != 0 or rep is None:
            sinc.append(f'sanitizer worker {w} exited {p.returncode} without a sanitizer report: {se[-600:]}')
            continue
        if not rep.get('overlay_active'):
            sinc.append(f'sanitizer worker {w}: instrumented kernels were not the ones loaded')
            continue
        calls += rep['kernel_calls']
        pixels += rep['kernel_pixels']
        cases += rep['cases']
        outs.append(rep)
    scov.update(kernel_calls=calls, kernel_pixels=pixels, cases=cases, workers=len(outs),
                reports=len(recs), wall_s=round(time.time() - t0, 1),
                calls_by_kernel=_sum_dicts([r['calls_by_kernel'] for r in outs]))
    if not recs and calls == 0:
        sinc.append('sanitizer leg executed 0 kernel calls')
    return recs, info


def _san_kind(se):
    for k in ('heap-buffer-overflow', 'stack-buffer-overflow', 'global-buffer-overflow', 'use-after-free',
              'division by zero', 'signed integer overflow', 'outside the range of representable values',
              'index', 'null pointer', 'SEGV', 'shift'):
        if k in se:
            return k
    return 'other'


def _sum_dicts(ds):
    out = {}
    for d in ds:
        for k, v in d.items():
            out[k] = out.get(k, 0) + v
    return out


def _asan_worker(argv):
    """python -m pv.checks.c01 --asan-worker seed worker ncases out tier
    Drives the C01 generator through the sanitizer build of the kernels; the sanitizer is the oracle."""
    seed, w, ncases, out, tier = int(argv[0]), int(argv[1]), int(argv[2]), argv[3], argv[4]
    import warnings
    warnings.simplefilter('ignore')
    np.seterr(all='ignore')
    info = K.activate('asan')
    _STATE['overlay'] = info
    _install_contracts()
    ncls = [c for c in CLASSES if c != 'bbox_algebra']
    done = 0
    prog = open(out + '.progress', 'w')
    for k in range(ncases):
        cls = ncls[(k + w) % len(ncls)]
        rng = core.case_rng(ID + '-asan', seed, w, k)
        spec = _gen_spec(rng, cls, 'quick' if cls == 'large' else tier)
        prog.seek(0)
        prog.truncate()
        prog.write(json.dumps(core._jsonable({'worker': w, 'k': k, 'cls': cls, 'spec': _spec_params(spec)})))
        prog.flush()
        aper = _build(spec)
        for method, s in (('exact', 1), ('center', 1), ('subpixel', spec['subpixels'])):
            if method == 'subpixel' and max(v for v in spec['prm'].values() if v is not None) > 40:
                s = min(s, 4)
            aper.to_mask(method=method, subpixels=s)
        done += 1
    prog.close()
    rep = {'cases': done, 'kernel_calls': sum(_STATE['kernel_calls'].values()),
           'calls_by_kernel': _STATE['kernel_calls'], 'kernel_pixels': _STATE['kernel_pixels'],
           'overlay_active': bool(info.get('overlay_active')), 'dir': info.get('dir'),
           'contract_failures': len(_STATE['contract_fail'])}
    with open(out, 'w') as f:
        json.dump(rep, f)
    return 0


if __name__ == '__main__':
    if len(sys.argv) > 1 and sys.argv[1] == '--asan-worker':
        sys.exit(_asan_worker(sys.argv[2:]))
