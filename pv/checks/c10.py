"""C10 No public call modifies the arrays, tables or models passed to it.

M4 write sentinel (pv/c10_sentinel.py) around every public photutils entry
point, driven by
  (a) a generated workload: table of public entry points (pv/gen/c10_entries.py)
      x 8 argument representations x 5 data conditions (pv/gen/c10_scene.py),
      reading every public property of every result object;
  (b) thorough tier: M8, the repository's own test-suite as a corpus
      (pv/c10_pytest_plugin.py), test outcomes ignored.
Verdict = snapshot comparison only.
"""
from __future__ import annotations

import glob
import json
import os
import subprocess
import sys
import time
import traceback

import numpy as np

from pv import core
from pv.gen.c10_scene import CELLS, CONDS, REPS

ID = 'C10'
RULE = ('case = one (table entry, representation, data condition) cell on a fresh random star field '
        '(36..46 px, 3-5 Gaussian stars; conditions: clean / negatives inside every star cutout / NaN+inf / '
        'mask given / mask given AND non-finite data at unmasked pixels; representations: ndarray, MaskedArray '
        'without and with masked pixels, Quantity, view of a larger array (offset, step-2 or reversed), Fortran '
        'order, integer dtype, float32); every caller-owned argument of every OUTERMOST public photutils call '
        '(and the retained constructor inputs of the object the call is made on) is deep-snapshotted at entry '
        'and compared at exit (return or raise), then every public property of every result is read under the '
        'same monitor. non-trivial = the data condition is physically present in the generated data AND at '
        'least one outermost public call with >= 1 snapshotted array argument returned normally; distinct by '
        'digest of (entry, cell, generated image, error, mask)')
CLASSES = list(CELLS)
MUST_REACH = ['photutils.profiles.core:ProfileBase._compute_mask',
              'photutils.centroids.gaussian:centroid_1dg',
              'photutils.centroids.gaussian:centroid_2dg',
              'photutils.detection.starfinder:StarFinder._get_raw_catalog',
              'photutils.detection.starfinder:_StarFinderCatalog.cutout_data',
              'photutils.background.background_2d:Background2D._calculate_stats',
              'photutils.aperture.stats:ApertureStats._data_cutouts',
              'photutils.segmentation.catalog:SourceCatalog.__init__',
              'photutils.psf.photometry:PSFPhotometry._validate_init_params',
              'photutils.centroids.core:centroid_com',
              'photutils.centroids.core:centroid_sources',
              'photutils.utils.errors:calc_total_error']
ANCHOR_FILES = ['profiles/core.py', 'centroids/gaussian.py', 'detection/starfinder.py',
                'background/background_2d.py', 'aperture/stats.py', 'segmentation/catalog.py',
                'psf/photometry.py', 'centroids/core.py', 'utils/errors.py']
MIN_NONTRIVIAL = {'quick': 1000, 'thorough': 20000}
ASSUMPTIONS = [
    'zlib.crc32 over the C-order bytes (+ dtype, shape, unit, mask bytes, ultimate base array bytes) is taken as '
    'bit-for-bit identity (collision probability 2^-32 per comparison)',
    'only changes that are still present when the outermost public call returns/raises are seen; a write that is '
    'undone before the call exits is invisible',
    'monitored kinds are the ones the statement lists (arrays, MaskedArrays, Quantities, NDData, kernels, '
    'footprints, tables, models, apertures, segmentation images, position arrays/lists, SkyCoord, EPSFStar(s)); '
    'estimator / sigma-clip / fitter / finder / grouper / WCS helper objects are not monitored',
    'methods documented as mutators of their own object are exempt for `self` only (SegmentationImage label '
    'editing methods and data setter, every property setter, EPSFStar.register_epsf/compute_residual_image); '
    'their arguments and the retained constructor inputs are still compared',
    'numpy, zlib, astropy containers are the trusted base; the sentinel never decides from the read-only re-run '
    '(localisation only)',
    'objects of kinds outside the statement\'s enumeration (plain dict arguments such as meta=, lists of isophotes / '
    'ePSF stars, EPSFStar(s), ApertureMask) are snapshotted too but a change there is only counted '
    '(notes ext_mutation|...), never a verdict',
    'max_deviation.case_wall_s is a timing (seconds), not an oracle deviation: the oracle is exact equality',
]
WORKER_ENV = {'PV_C10': '1'}
SUITE_SHARD = 9000        # shard number marking records of the test-suite leg (replayed per test module)

_S = None
_NE = None


def plan(tier):
    if tier == 'thorough':
        return dict(shards=16, cases=3600, timeout=2400, budget_s=560)
    return dict(shards=8, cases=760, timeout=600, budget_s=64)


# ----------------------------------------------------------------------
# self-test of the oracle (snapshot/diff) on facts independent of photutils
# ----------------------------------------------------------------------
def selftest():
    import astropy.units as u
    from astropy.nddata import NDData, StdDevUncertainty
    from astropy.table import QTable
    from pv import c10_sentinel as S

    def changed(obj, mutate, expect_kind, name='x'):
        s0 = S.snapshot([(name, obj)])
        mutate()
        s1 = S.snapshot([(name, obj)])
        kinds = {d['kind'] for d in S.diff(s0[name], s1[name])}
        assert expect_kind in kinds, (expect_kind, kinds)

    def unchanged(obj, act=lambda: None):
        s0 = S.snapshot([('x', obj)])
        act()
        s1 = S.snapshot([('x', obj)])
        assert S.diff(s0['x'], s1['x']) == [], S.diff(s0['x'], s1['x'])

    a = np.arange(12.0).reshape(3, 4)
    unchanged(a)
    unchanged(a, lambda: a.sum())
    changed(a, lambda: a.__setitem__((1, 2), -1.0), 'values')
    b = a.copy()
    b[0, 0] = np.nan
    changed(b, lambda: b.__setitem__((0, 0), -np.nan), 'values')         # NaN payload/sign is a bit change
    big = np.zeros((10, 10))
    v = big[2:5, 3:6]
    changed(v, lambda: big.__setitem__((0, 0), 1.0), 'base_values')       # write OUTSIDE the view
    changed(v, lambda: v.__setitem__((0, 0), 1.0), 'values')
    f = np.asfortranarray(np.arange(6.0).reshape(2, 3))
    unchanged(f)
    changed(f, lambda: f.__setitem__((1, 1), 9.0), 'values')
    m = np.ma.MaskedArray(np.arange(6.0), mask=[0, 0, 1, 0, 0, 0])
    changed(m, lambda: m.mask.__setitem__(0, True), 'mask')
    m2 = np.ma.MaskedArray(np.arange(6.0))
    changed(m2, lambda: setattr(m2, 'mask', [1, 0, 0, 0, 0, 0]), 'mask')  # nomask -> array
    m4 = np.ma.MaskedArray(np.arange(6.0))
    unchanged(m4, lambda: m4.__setattr__('mask', m4.mask | np.zeros(6, bool)))   # nomask -> all-False: same mask
    m3 = np.ma.MaskedArray(np.arange(6.0), mask=[0, 0, 1, 0, 0, 0])
    changed(m3, lambda: m3.data.__setitem__(2, 99.0), 'values')           # data under the mask
    q = np.arange(4.0) * u.Jy
    changed(q, lambda: q.__imul__(2.0), 'values')
    i = np.arange(4)
    changed(i, lambda: i.__setitem__(0, 7), 'values')
    t = QTable({'x': [1.0, 2.0], 'f': [3.0, 4.0] * u.Jy})
    t.meta['k'] = 1
    unchanged(t)
    changed(t, lambda: t.rename_column('x', 'x_0'), 'columns')
    changed(t, lambda: t['f'].__setitem__(0, 9 * u.Jy), 'values')
    changed(t, lambda: t.meta.__setitem__('k', 2), 'meta')
    t2 = QTable({'x': [1.0, 2.0], 'local_bkg': [3.0, 4.0] * u.mJy})
    col = t2['local_bkg']

    def inplace_convert():
        nonlocal col
        col <<= u.Jy                       # in-place unit conversion of the column object stored in the table
    changed(t2, inplace_convert, 'unit')
    t3 = QTable({'local_bkg': [3.0, 4.0] * u.mJy})
    c3 = t3['local_bkg']

    def inplace_convert3():
        nonlocal c3
        c3 <<= u.Jy
    changed(t3, inplace_convert3, 'values')
    unchanged(QTable({'f': [1.0] * u.mJy}), lambda: (QTable({'f': [1.0] * u.mJy})['f'].to(u.Jy)))
    nd = NDData(np.ones((3, 3)), mask=np.zeros((3, 3), bool), uncertainty=StdDevUncertainty(np.ones((3, 3))))
    changed(nd, lambda: nd.mask.__setitem__((0, 0), True), 'mask')
    changed(nd, lambda: nd.uncertainty.array.__setitem__((0, 0), 5.0), 'values')
    lst = [1.0, 2.0, 3.0]
    changed(lst, lambda: lst.append(4.0), 'len')
    lst2 = [np.zeros(3), np.ones(3)]
    changed(lst2, lambda: lst2[1].__setitem__(0, 5.0), 'values')
    from astropy.modeling.models import Gaussian2D
    g = Gaussian2D()
    changed(g, lambda: setattr(g, 'amplitude', 3.0), 'param_value')
    changed(g, lambda: setattr(g.x_mean, 'fixed', True), 'fixed')
    changed(g, lambda: setattr(g.x_mean, 'bounds', (0, 1)), 'bounds')


# ----------------------------------------------------------------------
# worker side
# ----------------------------------------------------------------------
def setup(tier):
    global _S, _NE
    from pv import c10_sentinel as S
    from pv.gen import c10_entries
    _S = S
    info = S.install()
    _NE = len(c10_entries.ENTRIES)
    import matplotlib
    matplotlib.use('Agg')
    return {'surface': {k: v for k, v in info.items() if k != 'notes'}, 'table_entries': _NE,
            'install_notes': info.get('notes', [])[:5]}


def teardown():
    s = _S.summary()
    return {'stats': s['stats'], 'entry_calls': s['entry_calls'], 'entry_args': s['entry_args'],
            'surface_size': len(s['surface']), 'never_reached': s['never_reached'],
            'last_error': s['last_error']}


def _entry_for(case):
    from pv.gen import c10_entries
    names = list(c10_entries.ENTRIES)
    nsh = plan(case.tier)['shards']
    cell = CLASSES.index(case.cls)
    block = case.idx // len(CLASSES)
    ne = len(names)
    # diagonal enumeration of (entry, cell) pairs: offset j-th diagonal = j * stride (stride ~ ne / shards, coprime
    # with ne), so that already the FIRST block of the shards touches every table entry (a budget-limited run
    # under load then thins every entry evenly instead of starving the entries at the end of the table)
    import math
    stride = max(1, ne // max(nsh, 1))
    while math.gcd(stride, ne) != 1:
        stride += 1
    j = block * nsh + max(case.shard, 0)
    return names[(cell + j * stride) % ne]


def _run_entry(name, seed, rep, cond, readonly=False, on_own=None):
    from pv.gen import c10_entries
    from pv.gen.c10_scene import Ctx
    ctx = Ctx.__new__(Ctx)
    if on_own is not None:
        base_own = Ctx.own

        def own(obj, nm, _b=base_own):
            r = _b(ctx, obj, nm)
            on_own(ctx.owned[-1][0], obj)
            return r
        ctx.own = own
    Ctx.__init__(ctx, np.random.default_rng(seed), rep, cond, readonly=readonly)
    ctx.aborted = None
    try:
        c10_entries.ENTRIES[name](ctx)
    except Exception as exc:  # noqa: BLE001
        # an exception that escaped c.call (harness-side follow-up code on an unexpected result, or a read-only
        # re-run hitting the write): the entry stops here; everything observed so far is still compared.
        if readonly:
            raise
        ctx.aborted = f'{type(exc).__name__}'
    return ctx


def _localise(name, seed, rep, cond, names=True):
    """Informational only: re-run with the flagged owned arrays read-only; the traceback names the writing line."""
    S = _S
    S._enabled = False
    try:
        _run_entry(name, seed, rep, cond, readonly=names)
        return {'write_site': None, 'note': 'no exception with the arrays read-only'}
    except Exception as exc:  # noqa: BLE001
        tb = traceback.extract_tb(exc.__traceback__)
        site = None
        for fr in tb:
            if '/photutils/' in fr.filename and '/verif/' not in fr.filename:
                site = f"{fr.filename.split('/photutils/', 1)[1]}:{fr.lineno} in {fr.name}: {fr.line}"
        return {'exc': f'{type(exc).__name__}: {exc}'[:160], 'write_site': site}
    finally:
        S._enabled = True


def _mech(entry, arg, kind, subpath):
    """Mechanism key: entry point + argument + kind (+ `sub`: where inside a composite argument, with list
    indices and column / key names removed, e.g. '.uncertainty.array', '.mask', '.meta')."""
    import re
    m = {'entry': entry, 'arg': arg, 'kind': kind}
    sub = re.sub(r'\[[^\]]*\]', '', subpath or '')
    if sub:
        m['sub'] = sub
    return m


def run_case(case):
    if case.shard >= SUITE_SHARD:
        return _replay_testsuite_module(case)
    S = _S
    rep, cond = case.cls.split('/')
    name = _entry_for(case)
    seed = int(case.rng.integers(0, 2 ** 62))
    own_snaps = {}

    def on_own(nm, obj):
        S._enabled = False
        try:
            own_snaps[nm] = (obj, S.snapshot([(nm, obj)]).get(nm))
        finally:
            S._enabled = True

    t0 = time.time()
    S.begin(context=name)
    try:
        ctx = _run_entry(name, seed, rep, cond, on_own=on_own)
    finally:
        events = S.end()

    case.params = dict(entry=name, rep=rep, cond=cond, shape=list(ctx.shape), calls=ctx.ncalls,
                       raised=len(ctx.raised), outer_public_calls=len(events), property_reads=ctx.nreads)
    case.digest = core.digest([core.arr_digest(ctx.raw, ctx.raw_err, ctx.raw_mask), name, case.cls])
    ok_calls = 0
    seen = set()
    locs = {}
    nargs = nbytes = 0
    for ev in events:
        bad = {}
        for d in ev['diffs']:
            bad.setdefault(d['arg'], []).append(d)
        if not ev['raised'] and any(nb > 0 for _, _, nb in ev['args']):
            ok_calls += 1
        for (arg, narr, nb) in ev['args']:
            nargs += 1
            nbytes += nb
            if arg not in bad:
                case.check(True, 'input_unchanged')
                continue
            kinds = {}
            for d in bad[arg]:
                if d.get('ext'):
                    # kind of object outside the property's enumeration: recorded, never a verdict
                    case.note(f"ext_mutation|{ev['entry']}|{arg}|{d['ext']}|{d['kind']}")
                    continue
                kinds.setdefault(d['kind'], d)
            if not kinds:
                case.check(True, 'input_unchanged')
                continue
            for kind, d in kinds.items():
                key = (ev['entry'], arg, kind)
                if key in seen:
                    case.nchecks += 1
                    continue
                seen.add(key)
                ids = set(d.get('ids', ()))
                ro = frozenset(nm for nm, (obj, _s) in own_snaps.items()
                               if isinstance(obj, np.ndarray) and (ids & S.reachable_ids(obj)))
                if ro not in locs and len(locs) < 4:
                    locs[ro] = _localise(name, seed, rep, cond, set(ro) if ro else True)
                loc = locs.get(ro)
                case.check(False, 'input_unchanged',
                           _mech(ev['entry'], arg, kind, d['subpath']),
                           table_entry=name, rep=rep, cond=cond, subpath=d['subpath'], defn=ev['defn'],
                           call_kind=ev['kind'], raised=ev['raised'], change=d['detail'], localisation=loc)
    # case-level sentinel: everything the harness handed out, compared once more at the end of the case.
    # Independent of argument binding / depth logic of the wrappers: reports only what they did not.
    S._enabled = False
    try:
        flagged_ids = set()
        for ev in events:
            for d in ev['diffs']:
                flagged_ids.update(d.get('ids', ()))
        for nm, (obj, s0) in own_snaps.items():
            if s0 is None:
                continue
            s1 = S.snapshot([(nm, obj)]).get(nm)
            diffs = S.diff(s0, s1) if s1 is not None else [{'kind': 'structure', 'subpath': '', 'detail': {}}]
            if any(d['kind'] == 'fill_value' for d in diffs):
                case.note(f"ext_mutation|{name}|{nm.split('#')[0]}|fill_value|fill_value|case_level")
                diffs = [d for d in diffs if d['kind'] != 'fill_value']
            if not diffs:
                case.check(True, 'scene_object_unchanged')
            elif flagged_ids & S.reachable_ids(obj):
                case.nchecks += 1          # already attributed to a public call by the wrappers
            elif S.ext_kind(obj):
                case.note(f"ext_mutation|{name}|{nm.split('#')[0]}|{S.ext_kind(obj)}|{diffs[0]['kind']}")
            else:
                d = diffs[0]
                case.check(False, 'scene_object_unchanged',
                           {'entry': name, 'arg': nm.split('#')[0], 'kind': d['kind'], 'missed_by_wrappers': True},
                           rep=rep, cond=cond, subpath=d['subpath'], change=d['detail'])
    finally:
        S._enabled = True
    case.nontrivial = bool(ctx.present and ok_calls > 0)
    case.note('outer_public_calls', len(events))
    case.note('args_compared', nargs)
    case.note('bytes_snapshotted', nbytes)
    case.note('calls_raised', sum(1 for ev in events if ev['raised']))
    case.note('harness_calls', ctx.ncalls)
    case.note('harness_calls_raised', len(ctx.raised))
    case.note('property_reads', ctx.nreads)
    case.note('property_reads_raised', ctx.read_errors)
    case.note('owned_objects_compared', len(own_snaps))
    if not ctx.present:
        case.note('condition_absent')
    if ctx.aborted:
        case.note(f'entry_aborted|{name}|{ctx.aborted}')
    for k in getattr(ctx, 'axes', {}):
        case.note(k if k.startswith('axis2_') else 'axis|' + k)
    if not getattr(ctx, 'axes', {}):
        case.note('axis|plain_case')
    case.dev('case_wall_s', time.time() - t0)
    if os.environ.get('PV_C10_DEBUG'):
        case.params['raised_detail'] = ctx.raised[:6]


# ----------------------------------------------------------------------
# driver side: coverage of the generated workload + M8 (test-suite)
# ----------------------------------------------------------------------
def _repo():
    return os.path.abspath(os.environ.get('PV_REPO') or '/repo')


def _verif():
    return os.path.dirname(os.path.dirname(os.path.dirname(os.path.abspath(__file__))))


def _generated_coverage(tmpdir):
    tails, cases = [], []
    for p in sorted(glob.glob(os.path.join(tmpdir, 'shard*.jsonl'))):
        with open(p) as f:
            for line in f:
                try:
                    r = json.loads(line)
                except Exception:  # noqa: BLE001
                    continue
                if r.get('kind') == 'tail':
                    tails.append(r.get('teardown') or {})
                elif r.get('kind') == 'case':
                    cases.append(r)
    calls, args, stats = {}, {}, {}
    never = None
    surface = 0
    for t in tails:
        for k, v in t.get('entry_calls', {}).items():
            calls[k] = calls.get(k, 0) + v
        for k, v in t.get('entry_args', {}).items():
            args[k] = args.get(k, 0) + v
        for k, v in t.get('stats', {}).items():
            stats[k] = stats.get(k, 0) + v
        nr = set(t.get('never_reached', []))
        never = nr if never is None else (never & nr)
        surface = max(surface, t.get('surface_size', 0))
    cells, per_entry, raised = {}, {}, {}
    for r in cases:
        p = r.get('params') or {}
        if 'entry' not in p:
            continue
        key = f"{p['rep']}/{p['cond']}"
        cells[key] = cells.get(key, 0) + 1
        e = per_entry.setdefault(p['entry'], {'cases': 0, 'cells': set(), 'calls': 0, 'raised': 0})
        e['cases'] += 1
        e['cells'].add(key)
        e['calls'] += p.get('calls', 0)
        e['raised'] += p.get('raised', 0)
    cov = {
        'table_entries_run': len(per_entry),
        'entry_x_cell_pairs_run': sum(len(e['cells']) for e in per_entry.values()),
        'cells_run': len(cells), 'cells_total': len(CELLS),
        'per_table_entry': {k: {'cases': v['cases'], 'cells': len(v['cells']), 'harness_calls': v['calls'],
                                'harness_calls_raised': v['raised']} for k, v in sorted(per_entry.items())},
        'public_entry_points_wrapped': surface,
        'public_entry_points_reached': len(calls),
        'public_entry_points_reached_with_args_compared': len(args),
        'reached_names': {k: calls[k] for k in sorted(calls)},
        'never_reached_names': sorted(never or []),
        'sentinel_stats': stats,
    }
    return cov


def _pytest_leg(tmpdir, files=None, nproc=8, timeout=2400):
    out = os.path.join(tmpdir, 'c10_pytest_events')
    os.makedirs(out, exist_ok=True)
    env = dict(os.environ)
    verif = _verif()
    pp = verif + os.pathsep + os.path.join(verif, '.deps')
    repo = _repo()
    if repo != '/repo':
        pp = repo + os.pathsep + pp
    env.update(PYTHONPATH=pp, PV_C10_OUT=out, PYTHONDONTWRITEBYTECODE='1', PYTHONHASHSEED='0',
               MPLBACKEND='Agg', OMP_NUM_THREADS='1', OPENBLAS_NUM_THREADS='1')
    cmd = ['/venv/bin/python', '-m', 'pytest', '-q', '-p', 'no:cacheprovider', '-p', 'pv.c10_pytest_plugin']
    if nproc and nproc > 1:
        cmd += ['-n', str(nproc)]
    cmd += list(files) if files else ['photutils']
    t0 = time.time()
    try:
        p = subprocess.run(cmd, cwd=repo, env=env, capture_output=True, text=True, timeout=timeout)
        tail = (p.stdout or '')[-400:]
        rc = p.returncode
    except subprocess.TimeoutExpired:
        tail, rc = 'timeout', 'timeout'
    recs = []
    for f in sorted(glob.glob(os.path.join(out, '*.json'))):
        try:
            with open(f) as fh:
                recs.append(json.load(fh))
        except Exception:  # noqa: BLE001
            pass
    return recs, rc, tail, time.time() - t0


def _module_list():
    repo = _repo()
    files = sorted(os.path.relpath(p, repo) for p in glob.glob(os.path.join(repo, 'photutils', '**', '*.py'),
                                                                recursive=True))
    return files


def _suite_records(recs, tier, seed):
    files = _module_list()
    index = {f: i for i, f in enumerate(files)}
    per_mod = {}
    ext = {}
    stats, calls, surface = {}, {}, {}
    tests = 0
    for r in recs:
        if r.get('worker') == 'main' and len(recs) > 1:
            continue
        tests += r.get('tests', 0)
        for k, v in r.get('stats', {}).items():
            stats[k] = stats.get(k, 0) + v
        for k, v in r.get('entry_calls', {}).items():
            calls[k] = calls.get(k, 0) + v
        surface.update(r.get('surface', {}))
        for m, v in r.get('per_module', {}).items():
            pm = per_mod.setdefault(m, {'tests': 0, 'outer_calls': 0, 'args': 0, 'bytes': 0, 'viol': {}})
            for k in ('tests', 'outer_calls', 'args', 'bytes'):
                pm[k] += v.get(k, 0)
        for ev in r.get('events', []):
            node = ev.get('context') or 'unknown'
            m = node.split('::', 1)[0]
            pm = per_mod.setdefault(m, {'tests': 0, 'outer_calls': 0, 'args': 0, 'bytes': 0, 'viol': {}})
            for d in ev['diffs']:
                key = (ev['entry'], d['arg'], d['kind'])
                if d.get('ext'):
                    k2 = f"ext_mutation|{ev['entry']}|{d['arg']}|{d['ext']}|{d['kind']}"
                    ext[k2] = ext.get(k2, 0) + 1
                    continue
                if key not in pm['viol']:
                    pm['viol'][key] = {'what': 'input_unchanged',
                                       'mech': _mech(ev['entry'], d['arg'], d['kind'], d['subpath']),
                                       'detail': core._jsonable({'test': node, 'subpath': d['subpath'], 'defn': ev['defn'],
                                                                 'raised': ev['raised'], 'change': d['detail'],
                                                                 'workload': 'repository test-suite'})}
    out = []
    for m, pm in sorted(per_mod.items()):
        if pm['outer_calls'] == 0 and not pm['viol']:
            continue
        out.append({'kind': 'case', 'pid': ID, 'tier': tier, 'seed': seed, 'shard': SUITE_SHARD,
                    'idx': index.get(m, 0), 'cls': 'testsuite',
                    'params': {'workload': 'repository test-suite', 'module': m, 'tests': pm['tests'],
                               'outer_public_calls': pm['outer_calls'], 'args_compared': pm['args'],
                               'bytes': pm['bytes']},
                    'digest': core.digest(['suite', m]), 'nontrivial': pm['args'] > 0,
                    'nchecks': pm['args'], 'violations': list(pm['viol'].values())[:20], 'skipped': None,
                    'maxdev': {}, 'notes': {'suite_outer_public_calls': pm['outer_calls'],
                                            'suite_args_compared': pm['args'], 'suite_bytes': pm['bytes']},
                    'error': None})
    never = sorted(k for k in surface if k not in calls and not k.endswith('[set]'))
    cov = {'tests_run_under_sentinel': tests, 'modules_with_public_calls': len(out),
           'public_entry_points_wrapped': len(surface), 'public_entry_points_reached': len(calls),
           'reached_names': {k: calls[k] for k in sorted(calls)}, 'never_reached_names': never,
           'sentinel_stats': stats, 'ext_kind_mutations_informational': ext}
    return out, cov


def _surface_audit(reached):
    """Public callables exported by every photutils sub-package (its `__all__`, else its public names) vs the ones
    the generated workload reached as an outermost public call (a class counts when any of its wrapped members,
    constructor included, was reached).  Runs in a subprocess: the driver itself never imports photutils."""
    code = r'''
import importlib, inspect, json, pkgutil, sys, warnings
warnings.simplefilter("ignore")
import photutils
out = {}
subs = ["photutils." + m.name for m in pkgutil.iter_modules(photutils.__path__) if m.ispkg and m.name not in ("tests", "extern")]
subs += ["photutils.psf.matching"]
for sp in subs:
    try:
        mod = importlib.import_module(sp)
    except Exception:
        continue
    names = getattr(mod, "__all__", None) or [n for n in dir(mod) if not n.startswith("_")]
    for n in names:
        o = getattr(mod, n, None)
        if o is None or not callable(o) or inspect.ismodule(o):
            continue
        m = str(getattr(o, "__module__", ""))
        if not m.startswith("photutils"):
            continue
        if inspect.isclass(o) and issubclass(o, Warning):
            continue
        kind = "class" if inspect.isclass(o) else ("function" if inspect.isfunction(o) else "compiled")
        out[sp + ":" + n] = [m + "." + getattr(o, "__qualname__", n), kind]
json.dump(out, sys.stdout)
'''
    try:
        env = dict(os.environ)
        repo = _repo()
        if repo != '/repo':
            env['PYTHONPATH'] = repo + os.pathsep + env.get('PYTHONPATH', '')
        p = subprocess.run(['/venv/bin/python', '-c', code], capture_output=True, text=True, timeout=300, env=env)
        exported = json.loads(p.stdout)
    except Exception as exc:  # noqa: BLE001
        return {'error': f'{type(exc).__name__}: {exc}'[:200]}
    reached = set(reached)
    # a class defined in module M as Q is reached when some reached name starts with a class of its MRO; the
    # sentinel names members by their DEFINING class, so compare on the runtime-independent prefix M.Q.
    prefixes = {}
    for r in reached:
        parts = r.rsplit('.', 1)
        prefixes.setdefault(parts[0], 0)
        prefixes[parts[0]] += 1
    uniq = {}
    for exp, (qual, kind) in exported.items():
        uniq.setdefault(qual, (kind, []))[1].append(exp)
    covered, uncovered = [], []
    for qual, (kind, exps) in sorted(uniq.items()):
        ok = (qual in reached) if kind != 'class' else (qual in prefixes)
        (covered if ok else uncovered).append(qual)
    reasons = {}
    for q in uncovered:
        if '.datasets.load.' in q:
            reasons[q] = 'needs network / remote data files (no caller-owned arrays)'
        elif '.geometry.' in q:
            reasons[q] = 'compiled kernel, scalar arguments only; called by the table entry `geometry` but not wrappable'
        elif q.endswith('Mixin') or '.attributes.' in q or q.endswith('Base') or q.endswith('.Aperture') \
                or q.endswith('PixelAperture') or q.endswith('SkyAperture'):
            reasons[q] = 'abstract base / mixin / descriptor: reached only through its concrete subclasses'
        else:
            reasons[q] = 'NOT covered'
    return {'exported_names': len(exported), 'exported_distinct_callables': len(uniq),
            'covered_callables': len(covered), 'uncovered_callables': len(uncovered),
            'uncovered': reasons,
            'uncovered_without_reason': sorted(q for q, r in reasons.items() if r == 'NOT covered')}


def _member_audit(gen):
    """Public MEMBERS (constructor, __call__, listed dunders, public methods, properties, lazyproperties) of the
    exported classes and of their photutils bases, as wrapped by the sentinel: reached as an outermost call vs not."""
    reached = set(gen.get('reached_names', {}))
    never = list(gen.get('never_reached_names', []))
    reasons = {}
    bases = ('.core.Aperture.', '.core.PixelAperture.', '.core.SkyAperture.', 'MaskMixin.', '.BackgroundBase.',
             '.BackgroundRMSBase.', '.StarFinderBase.', '.ProfileBase.', '.ModelImageMixin.', '._LegacyEPSFModel.',
             '.attributes.')
    for n in never:
        if '.datasets.load.' in n:
            reasons[n] = 'needs network / remote data files'
        elif any(b in n for b in bases):
            reasons[n] = 'defined on an abstract base / mixin / descriptor and overridden (or only evaluated nested) in every concrete class the workload uses'
        elif n.endswith(('.isscalar', '.n_apertures', '.nlabels')):
            reasons[n] = 'lazyproperty evaluated (and cached) inside the constructor: never an outermost call'
        elif 'Interpolator.__call__' in n:
            reasons[n] = 'called only by Background2D with its private mesh state (nested); covered through Background2D(interpolator=...)'
        elif n.rsplit('.', 1)[-1] in ('__init__',) and ('Mixin' in n or 'Base' in n):
            reasons[n] = 'abstract base constructor'
        else:
            reasons[n] = 'NOT reached as an outermost call (evaluated only nested inside another public call, or absent from the table)'
    unexplained = sorted(n for n, r in reasons.items() if r.startswith('NOT reached'))
    return {'public_members_wrapped': gen.get('public_entry_points_wrapped', 0),
            'public_members_reached': len(reached),
            'public_members_not_reached': len(never),
            'public_members_not_reached_reasons': reasons,
            'public_members_not_reached_unexplained': unexplained}


def driver_legs(tier, seed, tmpdir, only=None):
    info = {}
    records = []
    gen = _generated_coverage(tmpdir)
    audit = _surface_audit(gen.get('reached_names', {})) if gen.get('table_entries_run') else {}
    if audit and 'error' not in audit:
        audit.update(_member_audit(gen))
    gen['surface_audit'] = audit
    if audit and 'error' not in audit:
        records.append({'kind': 'case', 'pid': ID, 'tier': tier, 'seed': seed, 'shard': SUITE_SHARD + 1, 'idx': 0,
                        'cls': 'surface_audit', 'params': {'workload': 'surface audit (no oracle)'},
                        'digest': core.digest(['surface_audit']), 'nontrivial': False, 'nchecks': 0,
                        'violations': [], 'skipped': None, 'maxdev': {},
                        'notes': {'surface_exported_callables': audit['exported_distinct_callables'],
                                  'surface_covered_callables': audit['covered_callables'],
                                  'surface_uncovered_callables': audit['uncovered_callables'],
                                  'surface_uncovered_without_reason': len(audit['uncovered_without_reason']),
                                  'surface_public_members_wrapped': audit.get('public_members_wrapped', 0),
                                  'surface_public_members_reached': audit.get('public_members_reached', 0),
                                  'surface_public_members_not_reached': audit.get('public_members_not_reached', 0),
                                  'surface_public_members_unexplained': len(audit.get('public_members_not_reached_unexplained', []))},
                        'error': None})
    inc = []
    if gen['table_entries_run'] and gen['cells_run'] < gen['cells_total']:
        inc.append(f"generated workload covered {gen['cells_run']} of {gen['cells_total']} representation x condition cells")
    errs = gen['sentinel_stats'].get('snapshot_errors', 0)
    if errs:
        inc.append(f'{errs} snapshot error(s) inside the sentinel (comparison skipped for those calls)')
    info['generated_workload'] = {'coverage': gen, 'inconclusive': inc}
    if tier == 'thorough':
        recs, rc, tail, wall = _pytest_leg(tmpdir)
        srecs, cov = _suite_records(recs, tier, seed)
        records += srecs
        cov['wall_s'] = round(wall, 1)
        # M6 contracts evaluated while the suite ran (owned by other properties: shown, not judged here)
        ce, cb = {}, {}
        for r in recs:
            rep = (r.get('contracts') or {}) if isinstance(r, dict) else {}
            for k, v in rep.get('evaluations', {}).items():
                ce[k] = ce.get(k, 0) + v
            for b in rep.get('broken', []):
                cb[b['contract']] = cb.get(b['contract'], 0) + 1
        cov['contracts_under_suite'] = {'evaluations': ce, 'broken': cb}
        cov['pytest_exit'] = rc
        cov['pytest_tail'] = tail.strip().splitlines()[-1:] if isinstance(tail, str) else tail
        inc2 = []
        if rc == 'timeout':
            inc2.append('test-suite leg timed out')
        if cov['tests_run_under_sentinel'] < 1000:
            inc2.append(f"test-suite leg ran only {cov['tests_run_under_sentinel']} tests under the sentinel")
        if cov['sentinel_stats'].get('outer_calls', 0) < 2000:
            inc2.append('test-suite leg observed fewer than 2000 outermost public calls')
        if cov['sentinel_stats'].get('snapshot_errors', 0):
            inc2.append(f"{cov['sentinel_stats']['snapshot_errors']} snapshot error(s) in the test-suite leg")
        # union over both workloads
        both = set(gen['reached_names']) | set(cov['reached_names'])
        surf = set(gen['reached_names']) | set(gen['never_reached_names'])
        cov['union_reached_generated_or_suite'] = len(both)
        cov['never_reached_by_either'] = sorted(n for n in surf if n not in both)
        info['testsuite_workload'] = {'coverage': cov, 'inconclusive': inc2}
    return records, info


def _replay_testsuite_module(case):
    """./check C10 --replay <file of a test-suite record>: shard == SUITE_SHARD, idx = index of the module."""
    files = _module_list()
    mod = files[case.idx % len(files)]
    import tempfile
    tmp = tempfile.mkdtemp(prefix='c10_replay_')
    recs, rc, tail, wall = _pytest_leg(tmp, files=[mod] + (['--doctest-modules'] if '/tests/' not in mod else []),
                                       nproc=0, timeout=900)
    out, cov = _suite_records(recs, case.tier, case.seed)
    case.params = {'workload': 'repository test-suite', 'module': mod, 'pytest_exit': rc}
    case.nontrivial = True
    for r in out:
        case.nchecks += r['nchecks']
        for v in r['violations']:
            case.check(False, v['what'], v['mech'], **v['detail'])
    import shutil
    shutil.rmtree(tmp, ignore_errors=True)
