"""C02 Aperture sums are mask-weighted sums over unmasked in-image pixels.

M1: the aperture's own to_mask() output (weights + integer box, judged by C01)
is pasted into a full-frame weight map by the harness' own index arithmetic
(pv.ref.c02_apphot); expected sum / error / area are taken over
{in image, W > 0, not masked}.  Observed: aperture_photometry columns,
PixelAperture.do_photometry, area_overlap, ApertureMask.get_values / multiply.
M2: N positions = N single calls, list of apertures = one at a time,
linearity in data, independence of masked / zero-weight pixel values,
sky aperture = its to_pixel(wcs) image, NDData / Quantity / Region call forms.
"""
from __future__ import annotations

import math

import numpy as np

from pv import core
from pv.gen import c02_apertures as G
from pv.ref import c02_apphot as R

ID = 'C02'
RULE = ('random images 1x1..48x48 (signed noise, small-integer ties, ramps, blobs; NaN/inf sprinkled; integer dtypes), '
        'optional error map and boolean mask, one of the six pixel aperture classes (or its sky twin / regions twin) with '
        'tiny..large sizes, method exact/center/subpixel(1..9), 1-5 positions placed inside / across each edge and corner / '
        'grazing the frame / fully outside / far away; non-trivial = some position has >= 2 in-image, positive-weight, '
        'unmasked pixels carrying non-constant data; distinct by digest of (data, error, mask, aperture parameters, '
        'positions, method, call form)')
CLASSES = ['inside', 'edge', 'corner', 'outside', 'tiny_image', 'naninf', 'masked', 'fullmask', 'multi',
           'aplist', 'linear', 'poke', 'sky', 'nddata', 'quantity', 'region', 'intdata']
MUST_REACH = ['photutils.aperture.photometry:aperture_photometry',
              'photutils.aperture.core:PixelAperture.do_photometry',
              'photutils.aperture.core:PixelAperture.area_overlap',
              'photutils.aperture.mask:ApertureMask._get_overlap_cutouts',
              'photutils.aperture.mask:ApertureMask.get_values',
              'photutils.aperture.mask:ApertureMask.multiply',
              'photutils.aperture.core:SkyAperture._to_pixel_params',
              'photutils.aperture.converters:region_to_aperture',
              'photutils.utils._wcs_helpers:_pixel_scale_angle_at_skycoord']
ANCHOR_FILES = ['aperture/core.py', 'aperture/mask.py', 'aperture/photometry.py', 'aperture/converters.py',
                'utils/_wcs_helpers.py', 'aperture/bounding_box.py']
MIN_NONTRIVIAL = {'quick': 600, 'thorough': 20000}
ASSUMPTIONS = ['the weights and integer box returned by Aperture.to_mask() are taken as given (judged by C01)',
               'numpy elementwise arithmetic, boolean indexing and math.fsum are trusted',
               'astropy.wcs.WCS (undistorted TAN), SkyCoord, NDData and Quantity are trusted',
               'sums are compared at 1e-10 relative to the sum of |terms| (summation order only)']

RTOL_SUM = 1e-10
RTOL_LIN = 1e-9
# area_overlap adds *all* in-image weights, the statement says "positive weight": 'exact' annulus masks carry
# rounding residues of either sign (outer minus inner overlap, measured |w| <= 2e-15 per pixel), so the two
# differ by at most (pixels in the box) * residue. Absolute slack per in-image box pixel:
ATOL_AREA_PER_PIXEL = 1e-13
NEG_RESIDUE = 1e-12      # an in-image weight below -1e-12 is not a rounding residue (a C01 matter); flagged in the mechanism


def plan(tier):
    if tier == 'thorough':
        return dict(shards=16, cases=9000, timeout=1800, budget_s=560)
    return dict(shards=8, cases=650, timeout=600, budget_s=70)


def selftest():
    R.selftest()


# ----------------------------------------------------------------------
# generation
# ----------------------------------------------------------------------
def _gen_shape(rng, cls):
    if cls != 'tiny_image' and rng.random() < 0.1:
        return G.gen_elongated_shape(rng)           # axis (iv): strongly non-square frames, any class
    if cls == 'tiny_image':
        return [(1, 1), (1, int(rng.integers(1, 10))), (int(rng.integers(1, 10)), 1), (2, 2), (1, 2), (2, 3),
                (3, 2)][int(rng.integers(0, 7))]
    if rng.random() < 0.15:
        return int(rng.integers(2, 7)), int(rng.integers(2, 7))
    return int(rng.integers(5, 49)), int(rng.integers(5, 49))


def _locs_for(rng, cls, n):
    if cls == 'inside':
        pool = ['inside', 'inside', 'integer', 'half']
    elif cls == 'edge':
        pool = ['left', 'right', 'bottom', 'top']
    elif cls == 'corner':
        pool = ['corner_bl', 'corner_br', 'corner_tl', 'corner_tr']
    elif cls == 'outside':
        pool = ['outside', 'graze', 'graze', 'far']
    else:
        pool = ['inside', 'inside', 'left', 'right', 'bottom', 'top', 'corner_bl', 'corner_tr', 'corner_br',
                'corner_tl', 'graze', 'outside', 'integer', 'half', 'tangent']
    return [str(rng.choice(pool)) for _ in range(n)]


def _gen(case):
    rng, cls = case.rng, case.cls
    shape = _gen_shape(rng, cls)
    style = str(rng.choice(['noise', 'ints', 'ramp', 'blob', 'noise', 'ramp']))
    if rng.random() < 0.03:
        style = 'const'
    data = G.gen_image(rng, shape, style)
    if cls == 'naninf' or rng.random() < 0.08:
        data = G.sprinkle_nonfinite(rng, data, frac=float(rng.choice([0.03, 0.1, 0.3])))
    if cls == 'intdata':
        dt = str(rng.choice(['int16', 'int32', 'int64', 'uint8', 'uint16', 'float32']))
        data = np.round(np.clip(np.nan_to_num(data, nan=0, posinf=50, neginf=0), 0, 200)).astype(dt)
    error = None
    if rng.random() < (0.9 if cls in ('nddata', 'quantity', 'linear', 'poke') else 0.6):
        error = rng.uniform(0.1, 5.0, shape)
        if cls == 'naninf' and rng.random() < 0.4:
            error[rng.random(shape) < 0.05] = np.nan
        if cls == 'intdata' and rng.random() < 0.5:
            error = np.round(error).astype('int32')
    # axis (i): overall magnitude of data and (independently) of the error map
    mag, maglab = (1.0, 'int_dtype') if data.dtype.kind != 'f' or data.dtype.itemsize < 8 else G.gen_magnitude(rng)
    emag, emaglab = G.gen_magnitude(rng)
    if mag != 1.0:
        data = data * mag
    if error is not None and error.dtype.kind == 'f' and emag != 1.0:
        error = error * emag
    else:
        emag, emaglab = 1.0, 'plain'
    # axis (vii): dtype kind of the image and of the error map, independently (plain magnitude only: the narrow
    # dtypes have their own ranges)
    ddt = edt = 'float64'
    if cls != 'intdata' and data.dtype == np.float64 and mag == 1.0 and rng.random() < 0.3:
        data, ddt = G.to_dtype(rng, data, 'data')
    if error is not None and error.dtype == np.float64 and emag == 1.0 and rng.random() < 0.25:
        error, edt = G.to_dtype(rng, error, 'error')
    mask = None
    if cls == 'masked':
        mask = G.gen_mask(rng, shape, str(rng.choice(['random', 'block', 'rowcol', 'dense'])))
    elif cls == 'fullmask':
        mask = G.gen_mask(rng, shape, str(rng.choice(['full', 'dense', 'block'])))
    elif rng.random() < (0.7 if cls in ('poke', 'nddata') else 0.3):
        mask = G.gen_mask(rng, shape, str(rng.choice(['random', 'block', 'rowcol', 'empty'])))

    # axis (xi): caller-owned all-False / all-True masks in any class
    r = rng.random()
    maskkind = 'none' if mask is None else 'generated'
    if cls not in ('masked', 'fullmask') and r < 0.09:
        mask = np.zeros(shape, bool) if r < 0.06 else np.ones(shape, bool)
        maskkind = 'all_false' if r < 0.06 else 'all_true'
    kind = str(rng.choice(G.KINDS))
    size = None
    if min(shape) <= 3:
        size = str(rng.choice(['tiny', 'small']))
    params, ext = G.gen_shape(rng, kind, size)
    halfint = False
    if rng.random() < 0.15:
        params, halfint = G.snap_half(rng, kind, params), True      # axis (ix): edges exactly on pixel centres / edges
    npos = 1
    if cls == 'multi':
        npos = int(rng.integers(2, 6))
    elif rng.random() < 0.35:
        npos = int(rng.integers(1, 4))
    locs = _locs_for(rng, cls, npos)
    positions = [G.gen_position(rng, loc, shape, ext) for loc in locs]
    scalar = (npos == 1 and rng.random() < 0.6)
    if cls == 'region':
        npos, scalar = 1, True
        locs, positions = locs[:1], positions[:1]
    method = str(rng.choice(G.METHODS))
    subpixels = int(rng.integers(1, 10))
    # axis (iii): memory layout of each array, independently
    layout = {k: str(rng.choice(G.LAYOUTS)) for k in ('data', 'error', 'mask')}
    return dict(shape=shape, style=style, data=data, error=error, mask=mask, kind=kind, params=params, ext=ext,
                positions=positions, locs=locs, scalar=scalar, method=method, subpixels=subpixels,
                mag=mag, maglab=maglab, emag=emag, emaglab=emaglab, layout=layout, ddt=ddt, edt=edt,
                maskkind=maskkind, halfint=halfint)


# ----------------------------------------------------------------------
# helpers
# ----------------------------------------------------------------------
_LAY = {}      # id(canonical array) -> layout code of the copies handed to the library (set per case)


def _cp(a):
    """A fresh copy for the library (inputs are never shared with the oracle), in the case's memory layout."""
    if a is None:
        return None
    code = _LAY.get(id(a))
    return G.relayout(a, code) if code else a.copy()


def _masks(ap, method, subpixels):
    m = ap.to_mask(method=method, subpixels=subpixels)
    return [m] if ap.isscalar else list(m)


def _vals(col):
    """numeric values of a table column / Quantity / array as a 1-D float array"""
    v = getattr(col, 'value', col)
    return np.atleast_1d(np.asarray(v, dtype=float))


def _unit(col):
    u = getattr(col, 'unit', None)
    return None if u is None else str(u)


def _oracle(ap, data, error, mask, method, subpixels):
    """Per-position expected values from the aperture's own masks + own index arithmetic."""
    out = []
    for m in _masks(ap, method, subpixels):
        mdata = np.array(m.data, dtype=float, copy=True)
        box = R.box_of(m)
        W, inbox, overlap = R.weight_map(data.shape, mdata, box)
        s, scale = R.ref_sum(data, W, overlap, mask)
        e = None if error is None else R.ref_err(error, W, overlap, mask)
        a = R.ref_area(W, overlap, mask)
        S = R.good_set(W, mask) if overlap else np.zeros(data.shape, bool)
        ny, nx = data.shape
        partial = overlap and (box[0] < 0 or box[2] < 0 or box[1] > nx or box[3] > ny)
        out.append(dict(mdata=mdata, box=box, W=W, inbox=inbox, overlap=overlap, sum=s, scale=scale, err=e,
                        area=a, S=S, partial=bool(partial), ngood=int(S.sum()),
                        negw=bool((W < -NEG_RESIDUE).any() or np.isnan(W).any())))      # negative or NaN weight: a C01 mask defect
    return out


def _pmech(base, o):
    m = dict(base)
    m.update(overlap=o['overlap'], partial=o['partial'], any_good=o['ngood'] > 0)
    return m


def _cmp_sums(case, obs, ora, what, mech, key='sum', rtol=RTOL_SUM):
    obs = _vals(obs)
    if not case.check(obs.shape == (len(ora),), what + '_length', mech, got=list(obs.shape), want=len(ora)):
        return
    for k, o in enumerate(ora):
        exp = o[key]
        scale = o['scale'] if key == 'sum' else (abs(exp) if math.isfinite(exp) else 0.0)
        atol = ATOL_AREA_PER_PIXEL * float(o['inbox'].sum()) if key == 'area' else 0.0
        ok, d = R.near(obs[k], exp, scale, rtol, atol)
        if ok and key == 'area' and math.isfinite(exp) and math.isfinite(float(obs[k])):
            case.dev(what + '_abs_per_box_pixel', abs(float(obs[k]) - exp) / max(1.0, float(o['inbox'].sum())))
            d = d if scale > 1e-9 else 0.0
        case.dev(what, d if ok else 0.0)
        pm = _pmech(mech, o)
        if key == 'area':
            pm['negative_weight_in_mask'] = o['negw']
        case.check(ok, what, pm, pos=k, obs=float(obs[k]), exp=exp, scale=scale, box=list(o['box']))


def _table_ok(case, tbl, ora, positions, has_err, mech, suffix=''):
    n = len(ora)
    case.check(len(tbl) == n, 'table_rows', mech, got=len(tbl), want=n)
    case.check(list(np.asarray(tbl['id'])) == list(range(1, n + 1)), 'table_ids', mech)
    pos = np.atleast_2d(np.asarray(positions, dtype=float))
    case.close(_vals(tbl['xcenter']), pos[:, 0], 'table_xcenter', mech=mech)
    case.close(_vals(tbl['ycenter']), pos[:, 1], 'table_ycenter', mech=mech)
    case.check(('aperture_sum_err' + suffix in tbl.colnames) == bool(has_err), 'table_err_column_iff_error', mech,
               cols=list(tbl.colnames))


# ----------------------------------------------------------------------
# the case
# ----------------------------------------------------------------------
def run_case(case):
    from photutils.aperture import aperture_photometry
    rng, cls = case.rng, case.cls
    g = _gen(case)
    data, error, mask = g['data'], g['error'], g['mask']
    kind, params, method, subpix = g['kind'], g['params'], g['method'], g['subpixels']
    positions = g['positions'][0] if g['scalar'] else g['positions']
    case.params = dict(shape=list(g['shape']), style=g['style'], dtype=str(data.dtype), kind=kind,
                       params={k: round(float(v), 6) for k, v in params.items()},
                       positions=[[round(float(x), 6), round(float(y), 6)] for x, y in g['positions']],
                       locs=g['locs'], scalar=g['scalar'], method=method, subpixels=subpix,
                       error=error is not None, mask=None if mask is None else int(mask.sum()))
    base = {'cls': cls, 'kind': kind, 'method': method}
    kw = dict(method=method, subpixels=subpix)
    _LAY.clear()
    for name, arr in (('data', data), ('error', error), ('mask', mask)):
        if arr is not None:
            _LAY[id(arr)] = g['layout'][name]
            case.note('layout:' + g['layout'][name])
    case.note('magnitude_data:' + g['maglab'])
    if error is not None:
        case.note('magnitude_error:' + g['emaglab'])
    if abs(g['shape'][0] - g['shape'][1]) >= 2:
        case.note('shape:nonsquare')
        case.note('axis2_shape:wide' if g['shape'][1] > g['shape'][0] else 'axis2_shape:tall')
    case.note('axis2_dtype_data:' + (g['ddt'] if g['ddt'] != 'float64' else str(data.dtype)))
    if error is not None:
        case.note('axis2_dtype_error:' + (g['edt'] if g['edt'] != 'float64' else str(error.dtype)))
    case.note('axis2_mask:' + g['maskkind'])
    for loc in g['locs']:
        case.note('axis2_position:' + loc)
    if g['halfint']:
        case.note('axis2_half_integer_sizes')
    base['error_dtype'] = 'none' if error is None else str(error.dtype)

    # axis (ii): call form of every aperture argument (half of the cases plain)
    canon, labels, posform = dict(params), {}, 'as_is'
    theta_mine = params.get('theta')
    ctor, pos_arg = params, positions
    if cls not in ('region', 'sky') and rng.random() < 0.5:
        ctor, canon, labels = G.apply_forms(rng, kind, params)
        pos_arg, posform = G.positions_form(rng, positions, g['scalar'])
        theta_mine = canon.get('theta')
        for k, lab in labels.items():
            case.note(('form_theta:' if k == 'theta' else 'form_size:') + lab)
        case.note('form_positions:' + posform)
    ap = G.build_pixel(kind, pos_arg, ctor)
    if 'theta' in params:
        import astropy.units as _u
        held = float(ap.theta.to_value(_u.rad))
        case.dev('theta_held_vs_given_rad', abs(held - theta_mine))
        case.check(abs(held - theta_mine) <= 1e-14 * max(1.0, abs(theta_mine)), 'theta_held_equals_given_angle',
                   dict(base, form=labels.get('theta', 'float')), held=held, given=theta_mine)
        canon['theta'] = held           # conversions may differ from mine in the last bits: downstream uses the held value
    params = canon
    # axis (x): the aperture handed to the library has a history (copy / indexed out of a larger one / used before)
    hist = 'fresh'
    if cls not in ('region', 'sky') and rng.random() < 0.4:
        ap, hist = G.with_history(rng, ap, data)
    case.note('axis2_aperture_history:' + hist)
    base['history'] = hist
    snap0 = G.ap_snapshot(ap)
    case.params.update(history=hist, dtypes=[g['ddt'], g['edt']], maskkind=g['maskkind'])
    case.params.update(params={k: round(float(v), 6) for k, v in params.items()}, forms=labels, posform=posform,
                       mag=g['mag'], emag=g['emag'], layout=g['layout'])
    case.digest = core.arr_digest(data, error, mask, np.array([params[k] for k in sorted(params)], float),
                                  np.asarray(g['positions'], float)) + core.digest(
        [cls, kind, method, subpix, sorted(labels.items()), posform, sorted(g['layout'].items())])[:8]
    if cls == 'fullmask' and rng.random() < 0.5:
        # mask exactly the footprint of the first position (optionally leaving one pixel)
        m0 = _masks(ap, method, subpix)[0]
        W0 = R.weight_map(data.shape, np.array(m0.data, float), R.box_of(m0))[0]
        mask = W0 > 0
        if mask.any() and rng.random() < 0.5:
            ys, xs = np.nonzero(mask)
            j = int(rng.integers(0, len(ys)))
            mask[ys[j], xs[j]] = False
        case.params['mask'] = 'footprint'
        case.digest = core.arr_digest(mask) + case.digest
        _LAY[id(mask)] = g['layout']['mask']
    wcs = None
    sky = None
    if cls == 'sky' or (cls == 'nddata' and rng.random() < 0.5):
        wcs, scale = G.gen_wcs(rng, g['shape'])
    if cls == 'sky':
        sky, ap = _make_sky(case, rng, kind, params, positions, g['scalar'], wcs, scale, base)
        positions = ap.positions

    ora = _oracle(ap, data, error, mask, method, subpix)
    case.nontrivial = any(o['ngood'] >= 2 and np.ptp(np.nan_to_num(np.asarray(data, float)[o['S']], nan=1e9,
                                                                    posinf=2e9, neginf=-2e9)) > 0 for o in ora)
    case.note('positions', len(ora))
    case.note('positions_no_overlap', sum(not o['overlap'] for o in ora))
    case.note('positions_partial', sum(o['partial'] for o in ora))
    case.note('positions_all_masked', sum(o['overlap'] and o['ngood'] == 0 for o in ora))

    # --- observation 1: aperture_photometry in the class' call form -------------
    form = 'array'
    if cls == 'sky':
        form = 'sky'
        tbl = aperture_photometry(_cp(data), sky, error=_cp(error), mask=_cp(mask), wcs=wcs, **kw)
        _second_use(case, tbl, lambda: aperture_photometry(_cp(data), sky, error=_cp(error), mask=_cp(mask), wcs=wcs,
                                                           **kw), sky, sky._pv_snapshot, dict(base, form='sky'))
        _sky_extras(case, rng, tbl, sky, ap, wcs, data, error, mask, kw, base)
    elif cls == 'nddata':
        form = 'nddata'
        tbl = _nddata_form(case, rng, data, error, mask, wcs, ap, kw, base)
    elif cls == 'quantity':
        form = 'quantity'
        tbl = _quantity_form(case, rng, data, error, mask, ap, kw, base)
    elif cls == 'region':
        form = 'region'
        tbl = _region_form(case, rng, data, error, mask, kind, params, g, kw, base)
    else:
        r = rng.random()
        if r < 0.12 and np.asarray(data).dtype.kind == 'f':
            import astropy.units as _u
            form = 'quantity_any_class'
            unit = _u.Unit(str(rng.choice(['Jy', 'mJy', 'adu', 'electron / s'])))
            tbl = aperture_photometry(_cp(data) * unit, ap, error=None if error is None else _cp(error) * unit,
                                      mask=_cp(mask), **kw)
            case.check(_unit(tbl['aperture_sum']) == str(unit), 'unit_carried', dict(base, form=form))
        elif r < 0.2:
            form = 'positional'
            tbl = aperture_photometry(_cp(data), ap, _cp(error), _cp(mask), method, subpix)
        else:
            # caller-owned inputs: handed over once, compared afterwards (an all-False mask must stay all False ...)
            dd, ee, mm = _cp(data), _cp(error), _cp(mask)
            tbl = aperture_photometry(dd, ap, error=ee, mask=mm, **kw)
            case.check(core.exact(dd, data) and (ee is None or core.exact(ee, error))
                       and (mm is None or np.array_equal(mm, mask)), 'inputs_unchanged_by_call',
                       dict(base, mask=g['maskkind']))
            if rng.random() < 0.5:
                _second_use(case, tbl, lambda: aperture_photometry(_cp(data), ap, error=_cp(error), mask=_cp(mask),
                                                                   **kw), ap, snap0, dict(base, form='array'))
        case.note('call_form:' + form)
    mech = dict(base, form=form)
    ora_t = ora
    _table_ok(case, tbl, ora_t, positions, error is not None, mech)
    _cmp_sums(case, tbl['aperture_sum'], ora_t, 'aperture_sum_vs_weightmap', mech)
    if error is not None and 'aperture_sum_err' in tbl.colnames:
        _cmp_sums(case, tbl['aperture_sum_err'], ora_t, 'aperture_sum_err_vs_weightmap', mech, key='err')

    # --- observation 2: do_photometry / area_overlap on the pixel aperture -------
    s2, e2 = ap.do_photometry(_cp(data), error=_cp(error), mask=_cp(mask), **kw)
    m2 = dict(base, form='do_photometry')
    _cmp_sums(case, s2, ora, 'do_photometry_sum_vs_weightmap', m2)
    if error is not None:
        _cmp_sums(case, e2, ora, 'do_photometry_err_vs_weightmap', m2, key='err')
    if form in ('array', 'sky', 'positional', 'quantity_any_class'):
        # the table is assembled from do_photometry: identical numbers
        case.close(_vals(tbl['aperture_sum']), _vals(s2), 'table_equals_do_photometry', mech=mech)
        if error is not None:
            case.close(_vals(tbl['aperture_sum_err']), _vals(e2), 'table_err_equals_do_photometry', mech=mech)
    a2 = ap.area_overlap(_cp(data), mask=_cp(mask), **kw)
    case.check(np.ndim(a2) == (0 if ap.isscalar else 1), 'area_overlap_scalarness', m2, ndim=int(np.ndim(a2)))
    _cmp_sums(case, a2, ora, 'area_overlap_vs_weightmap', dict(base, form='area_overlap'), key='area')
    if mask is not None:
        # without a mask: sum of all in-image weights
        a3 = ap.area_overlap(_cp(data), **kw)
        ora_nm = [dict(o, area=R.ref_area(o['W'], o['overlap'], None)) for o in ora]
        _cmp_sums(case, a3, ora_nm, 'area_overlap_nomask_vs_weightmap', dict(base, form='area_overlap'), key='area')

    # --- observation 3: ApertureMask.get_values / multiply -----------------------
    _mask_methods(case, rng, ap, data, mask, ora, kw, base)

    # --- independent geometry relations (theta units, centre-in-shape) -------------
    if cls != 'sky':
        _rel_theta_and_center(case, rng, kind, params, theta_mine, labels, ap, data, error, mask, ora, kw, s2, e2, a2, base)
    if rng.random() < 0.06:
        _list_forms(case, ap, data, error, mask, kw, s2, a2, base)

    # --- relations ---------------------------------------------------------------
    if not ap.isscalar and len(ora) >= 1:
        _rel_singles(case, rng, kind, params, ap, data, error, mask, kw, tbl if form == 'array' else None, s2, e2, base)
    if cls == 'aplist' or rng.random() < 0.15:
        _rel_aplist(case, rng, kind, params, positions, g, data, error, mask, kw, base)
    if cls == 'linear' or rng.random() < 0.15:
        _rel_linear(case, rng, ap, data, error, mask, ora, kw, base, g['mag'])
    if cls in ('poke', 'masked', 'fullmask') or rng.random() < 0.3:
        _rel_poke(case, rng, ap, data, error, mask, ora, kw, s2, e2, a2, base)
    if cls != 'sky' and (cls in ('inside', 'edge', 'multi') or rng.random() < 0.2):
        _rel_reassign(case, rng, kind, params, ap, data, error, mask, kw, base)


def _second_use(case, first, call, obj, snap_before, mech):
    """The same aperture object used for a second request gives the same table, and its parameters are what they
    were before the first use."""
    second = call()
    case.note('axis2_second_use')
    ok = second.colnames == first.colnames
    for c in first.colnames:
        if ok and c != 'sky_center':
            ok = core.exact(_vals(second[c]), _vals(first[c]))
    case.check(ok, 'second_use_equals_first_use', dict(mech, api='aperture_photometry'),
               first=_vals(first['aperture_sum']), second=_vals(second['aperture_sum']))
    case.check(G.ap_snapshot(obj) == snap_before, 'aperture_parameters_unchanged_by_use', mech,
               before=repr(snap_before)[:300], after=repr(G.ap_snapshot(obj))[:300])


def _rel_theta_and_center(case, rng, kind, params, theta_mine, labels, ap, data, error, mask, ora, kw, s2, e2, a2, base):
    """(a) the aperture as given (theta possibly a Quantity / Angle in deg, arcmin, hourangle, a numpy scalar...)
    == the aperture built from plain floats with theta in radians: identical sums, errors and areas;
    (b) its 'center' mask == the harness' own centre-in-shape test evaluated with the float-radian angle
    (tie band 1e-9 px). (b) does not take any weight from the library, so a mask computed for a wrong angle
    or size is visible even if every aperture object shares the mistake."""
    mech = dict(base, form='theta:' + labels.get('theta', 'float'))
    held = {k: float(getattr(ap, k).value if hasattr(getattr(ap, k), 'unit') else getattr(ap, k))
            for k in ap._params if k != 'positions'}
    if 'theta' in held:
        held['theta'] = float(params['theta'])
    if labels:
        # (numpy float32 scalars included: before /repo 3ebbc82 a float32 theta made the library compute the box
        # extents in float32 - a box grazing the frame differed from the float64 twin; repaired there, judged here)
        if 'np.float32' in labels.values():
            case.note('float32_scalar_form_judged_against_float64_twin')
        ref = G.build_pixel(kind, np.array(ap.positions, float), held)
        s_r, e_r = ref.do_photometry(_cp(data), error=_cp(error), mask=_cp(mask), **kw)
        case.close(_vals(s2), _vals(s_r), 'given_form_equals_float_radian_aperture', mech=mech)
        if error is not None:
            case.close(_vals(e2), _vals(e_r), 'given_form_equals_float_radian_aperture_err', mech=mech)
        case.close(_vals(a2), _vals(ref.area_overlap(_cp(data), mask=_cp(mask), **kw)),
                   'given_form_equals_float_radian_aperture_area', mech=mech)
    # (b) centre-in-shape
    th = 0.0 if theta_mine is None else float(theta_mine)
    cm = _masks(ap, 'center', 1)
    pos = np.atleast_2d(np.asarray(ap.positions, float))
    for k, m in enumerate(cm[:3]):
        box = R.box_of(m)
        if (box[1] - box[0]) * (box[3] - box[2]) > 4000:
            continue
        lo, hi = R.center_weight_band(kind, held, th, float(pos[k, 0]), float(pos[k, 1]), box)
        w = np.asarray(m.data, float)
        bad = (lo & (w != 1.0)) | (~hi & (w != 0.0)) | ((w != 0.0) & (w != 1.0))
        case.note('center_mask_pixels_checked', int(w.size))
        case.note('center_mask_pixels_in_tie_band', int((hi & ~lo).sum()))
        case.check(not bad.any(), 'center_mask_equals_point_in_shape_test', mech, n_bad=int(bad.sum()), box=list(box),
                   n_inside=int(lo.sum()))


def _list_forms(case, ap, data, error, mask, kw, s2, a2, base):
    """data / error / mask documented as array_like: nested lists must be accepted and give the same numbers."""
    from photutils.aperture import aperture_photometry
    d = np.asarray(data)
    if d.size > 400:
        return
    dl = d.tolist()
    el = None if error is None else np.asarray(error).tolist()
    ml = None if mask is None else np.asarray(mask).tolist()
    for api, arg, fn in (
            ('aperture_photometry', 'data', lambda: aperture_photometry(dl, ap, error=el, **kw)['aperture_sum']),
            ('aperture_photometry', 'mask', (lambda: aperture_photometry(_cp(data), ap, mask=ml, **kw)['aperture_sum'])
             if ml is not None else None),
            ('area_overlap', 'data', lambda: ap.area_overlap(dl, **kw)),
            ('area_overlap', 'mask', (lambda: ap.area_overlap(_cp(data), mask=ml, **kw)) if ml is not None else None)):
        if fn is None:
            continue
        mech = dict(form='nested_list', api=api, arg=arg)
        case.note(f'list_form:{api}:{arg}')
        try:
            out = fn()
        except (AttributeError, TypeError) as exc:
            case.check(False, 'array_like_list_accepted', dict(mech, exc=type(exc).__name__), msg=str(exc)[:200])
            continue
        case.check(True, 'array_like_list_accepted', mech)
        if api == 'aperture_photometry' and arg == 'mask':
            case.close(_vals(out), _vals(s2), 'list_form_equals_array_form', mech=mech)
        elif api == 'aperture_photometry' and mask is None:
            case.close(_vals(out), _vals(s2), 'list_form_equals_array_form', mech=mech)
        elif api == 'area_overlap' and (arg == 'mask' or mask is None):
            case.close(_vals(out), _vals(a2), 'list_form_equals_array_form', mech=mech)


def _rel_reassign(case, rng, kind, params, ap, data, error, mask, kw, base):
    """An aperture that has already been used (cached box/edges) and then has one
    parameter re-assigned must give the sums of a fresh aperture with those
    parameters (the sums are mask-weighted sums of the *current* shape)."""
    new = dict(params)
    pos = np.array(ap.positions, float)
    choices = ['positions']
    if 'theta' in params:
        choices += ['theta', 'theta']
    if kind in ('circle', 'ellipse', 'rect'):
        choices += [k for k in params if k != 'theta']
    elif kind == 'circ_annulus':
        choices += ['r_out']
    elif kind == 'ell_annulus':
        choices += ['a_out']
    elif kind == 'rect_annulus':
        choices += ['w_out']
    attr = str(rng.choice(choices))
    if attr == 'positions':
        pos = pos + rng.uniform(-3, 3, size=2)
        ap.positions = pos
    elif attr == 'theta':
        new['theta'] = G.gen_theta(rng)
        ap.theta = new['theta']
    else:
        f = float(rng.uniform(1.05, 1.6)) if attr.endswith('_out') else float(rng.uniform(0.6, 1.6))
        new[attr] = params[attr] * f
        setattr(ap, attr, new[attr])
    # derived inner axes are fixed at construction (b_in = b_out*a_in/a_out): the fresh
    # object must be given the value the live object actually holds
    if kind == 'ell_annulus':
        new['b_in'] = float(ap.b_in)
    elif kind == 'rect_annulus':
        new['h_in'] = float(ap.h_in)
    fresh = G.build_pixel(kind, pos, new)
    mech = dict(base, form='reassigned', attr=attr)
    s_a, e_a = ap.do_photometry(_cp(data), error=_cp(error), mask=_cp(mask), **kw)
    s_f, e_f = fresh.do_photometry(_cp(data), error=_cp(error), mask=_cp(mask), **kw)
    case.close(_vals(s_a), _vals(s_f), 'reassigned_sum_equals_fresh_aperture', mech=mech)
    if error is not None:
        case.close(_vals(e_a), _vals(e_f), 'reassigned_err_equals_fresh_aperture', mech=mech)
    case.close(np.asarray(ap.area_overlap(_cp(data), mask=_cp(mask), **kw), float),
               np.asarray(fresh.area_overlap(_cp(data), mask=_cp(mask), **kw), float),
               'reassigned_area_equals_fresh_aperture', mech=mech)
    case.note('reassign:' + attr)


# ----------------------------------------------------------------------
# call forms
# ----------------------------------------------------------------------
def _make_sky(case, rng, kind, params, positions, scalar, wcs, scale, base):
    """Build a sky aperture near the requested pixel geometry; check to_pixel()
    against an independent finite-difference evaluation of the WCS."""
    import astropy.units as u
    from astropy.coordinates import SkyCoord
    pos = np.atleast_2d(np.asarray(positions, float))
    sc = wcs.pixel_to_world(pos[:, 0], pos[:, 1])
    if scalar:
        sc = sc[0]
    slabels = {}
    sky = G.build_sky(kind, sc, params, scale, theta_offset=float(rng.uniform(-np.pi, np.pi)),
                      rng=rng if rng.random() < 0.6 else None, labels=slabels)
    for k, lab in slabels.items():
        case.note(('form_sky_theta:' if k == 'theta' else 'form_sky_length:') + lab)
    sky._pv_snapshot = G.ap_snapshot(sky)          # parameters before the first conversion / use
    ap = sky.to_pixel(wcs)
    mech = dict(base, form='to_pixel')
    # converting the same sky aperture a second time gives the same pixel aperture, and leaves it unchanged
    ap_again = sky.to_pixel(wcs)
    case.check(G.ap_snapshot(ap_again) == G.ap_snapshot(ap), 'second_use_equals_first_use', dict(mech, api='to_pixel'),
               first=repr(ap)[:200], second=repr(ap_again)[:200])
    # positions: world_to_pixel of the sky positions (trusted astropy call)
    xp, yp = wcs.world_to_pixel(sky.positions)
    case.close(np.atleast_2d(ap.positions), np.transpose([np.atleast_1d(xp), np.atleast_1d(yp)]),
               'to_pixel_positions', mech=mech)
    case.close(np.atleast_2d(ap.positions), pos, 'to_pixel_positions_roundtrip', atol=1e-6, mech=mech)
    # scale / north angle at the first position by finite differences (dec + 1 arcsec)
    p0 = sky.positions if sky.positions.isscalar else sky.positions[0]
    x0, y0 = wcs.world_to_pixel(p0)
    x1, y1 = wcs.world_to_pixel(SkyCoord(p0.ra, p0.dec + 1.0 * u.arcsec, frame=p0.frame))
    dpix = math.hypot(float(x1 - x0), float(y1 - y0))          # pixels per arcsec
    north = math.atan2(float(y1 - y0), float(x1 - x0))
    for name in sky._params:
        if name == 'positions':
            continue
        v = getattr(sky, name)
        got = getattr(ap, name)
        if name == 'theta':
            exp = v.to_value(u.rad) + north
            gotv = got.to_value(u.rad) if hasattr(got, 'to_value') else float(got)
            d = (gotv - exp + math.pi) % (2 * math.pi) - math.pi
            case.dev('to_pixel_theta', abs(d))
            case.check(abs(d) < 1e-6, 'to_pixel_theta', mech, got=gotv, exp=exp)
        else:
            exp = v.to_value(u.arcsec) * dpix
            case.dev('to_pixel_length', abs(float(got) - exp) / exp)
            case.check(abs(float(got) - exp) <= 1e-6 * exp, 'to_pixel_length', dict(mech, param=name),
                       got=float(got), exp=exp)
    return sky, ap


def _sky_extras(case, rng, tbl, sky, ap, wcs, data, error, mask, kw, base):
    """sky aperture + wcs == its to_pixel(wcs) image, in every call form."""
    from astropy.nddata import NDData, StdDevUncertainty
    from photutils.aperture import aperture_photometry
    mech = dict(base, form='sky')
    ref = aperture_photometry(_cp(data), ap, error=_cp(error), mask=_cp(mask), wcs=wcs, **kw)
    case.check(tbl.colnames == ref.colnames, 'sky_equals_to_pixel_columns', mech, a=tbl.colnames, b=ref.colnames)
    for c in ref.colnames:
        if c == 'sky_center':
            continue
        case.close(_vals(tbl[c]), _vals(ref[c]), 'sky_equals_to_pixel', mech=dict(mech, col=c))
    # sky_center column: the input sky positions
    sp = sky.positions.reshape((-1,)) if sky.positions.isscalar else sky.positions
    sep = tbl['sky_center'].separation(sp).arcsec
    case.check(bool(np.all(sep == 0)), 'sky_center_is_input_position', mech, sep=sep)
    # a missing wcs must be rejected (documented)
    try:
        aperture_photometry(_cp(data), sky, **kw)
        case.check(False, 'sky_without_wcs_rejected', mech)
    except ValueError:
        case.check(True, 'sky_without_wcs_rejected', mech)
    if rng.random() < 0.5:
        nd = NDData(_cp(data), uncertainty=None if error is None else StdDevUncertainty(_cp(error)),
                    mask=_cp(mask), wcs=wcs)
        t2 = aperture_photometry(nd, sky, **kw)
        for c in ref.colnames:
            if c != 'sky_center':
                case.close(_vals(t2[c]), _vals(ref[c]), 'sky_nddata_equals_to_pixel', mech=dict(mech, col=c))
    if rng.random() < 0.3:
        # list of sky apertures
        import astropy.units as u
        pp = {k: getattr(sky, k) for k in sky._params if k != 'positions'}
        pp2 = {k: (v if k == 'theta' else v * 1.5) for k, v in pp.items()}
        sky2 = type(sky)(sky.positions, **pp2)
        t3 = aperture_photometry(_cp(data), [sky, sky2], error=_cp(error), mask=_cp(mask), wcs=wcs, **kw)
        case.close(_vals(t3['aperture_sum_0']), _vals(ref['aperture_sum']), 'sky_aplist_equals_to_pixel', mech=mech)
        r2 = aperture_photometry(_cp(data), sky2.to_pixel(wcs), error=_cp(error), mask=_cp(mask), **kw)
        case.close(_vals(t3['aperture_sum_1']), _vals(r2['aperture_sum']), 'sky_aplist_equals_to_pixel', mech=mech)


def _nddata_form(case, rng, data, error, mask, wcs, ap, kw, base):
    import astropy.units as u
    from astropy.nddata import NDData, StdDevUncertainty
    from photutils.aperture import aperture_photometry
    unit = u.Jy if rng.random() < 0.5 else None
    unc = None
    if error is not None:
        unc = StdDevUncertainty(_cp(error), unit=unit) if (unit is not None and rng.random() < 0.5) \
            else StdDevUncertainty(_cp(error))
    nd = NDData(_cp(data), uncertainty=unc, mask=_cp(mask), unit=unit, wcs=wcs)
    tbl = aperture_photometry(nd, ap, **kw)
    mech = dict(base, form='nddata', unit=unit is not None)
    # equals the bare-array / Quantity call
    d = _cp(data) if unit is None else _cp(data) * unit
    e = None if error is None else (_cp(error) if unit is None else _cp(error) * unit)
    ref = aperture_photometry(d, ap, error=e, mask=_cp(mask), wcs=wcs, **kw)
    case.check(tbl.colnames == ref.colnames, 'nddata_equals_array_columns', mech, a=tbl.colnames, b=ref.colnames)
    for c in ref.colnames:
        if c == 'sky_center':
            case.check(bool(np.all(tbl[c].ra == ref[c].ra) and np.all(tbl[c].dec == ref[c].dec)),
                       'nddata_equals_array', dict(mech, col=c))
            continue
        case.check(_unit(tbl[c]) == _unit(ref[c]), 'nddata_equals_array_unit', dict(mech, col=c),
                   a=_unit(tbl[c]), b=_unit(ref[c]))
        case.close(_vals(tbl[c]), _vals(ref[c]), 'nddata_equals_array', mech=dict(mech, col=c))
    if unit is not None:
        case.check(_unit(tbl['aperture_sum']) == 'Jy', 'unit_carried', mech, got=_unit(tbl['aperture_sum']))
        if error is not None:
            case.check(_unit(tbl['aperture_sum_err']) == 'Jy', 'unit_carried', dict(mech, col='err'))
    if wcs is not None:
        case.check('sky_center' in tbl.colnames, 'sky_center_column_with_wcs', mech)
        pos = np.atleast_2d(ap.positions)
        exp = wcs.pixel_to_world(pos[:, 0], pos[:, 1])
        sep = tbl['sky_center'].separation(exp).arcsec
        case.check(bool(np.all(sep < 1e-6)), 'sky_center_values', mech, sep=sep)
    return tbl


def _quantity_form(case, rng, data, error, mask, ap, kw, base):
    import astropy.units as u
    from photutils.aperture import aperture_photometry
    unit = u.Unit(str(rng.choice(['Jy', 'adu', 'electron / s'])))
    mech = dict(base, form='quantity')
    tbl = aperture_photometry(_cp(data) * unit, ap, error=None if error is None else _cp(error) * unit,
                              mask=_cp(mask), **kw)
    case.check(_unit(tbl['aperture_sum']) == str(unit), 'unit_carried', mech, got=_unit(tbl['aperture_sum']))
    if error is not None:
        case.check(_unit(tbl['aperture_sum_err']) == str(unit), 'unit_carried', dict(mech, col='err'))
        # documented: data and error must carry the same units
        # (an equivalent but different unit, e.g. mJy next to Jy, is documented as an error too: "the same units")
        other = {'Jy': u.mJy, 'adu': u.Unit('1000 adu'), 'electron / s': u.Unit('electron / min')}[str(unit)]
        for d, e in ((_cp(data) * unit, _cp(error)), (_cp(data), _cp(error) * unit),
                     (_cp(data) * unit, _cp(error) * u.m), (_cp(data) * unit, _cp(error) * other)):
            try:
                aperture_photometry(d, ap, error=e, mask=_cp(mask), **kw)
                case.check(False, 'mixed_units_rejected', mech)
            except ValueError:
                case.check(True, 'mixed_units_rejected', mech)
    s, e = ap.do_photometry(_cp(data) * unit, error=None if error is None else _cp(error) * unit,
                            mask=_cp(mask), **kw)
    case.check(_unit(s) == str(unit), 'unit_carried', dict(mech, via='do_photometry'))
    case.close(_vals(s), _vals(tbl['aperture_sum']), 'table_equals_do_photometry', mech=mech)
    return tbl


def _region_form(case, rng, data, error, mask, kind, params, g, kw, base):
    """regions.Region input (one position) = the equivalent aperture."""
    import astropy.units as u
    import regions as rg
    from photutils.aperture import aperture_photometry
    x, y = g['positions'][0]
    c = rg.PixCoord(x=x, y=y)
    p = params
    ang = p.get('theta', 0.0) * u.rad
    q = dict(p)
    if kind == 'circle':
        reg = rg.CirclePixelRegion(c, p['r'])
    elif kind == 'circ_annulus':
        reg = rg.CircleAnnulusPixelRegion(c, p['r_in'], p['r_out'])
    elif kind == 'ellipse':
        reg = rg.EllipsePixelRegion(c, 2 * p['a'], 2 * p['b'], angle=ang)
    elif kind == 'ell_annulus':
        b_in = p.get('b_in', p['b_out'] * p['a_in'] / p['a_out'])
        reg = rg.EllipseAnnulusPixelRegion(c, 2 * p['a_in'], 2 * p['a_out'], 2 * b_in, 2 * p['b_out'], angle=ang)
        q['b_in'] = b_in
    elif kind == 'rect':
        reg = rg.RectanglePixelRegion(c, p['w'], p['h'], angle=ang)
    else:
        h_in = p.get('h_in', p['h_out'] * p['w_in'] / p['w_out'])
        reg = rg.RectangleAnnulusPixelRegion(c, p['w_in'], p['w_out'], h_in, p['h_out'], angle=ang)
        q['h_in'] = h_in
    if 'theta' in q:
        q['theta'] = ang
    if rng.random() < 0.35:
        _sky_region(case, rng, data, error, mask, kind, q, (x, y), g['shape'], kw, base)
    tbl = aperture_photometry(_cp(data), reg, error=_cp(error), mask=_cp(mask), **kw)
    ap1 = G.build_pixel(kind, (x, y), q)
    ref = aperture_photometry(_cp(data), ap1, error=_cp(error), mask=_cp(mask), **kw)
    mech = dict(base, form='region')
    for col in ref.colnames:
        case.close(_vals(tbl[col]), _vals(ref[col]), 'region_equals_aperture', rtol=1e-12, mech=dict(mech, col=col))
    return tbl


def _sky_region(case, rng, data, error, mask, kind, q, xy, shape, kw, base):
    """regions sky region + wcs = the equivalent sky aperture (theta = angle - 90 deg, documented)."""
    import astropy.units as u
    import regions as rg
    from photutils import aperture as A
    from photutils.aperture import aperture_photometry
    wcs, scale = G.gen_wcs(rng, shape)
    c = wcs.pixel_to_world(xy[0], xy[1])
    L = {k: (v * scale) * u.arcsec for k, v in q.items() if k != 'theta'}
    ang = (float(rng.uniform(-180, 180))) * u.deg
    th = ang - 90 * u.deg
    if kind == 'circle':
        reg, sk = rg.CircleSkyRegion(c, L['r']), A.SkyCircularAperture(c, L['r'])
    elif kind == 'circ_annulus':
        reg = rg.CircleAnnulusSkyRegion(c, L['r_in'], L['r_out'])
        sk = A.SkyCircularAnnulus(c, L['r_in'], L['r_out'])
    elif kind == 'ellipse':
        reg = rg.EllipseSkyRegion(c, 2 * L['a'], 2 * L['b'], angle=ang)
        sk = A.SkyEllipticalAperture(c, L['a'], L['b'], theta=th)
    elif kind == 'ell_annulus':
        reg = rg.EllipseAnnulusSkyRegion(c, 2 * L['a_in'], 2 * L['a_out'], 2 * L['b_in'], 2 * L['b_out'], angle=ang)
        sk = A.SkyEllipticalAnnulus(c, L['a_in'], L['a_out'], L['b_out'], b_in=L['b_in'], theta=th)
    elif kind == 'rect':
        reg = rg.RectangleSkyRegion(c, L['w'], L['h'], angle=ang)
        sk = A.SkyRectangularAperture(c, L['w'], L['h'], theta=th)
    else:
        reg = rg.RectangleAnnulusSkyRegion(c, L['w_in'], L['w_out'], L['h_in'], L['h_out'], angle=ang)
        sk = A.SkyRectangularAnnulus(c, L['w_in'], L['w_out'], L['h_out'], h_in=L['h_in'], theta=th)
    mech = dict(base, form='sky_region')
    t1 = aperture_photometry(_cp(data), reg, error=_cp(error), mask=_cp(mask), wcs=wcs, **kw)
    t2 = aperture_photometry(_cp(data), sk, error=_cp(error), mask=_cp(mask), wcs=wcs, **kw)
    for col in t2.colnames:
        if col != 'sky_center':
            case.close(_vals(t1[col]), _vals(t2[col]), 'sky_region_equals_sky_aperture', rtol=1e-12,
                       mech=dict(mech, col=col))


# ----------------------------------------------------------------------
# ApertureMask.get_values / multiply
# ----------------------------------------------------------------------
def _mask_methods(case, rng, ap, data, mask, ora, kw, base):
    masks = _masks(ap, **kw)
    fill = float(rng.choice([0.0, 0.0, -7.5, np.nan]))
    if np.asarray(data).dtype.kind != 'f':
        fill = 0.0      # cutout() keeps the integer dtype: other fill values are not representable (outside C02)
    for k, (m, o) in enumerate(zip(masks, ora)):
        if k >= 3:
            break
        mech = _pmech(dict(base, form='get_values'), o)
        got = m.get_values(_cp(data), mask=_cp(mask))
        exp = R.ref_get_values(data, o['W'], mask) if o['overlap'] else np.array([])
        case.check(np.ndim(got) == 1, 'get_values_1d', mech)
        case.close(np.asarray(got, float), np.asarray(exp, float), 'get_values_vs_index_arithmetic', mech=mech)
        if o['mdata'].size <= 900:
            mech = _pmech(dict(base, form='multiply', fill_nan=bool(np.isnan(fill))), o)
            gm = m.multiply(_cp(data), fill_value=fill)
            em = R.ref_multiply(data, o['mdata'], o['box'], fill)
            if case.check((gm is None) == (em is None), 'multiply_none_iff_no_overlap', mech):
                if gm is not None:
                    case.close(np.asarray(gm, float), em, 'multiply_vs_index_arithmetic', mech=mech)
        # the mask object handed out must still hold the weights it was created with
        case.check(core.exact(np.asarray(m.data), o['mdata']), 'mask_data_unchanged_by_methods', mech)


# ----------------------------------------------------------------------
# relations
# ----------------------------------------------------------------------
def _rel_singles(case, rng, kind, params, ap, data, error, mask, kw, tbl, s2, e2, base):
    from photutils.aperture import aperture_photometry
    mech = dict(base, form='singles')
    pos = np.atleast_2d(ap.positions)
    one_s, one_e, one_a, one_t = [], [], [], []
    pp = {k: getattr(ap, k) for k in ap._params if k != 'positions'}
    for k in range(len(pos)):
        a1 = type(ap)((float(pos[k, 0]), float(pos[k, 1])), **pp)
        s, e = a1.do_photometry(_cp(data), error=_cp(error), mask=_cp(mask), **kw)
        one_s.append(float(_vals(s)[0]))
        if error is not None:
            one_e.append(float(_vals(e)[0]))
        one_a.append(float(a1.area_overlap(_cp(data), mask=_cp(mask), **kw)))
        if tbl is not None and k < 2:
            t1 = aperture_photometry(_cp(data), a1, error=_cp(error), mask=_cp(mask), **kw)
            one_t.append(float(_vals(t1['aperture_sum'])[0]))
    case.close(_vals(s2), np.array(one_s), 'many_positions_equal_singles', mech=mech)
    if error is not None:
        case.close(_vals(e2), np.array(one_e), 'many_positions_equal_singles_err', mech=mech)
    case.close(_vals(ap.area_overlap(_cp(data), mask=_cp(mask), **kw)), np.array(one_a),
               'many_positions_equal_singles_area', mech=mech)
    if one_t:
        case.close(_vals(tbl['aperture_sum'])[:len(one_t)], np.array(one_t), 'many_positions_equal_singles_table',
                   mech=mech)
    # axis (xi): index lists with duplicates / descending order / several integer dtypes
    idx = np.sort(rng.integers(0, len(pos), size=int(rng.integers(1, 5))))[::-1]
    form = str(rng.choice(['list', 'int32', 'uint8', 'int64', 'tuple_as_list']))
    sel = idx.tolist() if form in ('list', 'tuple_as_list') else idx.astype(form)
    s_i, _ = ap[sel].do_photometry(_cp(data), error=_cp(error), mask=_cp(mask), **kw)
    case.note('axis2_index_list:' + form + ('_dup' if len(set(idx.tolist())) < len(idx) else ''))
    case.close(_vals(s_i), _vals(s2)[idx], 'index_list_equals_rows', mech=dict(mech, index=form))
    # indexing the aperture gives the same numbers as well
    k = int(rng.integers(0, len(pos)))
    s, _ = ap[k].do_photometry(_cp(data), error=_cp(error), mask=_cp(mask), **kw)
    case.close(_vals(s), _vals(s2)[k:k + 1], 'indexed_aperture_equals_row', mech=mech)


def _rel_aplist(case, rng, kind, params, positions, g, data, error, mask, kw, base):
    from photutils.aperture import aperture_photometry
    mech = dict(base, form='aplist')
    n = int(rng.integers(2, 4))
    aps = []
    for i in range(n):
        if rng.random() < 0.5:
            k2, p2 = kind, G.scaled(params, float(rng.uniform(0.4, 2.5)))
        else:
            k2 = str(rng.choice(G.KINDS))
            p2, _ = G.gen_shape(rng, k2, str(rng.choice(['tiny', 'small', 'medium'])))
        aps.append(G.build_pixel(k2, positions, p2))
    container = str(rng.choice(['list', 'tuple']))
    tbl = aperture_photometry(_cp(data), aps if container == 'list' else tuple(aps), error=_cp(error),
                              mask=_cp(mask), **kw)
    want = ['id', 'xcenter', 'ycenter']
    for i in range(n):
        want.append(f'aperture_sum_{i}')
        if error is not None:
            want.append(f'aperture_sum_err_{i}')
    case.check(tbl.colnames == want, 'aplist_columns', mech, got=tbl.colnames, want=want)
    for i, a in enumerate(aps):
        t1 = aperture_photometry(_cp(data), a, error=_cp(error), mask=_cp(mask), **kw)
        case.close(_vals(tbl[f'aperture_sum_{i}']), _vals(t1['aperture_sum']), 'aplist_equals_one_at_a_time',
                   mech=mech)
        if error is not None:
            case.close(_vals(tbl[f'aperture_sum_err_{i}']), _vals(t1['aperture_sum_err']),
                       'aplist_equals_one_at_a_time_err', mech=mech)
        # and every column against the weight-map oracle
        ora = _oracle(a, data, error, mask, kw['method'], kw['subpixels'])
        _cmp_sums(case, tbl[f'aperture_sum_{i}'], ora, 'aplist_sum_vs_weightmap', mech)
        if error is not None:
            _cmp_sums(case, tbl[f'aperture_sum_err_{i}'], ora, 'aplist_err_vs_weightmap', mech, key='err')
    # documented: all apertures must share the positions
    pos = np.array(positions, dtype=float)
    pos[(0,) * pos.ndim] += 0.25
    other = G.build_pixel(kind, pos, params)
    try:
        aperture_photometry(_cp(data), [aps[0], other], **kw)
        case.check(False, 'aplist_different_positions_rejected', mech)
    except ValueError:
        case.check(True, 'aplist_different_positions_rejected', mech)


def _rel_linear(case, rng, ap, data, error, mask, ora, kw, base, mag=1.0):
    mech = dict(base, form='linear')
    d1 = np.nan_to_num(np.asarray(data, float), nan=0.0, posinf=0.0, neginf=0.0)
    d2 = G.gen_image(rng, d1.shape, str(rng.choice(['noise', 'ramp', 'ints']))) * mag
    a, b = float(rng.uniform(-3, 3)), float(rng.uniform(-3, 3))
    s1, _ = ap.do_photometry(d1.copy(), mask=_cp(mask), **kw)
    s2, _ = ap.do_photometry(d2.copy(), mask=_cp(mask), **kw)
    s12, _ = ap.do_photometry(a * d1 + b * d2, mask=_cp(mask), **kw)
    s1, s2, s12 = _vals(s1), _vals(s2), _vals(s12)
    for k, o in enumerate(ora):
        if not o['overlap']:
            case.check(np.isnan(s12[k]) and np.isnan(s1[k]), 'linearity', _pmech(mech, o))
            continue
        scale = abs(a) * R.ref_sum(np.abs(d1), o['W'], True, mask)[0] + abs(b) * R.ref_sum(np.abs(d2), o['W'], True,
                                                                                          mask)[0]
        ok, d = R.near(s12[k], a * s1[k] + b * s2[k], scale, RTOL_LIN)
        case.dev('linearity', d)
        case.check(ok, 'linearity', _pmech(mech, o), obs=float(s12[k]), exp=float(a * s1[k] + b * s2[k]))
    # scaling the error map scales the error
    if error is not None:
        e = np.nan_to_num(np.asarray(error, float), nan=1.0)
        _, e1 = ap.do_photometry(d1.copy(), error=e.copy(), mask=_cp(mask), **kw)
        _, e3 = ap.do_photometry(d1.copy(), error=3.0 * e, mask=_cp(mask), **kw)
        case.close(_vals(e3), 3.0 * _vals(e1), 'error_scaling', rtol=RTOL_LIN, mech=mech)


def _rel_poke(case, rng, ap, data, error, mask, ora, kw, s2, e2, a2, base):
    """Values stored in masked pixels and in pixels whose weight is zero for every
    position (inside or outside the boxes) must not matter."""
    mech = dict(base, form='poke')
    free = np.ones(data.shape, bool)
    for o in ora:
        free &= ~(o['W'] > 0)
    if mask is not None:
        free |= mask
    if not free.any():
        case.note('poke_no_free_pixel')
        return
    d = np.asarray(data, float).copy()
    junk = rng.choice([np.nan, 1e30, -1e30, np.inf, -np.inf, 12345.0], size=d.shape)
    d[free] = junk[free]
    e = None
    if error is not None:
        e = np.asarray(error, float).copy()
        e[free] = rng.choice([np.nan, 1e30, np.inf, 777.0], size=d.shape)[free]
    case.note('poked_pixels', int(free.sum()))
    s, er = ap.do_photometry(d, error=e, mask=_cp(mask), **kw)
    case.close(_vals(s), _vals(s2), 'independent_of_masked_and_zero_weight_pixels', mech=mech)
    if error is not None:
        case.close(_vals(er), _vals(e2), 'independent_of_masked_and_zero_weight_pixels_err', mech=mech)
    a = ap.area_overlap(d, mask=_cp(mask), **kw)
    case.close(_vals(a), _vals(a2), 'area_independent_of_data_values', mech=mech)
    # flipping a masked pixel's mask bit where the weight is zero changes nothing either
    if mask is not None:
        m2 = mask.copy()
        zero_w = np.ones(data.shape, bool)
        for o in ora:
            zero_w &= ~(o['W'] > 0)
        m2[zero_w] = ~m2[zero_w]
        s3, _ = ap.do_photometry(_cp(np.asarray(data, float)), mask=m2, **kw)
        case.close(_vals(s3), _vals(s2), 'mask_bits_at_zero_weight_irrelevant', mech=mech)
