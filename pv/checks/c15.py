"""C15 Results do not depend on how the same numbers are represented.

M2 relation monitor over the entry-point table of pv.ref.c03_entrypoints: a baseline call with C-contiguous
native float64 ndarrays is compared with the same call whose array inputs arrive in another representation
(byte order, memory layout, container, dtype, units).
"""
from __future__ import annotations

import numpy as np

from pv import core
from pv.gen import c03_scenes as gen
from pv.ref import c03_entrypoints as epm

ID = 'C15'

LAYOUT = ['bigendian', 'fortran', 'negstride', 'sliced']
CONTAINER = ['maskedarray', 'nddata', 'quantity']
PRECISION = ['int16', 'int32', 'int64', 'uint16', 'float32', 'uint8', 'uint32']
CLASSES = LAYOUT + CONTAINER + PRECISION + ['mixed_units']

RULE = ('one case = one random scene (elliptical Gaussians + noise, structured error and background maps, mask, '
        'segmentation map) x one representation x 4 entry points drawn from the table; every array argument of the '
        'entry point is converted AFTER all scene arithmetic was done in float64 (precision-changing variants use '
        'integer-valued scenes so that int16/int32/int64/uint16/float32 hold exactly the same numbers; the harness '
        'asserts exact representability); baseline = native C-contiguous float64. non-trivial = at least one entry '
        'point returned a non-empty result on both sides and was compared (mixed_units: at least one mixed call was '
        'made); distinct by digest of (data, mask, segm, variant, entry points)')
EPS = [e for e in epm.TABLE if 'repr' in e.relations]
MUST_REACH = sorted({m for e in EPS for m in e.must_reach}
                    | {'photutils.utils._quantity_helpers:process_quantities',
                       'photutils.utils._convolution:_filter_data',
                       'photutils.aperture.photometry:aperture_photometry',
                       'photutils.aperture.stats:ApertureStats._unpack_nddata',
                       'photutils.utils.errors:calc_total_error'})
ANCHOR_FILES = ['utils/_quantity_helpers.py', 'utils/errors.py', 'utils/_stats.py', 'aperture/core.py',
                'aperture/photometry.py', 'aperture/stats.py', 'background/background_2d.py',
                'segmentation/catalog.py', 'psf/photometry.py', 'detection/daofinder.py', 'utils/_convolution.py',
                'segmentation/detect.py', 'detection/peakfinder.py', 'profiles/core.py', 'centroids/core.py',
                'datasets/images.py']
MIN_NONTRIVIAL = {'quick': 90, 'thorough': 2000}
ASSUMPTIONS = [
    'numpy dtype/layout conversions (astype, asfortranarray, slicing, newbyteorder) are trusted to preserve values; '
    'the harness asserts exact round-trip to float64 for the precision-changing variants',
    'value-preserving variants: rtol 1e-9 + atol 1e-10*max|data| (integers, labels, indices exact); '
    'precision-changing variants: rtol 2e-4 + atol 2e-4*max|data| on continuous outputs, discrete outputs exact on '
    'scenes that pass the a-posteriori threshold-gap check (same discrete result with the threshold scaled by 1 +- 1e-3)',
    'Background2D with integer input: documented output rounding to the input integer dtype -> compared with an '
    'absolute tolerance of 3 data units (measured max 2.05); it must still not raise',
    'Quantity variant: values are compared after stripping units; outputs classified as flux-like must carry the data '
    'unit (variance-like: unit**2)',
    'mixing unit-ful and unit-less inputs must raise (any exception type is accepted and counted)',
]

VP_RTOL = 1e-9
PC_RTOL = 2e-4
NEPS_PER_CASE = 4


def plan(tier):
    if tier == 'thorough':
        return dict(shards=16, cases=1200, timeout=2400, budget_s=540)
    return dict(shards=8, cases=45, timeout=600, budget_s=55)


def selftest():
    rng = np.random.default_rng(3)
    a = rng.normal(size=(5, 7))
    for v in LAYOUT + ['maskedarray', 'native']:
        b = gen.represent(a, v)
        assert np.array_equal(np.asarray(b), a), v
        assert b.shape == a.shape
    assert gen.represent(a, 'bigendian').dtype.byteorder == '>'
    assert gen.represent(a, 'fortran').flags.f_contiguous and not gen.represent(a, 'fortran').flags.c_contiguous
    assert gen.represent(a, 'negstride').strides[0] < 0 and gen.represent(a, 'negstride').strides[1] < 0
    s = gen.represent(a, 'sliced')
    assert not s.flags.c_contiguous and s.base is not None and s.strides == (8 * (3 * 7 + 5) * 2, 24)
    ai = np.rint(a * 100)
    for v in PRECISION:
        src = np.abs(ai) % 200 if v == 'uint8' else np.abs(ai) if v in ('uint16', 'uint32') else ai
        b = gen.represent(src, v)
        assert b.dtype == np.dtype(v) and np.array_equal(b.astype(float), src)
    try:
        gen.represent(a, 'int16')
        raise SystemExit('harness must refuse non-representable values')
    except AssertionError:
        pass
    try:
        gen.represent(-np.abs(ai) - 1, 'uint16')          # unsigned wrap-around must be refused, not produced
        raise SystemExit('harness must refuse negative values for uint16')
    except AssertionError:
        pass
    sc = gen.make_scene(rng, integer=True, nonneg=True, margin=8)
    for k in ('data', 'error', 'bkg', 'bdata'):
        arr = sc[k].v
        assert np.array_equal(arr, np.rint(arr)) and arr.min() >= 0 and arr.max() < 65535, k
    sc = gen.make_scene(rng, integer=True, margin=8)
    for k in ('data', 'error', 'bkg', 'bdata'):
        assert np.abs(sc[k].v).max() < 32767, k


# ----------------------------------------------------------------------
# applying a representation to the inputs of one entry point
# ----------------------------------------------------------------------
def _unit():
    import astropy.units as u
    return u.adu


def apply_variant(ep, s, o, variant, rng):
    """(s, o) are unwrapped copies owned by this call. Returns (s2, o2, tag) with the representation applied."""
    s2, o2 = dict(s), dict(o)
    names = [n for n in ep.arrays if s.get(n) is not None]
    if variant in LAYOUT:
        for n in names + [m for m in ('mask', 'segm', 'pmask', 'gmask') if m in s]:
            if variant == 'bigendian' and s[n].dtype.kind == 'b':
                continue
            s2[n] = gen.represent(s[n], variant)
        return s2, o2, variant
    if variant in PRECISION:
        for n in names:
            s2[n] = gen.represent(s[n], variant)
        return s2, o2, variant
    if variant == 'maskedarray':
        for n in names[:1] if rng.random() < 0.5 else names:
            s2[n] = gen.represent(s[n], variant)
        return s2, o2, variant
    if variant == 'nddata':
        from astropy.nddata import NDData, StdDevUncertainty
        dn = names[0]
        unit = _unit() if rng.random() < 0.3 and ep.quantity else None
        unc = None
        ukind = 'none'
        if o.get('use_error') and 'error' in ep.arrays:
            # the same (non-uniform) errors in any of the astropy uncertainty representations; entry points that
            # document "StdDevUncertainty only" (aperture_photometry, ApertureStats) get only that one
            from astropy.nddata import InverseVariance, VarianceUncertainty
            ukind = 'std' if ep.nddata == 'stddev' else ['std', 'var', 'ivar'][int(rng.integers(0, 3))]
            e = s['error'].astype(float)
            with_u = unit is not None and rng.random() < 0.5
            if ukind == 'std':
                unc = StdDevUncertainty(e.copy(), unit=unit if with_u else None)
            elif ukind == 'var':
                unc = VarianceUncertainty(e ** 2, unit=unit ** 2 if with_u else None)
            else:
                unc = InverseVariance(1.0 / e ** 2, unit=1 / unit ** 2 if with_u else None)
        mask = s['mask'].copy() if o.get('use_mask') else None
        if ep.nddata == 'data':
            # this entry point documents NDData only as a carrier of the data (and unit); mask stays a keyword
            s2[dn] = NDData(s[dn].copy(), unit=unit)
        else:
            s2[dn] = NDData(s[dn].copy(), uncertainty=unc, mask=mask, unit=unit)
            o2['use_error'] = False
            o2['use_mask'] = False
        if unit is not None:
            _unit_options(ep, s2, o2, unit)
        return s2, o2, f'nddata:{ukind}' + ('+unit' if unit is not None else '')
    if variant == 'quantity':
        unit = _unit()
        for n in names:
            s2[n] = s[n] * unit
        _unit_options(ep, s2, o2, unit)
        return s2, o2, variant
    raise ValueError(variant)


def _unit_options(ep, s2, o2, unit, skip=()):
    """Give units to the scalar / option inputs that must share the data unit."""
    import astropy.units as u
    if 'threshold' not in skip:
        o2['unit'] = unit
    if ep.name == 'ApertureStats' and 'local_bkg' not in skip:
        o2['local_bkg_unit'] = unit
    if ep.name == 'calc_total_error' and 'gain' not in skip:
        o2['gain_unit'] = u.electron / unit
    if ep.name == 'detect_threshold':
        for n in ('bkg_scalar', 'err_scalar'):
            if n not in skip and not hasattr(s2[n], 'unit'):
                s2[n] = s2[n] * unit


# which non-data inputs can be left unit-less (or be the only unit-ful one) per entry point
MIX = {
    'aperture_photometry': ['error'], 'ApertureStats': ['error', 'local_bkg'], 'find_peaks': ['threshold'],
    'DAOStarFinder': ['threshold'], 'IRAFStarFinder': ['threshold'], 'StarFinder': ['threshold'],
    'detect_sources': ['threshold'], 'SourceCatalog': ['error', 'bkg', 'conv'], 'profiles': ['error'],
    'detect_threshold': ['bkg', 'error'], 'calc_total_error': ['error', 'gain'], 'PSFPhotometry': ['error'],
    'make_model_image': ['local_bkg'],
}


def force_options(ep, o, rng, shape):
    """Make sure the optional inputs that take part in unit mixing are actually passed."""
    o = dict(o)
    if ep.name in ('aperture_photometry', 'ApertureStats', 'profiles', 'PSFPhotometry'):
        o['use_error'] = True
    if ep.name == 'ApertureStats' and o['local_bkg'] is None:
        o['local_bkg'] = 0.25
    if ep.name == 'SourceCatalog':
        o['use_error'] = o['use_bkg'] = o['use_conv'] = True
    if ep.name == 'detect_threshold':
        o['bkg'] = 'array' if o['bkg'] is None else o['bkg']
        o['err'] = 'array' if o['err'] is None else o['err']
    if ep.name == 'make_model_image':
        if o['local_bkg'] is None:
            o['local_bkg'] = np.full(len(o['flux']), 0.5)
        # the unit of local_bkg only meets the unit of the flux when a source is actually rendered: keep every source
        # inside the frame (a table whose sources all miss the image is accepted without any unit arithmetic)
        ny, nx = shape
        xy = np.array(o['xy'], dtype=float)
        xy[:, 0] = np.clip(xy[:, 0], 12.0, nx - 13.0)
        xy[:, 1] = np.clip(xy[:, 1], 12.0, ny - 13.0)
        o['xy'] = xy
    if ep.name == 'PSFPhotometry':
        o['finder'] = False
    return o


def mixed_inputs(ep, s, o, rng):
    """Yield (label, s2, o2): calls in which exactly one input family has the other unit status."""
    unit = _unit()
    names = [n for n in ep.arrays if s.get(n) is not None]
    dn = names[0] if names else None
    for other in MIX.get(ep.name, []):
        for data_has_unit in (True, False):
            s2, o2 = dict(s), dict(o)
            arr_other = {'error': 'error', 'bkg': 'bkg', 'conv': 'conv'}.get(other)
            if ep.name == 'detect_threshold':
                arr_other = {'bkg': 'bkg', 'error': 'error'}[other]
            with_unit = set()
            if data_has_unit:
                # everything unit-ful except `other`
                with_unit = {n for n in names if n != arr_other}
                skip = {other} if other in ('threshold', 'local_bkg', 'gain') else set()
                if ep.name == 'detect_threshold':
                    skip |= {'bkg_scalar'} if other == 'bkg' else {'err_scalar'}
                _unit_options(ep, s2, o2, unit, skip=skip)
                if ep.name == 'make_model_image':
                    o2['unit'] = unit
                    o2['local_bkg_plain'] = True
            else:
                # only `other` is unit-ful
                if arr_other is not None:
                    with_unit = {arr_other}
                if other == 'threshold':
                    o2['unit'] = unit
                if other == 'local_bkg' and ep.name == 'ApertureStats':
                    o2['local_bkg_unit'] = unit
                if other == 'gain':
                    import astropy.units as u
                    o2['gain_unit'] = u.electron / unit
                if ep.name == 'detect_threshold':
                    s2['bkg_scalar' if other == 'bkg' else 'err_scalar'] = \
                        s2['bkg_scalar' if other == 'bkg' else 'err_scalar'] * unit
                if ep.name == 'make_model_image':
                    o2['local_bkg_unit_only'] = unit
                if ep.name == 'PSFPhotometry':
                    o2['flux_init'] = False
            for n in with_unit:
                s2[n] = s[n] * unit
            yield f"{other}:{'data_unitful' if data_has_unit else 'data_unitless'}", s2, o2


# ----------------------------------------------------------------------
def _call(case, ep, s, o, mech, leg):
    try:
        return epm.run_quiet(ep, s, o)
    except core.Skip:
        raise
    except Exception as exc:  # noqa: BLE001
        loc = core.exc_location(exc)
        if loc is None or isinstance(exc, AssertionError):
            raise
        import traceback
        if leg == 'base':
            # the property compares against calls that succeed for float64 arrays; a failing baseline is not C15's
            case.note(f'baseline_raised:{ep.name}:{loc}')
            return None
        case.check(False, 'raised', dict(mech, leg=leg, exc=type(exc).__name__, at=loc),
                   msg=str(exc)[:300], tb=traceback.format_exc()[-1200:])
        return None


def _scaled_threshold(o, f):
    o2 = dict(o)
    if 'threshold' in o2 and o2['threshold'] is not None:
        o2['threshold'] = o2['threshold'] * f
    if o2.get('thr_map') is not None:
        o2['thr_map'] = o2['thr_map'] * f
    return o2


def _discrete_sig(ep, out):
    """The discrete part of a result: row count + integer positions / label image."""
    sig = [out.get('n', out.get('nlabels'))]
    for name in sorted(out):
        k = ep.spec[name]
        if k.kind in epm.INT_KINDS or (k.kind == 'frame' and np.asarray(out[name]).dtype.kind in 'iu'):
            v = epm.canon(k.kind, out[name])[0]
            sig.append(np.asarray(v).tolist())
    return sig


def repr_kind(variant):
    if variant in ('int16', 'int32', 'int64', 'uint16', 'uint8', 'uint32'):
        return 'integer'
    if variant in LAYOUT:
        return 'layout'
    return variant


def compare_repr(case, ep, variant, tag, res1, res2, o, amp, precision, gap_ok, unit=None):
    out1, out2 = res1[0], res2[0]
    mech0 = {'entry': ep.name, 'relation': 'repr:' + variant, 'repr_kind': repr_kind(variant)}
    well = None
    if len(res1) > 2 and len(res2) > 2 and res1[2] is not None and len(res1[2]) == len(res2[2]):
        with np.errstate(invalid='ignore'):
            well = (np.asarray(res1[2]) <= epm.COND_MAX) & (np.asarray(res2[2]) <= epm.COND_MAX)
        case.note(f'rows_ill_conditioned:{ep.name}', int((~well).sum()))
    k1, k2 = set(out1), set(out2)
    if not case.check(k1 == k2, 'outputs_present', dict(mech0, output='*'),
                      only_base=sorted(k1 - k2), only_variant=sorted(k2 - k1), tag=tag):
        return 0
    ncmp = 0
    rtol = PC_RTOL if precision else VP_RTOL
    afac = 2e-4 if precision else 1e-10
    for name in sorted(out1):
        k = ep.spec[name]
        if k.kind == 'skip':
            continue
        mech = dict(mech0, output=name)
        if ep.mech_fn is not None:
            mech.update(ep.mech_fn(o, name, out1))
        if variant in ('int16', 'uint16') and 'err' in name:
            # structural: an error-type output computed from an error array of a 16-bit integer dtype
            mech['error_output_16bit'] = True
        r1, r2 = out1[name], out2[name]
        if isinstance(r1, epm.Raised) or isinstance(r2, epm.Raised):
            b1, b2 = isinstance(r1, epm.Raised), isinstance(r2, epm.Raised)
            if b1 and b2:
                case.note(f'raised_on_both_sides:{ep.name}:{r1.at}')
                continue
            r = r1 if b1 else r2
            case.check(False, 'raised', dict(mech, exc=r.exc, at=r.at, leg='base' if b1 else 'variant'), msg=r.msg)
            continue
        kind = k.kind
        if kind == 'frame' and (out1.get('window_tie') or out2.get('window_tie')):
            case.note(f'frame_skipped_window_tie:{ep.name}')
            continue
        cb, ub = epm.canon(kind, r1)
        co, uo = epm.canon(kind, r2)
        empty = isinstance(co, list) and all(a is None for a in co)
        if empty:
            pass
        elif unit is not None:
            # expected units
            if k.unit == 'data':
                case.check(uo == str(unit), 'unit', mech, observed=uo, expected=str(unit))
            elif k.unit == 'data2':
                case.check(uo == str(unit ** 2), 'unit', mech, observed=uo, expected=str(unit ** 2))
            elif ub is not None:
                case.check(uo == ub, 'unit', mech, observed=uo, expected=ub)
        else:
            case.check(ub == uo, 'unit', mech, base=ub, variant=uo)
        if k.md and k.per_row and well is not None and isinstance(cb, np.ndarray) and isinstance(co, np.ndarray) \
                and cb.shape[:1] == well.shape and co.shape[:1] == well.shape:
            sel = well
            if name.endswith('_err') and '_err_undefined' in out1 and '_err_undefined' in out2:
                und = np.asarray(out1['_err_undefined'], bool) | np.asarray(out2['_err_undefined'], bool)
                if und.shape == sel.shape:
                    case.note(f'err_columns_not_judged:{ep.name}', int((sel & und).sum()))
                    sel = sel & ~und
            cb, co = cb[sel], co[sel]
        is_int = kind in epm.INT_KINDS or (kind == 'frame' and np.asarray(cb).dtype.kind in 'iub')
        if precision and (is_int or name in ('n', 'nlabels', 'id', 'label_ids', 'labels', 'areas', 'npix',
                                             'npixfit', 'group_id', 'group_size', 'flags')):
            if not gap_ok:
                case.note(f'discrete_skipped_no_gap:{ep.name}')
                continue
        fitted = k.rtol is not None or k.atol is not None or k.aamp is not None
        # absolute tolerance scales with the data magnitude for flux-like (x amp) and variance-like (x amp**2)
        # outputs and is a plain number for dimensionless / pixel outputs
        atol = afac * (amp if k.scale == 'data' else amp * amp if k.scale == 'data2' else 1.0)
        if precision:
            rt = rtol if k.rtol is None else max(k.rtol, rtol)
            at = atol if k.atol is None else max(k.atol, atol)
            if k.aamp is not None:
                at = max(at, k.aamp * amp)
        elif fitted:
            # value-preserving variants hand the library the same numbers at the same coordinates: only summation order
            # inside numpy may differ (strided vs contiguous reductions); iterative fits amplify that to <= ~1e-9
            # (measured), so fitted outputs get 1e-6 instead of the translation tolerances of C03
            rt, at = 1e-6, 1e-6 * (amp if (k.aamp is not None or k.scale == 'data') else 1.0)
            if name.endswith('_err'):
                # parameter uncertainties come from the covariance of a finite-difference Jacobian at the solution:
                # measured sensitivity to a 1-ulp change of the weights (sqrt(err**2) vs err) up to 1.3e-5 relative
                rt = 1e-3
        else:
            rt, at = rtol, atol
        if kind in epm.POS_KINDS and not precision and k.atol is None:
            at = 1e-9
        int_bkg = precision and variant != 'float32' and (ep.name == 'Background2D' or name.startswith('b2d_'))
        if int_bkg:
            at = max(at, 3.0)           # documented rounding: meshes AND maps are cast to the integer input dtype
            #                             (<= 1 unit each, the first amplified by the order-3 spline zoom); measured max 2.05
            kind_cmp = 'free'
            cb, co = np.asarray(cb, float), np.asarray(co, float)
        else:
            kind_cmp = 'free' if kind == 'frame' else kind
        if precision and isinstance(cb, np.ndarray) and isinstance(co, np.ndarray) and cb.shape != co.shape \
                and not gap_ok:
            case.note(f'discrete_skipped_no_gap:{ep.name}')
            continue
        ang = 1e-7 if not precision else 0.5
        epm.compare(case, 'same_result', mech, kind_cmp, co, cb, rt, at, ang,
                    tie_atol=None if k.tie is None else k.tie * amp)
        ncmp += 1
    return ncmp


def run_case(case):
    rng = case.rng
    variant = case.cls
    precision = variant in PRECISION
    r = rng.random()
    flav = 'stars' if r < (0.5 if variant == 'nddata' else 0.25) else (
        'pedestal' if r < 0.45 and variant not in ('nddata', 'mixed_units') else
        'galaxy' if r < (0.70 if repr_kind(variant) == 'integer' else 0.55)
        and variant not in ('nddata', 'mixed_units', 'quantity') else 'general')
    if variant == 'uint8' and flav in ('pedestal', 'galaxy'):
        flav = 'stars' if r < 0.5 else 'general'      # those images need 15 bits; uint8 gets the star-finder scenes instead
    # generic axis (i): overall magnitude of every value-like input (integer-valued scenes of the precision-changing
    # variants stay at scale 1: they must remain exactly representable)
    scale = 1.0 if precision else gen.draw_scale(rng)
    scene = gen.make_scene(rng, flavour='general' if flav in ('pedestal', 'galaxy') else flav, margin=8, integer=precision,
                           nonneg=variant in ('uint16', 'uint8', 'uint32'), scale=scale,
                           int_max=250 if variant == 'uint8' else None)
    amp = scene['amp']
    if flav == 'pedestal':
        # statistics layer: large pedestal / small scatter / many pixels, integer-valued for every variant
        img, pm, ped, sig = gen.make_pedestal_image(rng)
        scene['pdata'], scene['pmask'] = gen.Frame(img), gen.Frame(pm, False)
        scene['ped'], scene['psig'] = ped, sig
        amp = 1.0
    if flav == 'galaxy':
        # isophote layer: bright integer-valued galaxy, sector sums beyond the 16-bit ranges
        img, geom = gen.make_galaxy_image(rng)
        gm = rng.random(img.shape) < 0.01
        scene['gdata'], scene['gmask'], scene['ggeom'] = gen.Frame(img), gen.Frame(gm, False), geom
        amp = 1.0
    if variant == 'mixed_units':
        elig = [e for e in EPS if e.name in MIX and e.quantity]
    elif variant == 'nddata':
        elig = [e for e in EPS if e.nddata]
    elif variant == 'quantity':
        elig = [e for e in EPS if e.quantity]
    else:
        elig = [e for e in EPS if e.arrays]
    elig = [e for e in elig if e.flavour == flav or (flav == 'general' and e.flavour == 'single')]
    idx = rng.permutation(len(elig))[:NEPS_PER_CASE]
    eps = [elig[i] for i in sorted(idx)]
    for ep in eps:
        scene['opts'][ep.name] = ep.prepare(rng, scene)
    case.params = dict(variant=variant, flavour=flav, shape=list(scene['data'].v.shape),
                       entries=[e.name for e in eps], nlabels=scene['nlabels'])
    case.digest = core.digest([core.arr_digest(*gen.scene_digest_arrays(scene)), variant, [e.name for e in eps]])
    ncmp = 0
    for ep in eps:
        s1 = gen.unwrap(scene)
        o1 = s1['opts'][ep.name]
        if precision:
            # a clip decision may flip on a last-ulp difference: precision-changing variants run unclipped
            if 'clip' in o1 and ep.name != 'statistics':
                o1['clip'] = None if ep.name == 'ApertureStats' else False
            if ep.name == 'Background2D':
                o1['estimator'] = o1['estimator'] if o1['estimator'] != 'mmm' else 'median'
            # integer-valued scenes have exact ties between peak values / fluxes: a "keep the N brightest"
            # selection among tied candidates is undefined (sort order of equal keys differs between dtypes)
            if 'nclip' in o1:
                # isophote samples: same rule (seen at thorough seed 3: float32, nclip=2, 75 points kept in both
                # legs but not the same ones - rms 0.8 % apart while the intensity agreed to 5e-5)
                o1['nclip'] = 0
            if 'npeaks' in o1:
                o1['npeaks'] = None
            if 'brightest' in o1:
                o1['brightest'] = None
            if ep.name == 'statistics' and o1['clip'] is not None:
                # clipped statistics under a precision change: only when no clipping bound of any iteration comes
                # within 0.05 of a data value (a-posteriori gap check with astropy's SigmaClip on the float64 data)
                sraw = gen.unwrap(scene)
                ok = o1['axis'] is None and epm.clip_gap_ok(sraw['pdata'], sraw['pmask'] if o1['use_mask'] else None,
                                                            o1['clip'], o1['maxiters'], 0.05)
                case.note(f"clip_gap:statistics:{'ok' if ok else 'no_gap->unclipped'}")
                if not ok:
                    o1['clip'] = None
        if ep.name == 'statistics':
            o1['est_mask'] = variant in LAYOUT + ['maskedarray', 'float32']
        if ep.name == 'isophote':
            o1['mask_ok'] = True      # a MaskedArray is how Ellipse takes masked pixels, for every dtype
        if variant == 'mixed_units':
            o1 = force_options(ep, o1, rng, scene['mask'].v.shape)
            mech = {'entry': ep.name, 'relation': 'repr:mixed_units'}
            base = _call(case, ep, gen.unwrap(scene), dict(o1), dict(mech, output='*'), 'base')
            if base is None:
                continue
            for label, s2, o2 in mixed_inputs(ep, gen.unwrap(scene), dict(o1), rng):
                try:
                    epm.run_quiet(ep, s2, o2)
                    raised = None
                except Exception as exc:  # noqa: BLE001
                    if isinstance(exc, AssertionError) and core.exc_location(exc) is None:
                        raise
                    raised = type(exc).__name__
                case.check(raised is not None, 'mixed_units_rejected', dict(mech, output=label))
                case.note(f'mixed_rejected_with:{raised}')
                ncmp += 1
            continue
        mech = {'entry': ep.name, 'relation': 'repr:' + variant, 'output': '*', 'repr_kind': repr_kind(variant)}
        r1 = _call(case, ep, gen.unwrap(scene) | {'opts': None}, dict(o1), mech, 'base')
        if r1 is None:
            continue
        s2, o2, tag = apply_variant(ep, gen.unwrap(scene), dict(o1), variant, rng)
        if variant != 'nddata':
            # generic axes (vii)/(xi): dtype of the label array; a caller-owned all-False mask where none was passed
            sd = [None, None, 'int16', 'int64', 'uint8', 'uint32'][int(rng.integers(0, 6))]
            if sd is not None and isinstance(s2.get('segm'), np.ndarray) and s2['segm'].max() < 250:
                s2['segm'] = s2['segm'].astype(sd)
                case.note(f'axis2_label_dtype:{sd}')
            if 'use_mask' in o2 and not o2['use_mask'] and rng.random() < 0.2 \
                    and ep.name not in ('statistics', 'isophote') and isinstance(s2.get('mask'), np.ndarray):
                s2['mask'] = np.zeros(s2['mask'].shape, bool)
                o2['use_mask'] = True
                s2['_allfalse_mask'] = s2['mask']
                case.note('axis2_all_false_mask')
        r2 = _call(case, ep, s2, o2, mech, 'variant')
        if s2.get('_allfalse_mask') is not None:
            case.check(not s2['_allfalse_mask'].any(), 'all_false_mask_unmodified', dict(mech))
        if r2 is None:
            continue
        gap_ok = True
        if precision and ep.discrete:
            sig0 = _discrete_sig(ep, r1[0])
            for f in (1.0 - 1e-3, 1.0 + 1e-3):
                rp = epm.run_quiet(ep, gen.unwrap(scene), _scaled_threshold(o1, f))
                if _discrete_sig(ep, rp[0]) != sig0:
                    gap_ok = False
            case.note(f'gap_check:{ep.name}:{"ok" if gap_ok else "no_gap"}')
        case.note(f'runs:{ep.name}:{variant}')
        if variant == 'nddata':
            case.note(f'nddata_form:{ep.name}:{tag}')
        unit = _unit() if (variant == 'quantity' or tag.endswith('+unit')) else None
        n = compare_repr(case, ep, variant, tag, r1, r2, o1, amp, precision, gap_ok, unit=unit)
        nonempty = r1[0].get('n', r1[0].get('nlabels', 1)) != 0
        ncmp += n if nonempty else 0
    case.note('axis_magnitude:' + ('1' if scale == 1.0 else 'pow2' if np.log2(scale) % 1 == 0 else 'pow10'))
    case.nontrivial = ncmp > 0
