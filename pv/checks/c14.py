"""C14 Peak and star finders return exactly the sources their contract selects.

find_peaks (M1): three-valued per-pixel oracle (pv.ref.c14_peaks.peak_status): every MUST pixel is reported,
no EXCLUDE pixel is reported, EITHER pixels (documentation silent) are counted; peak values, ids, npeaks
(= the highest of the unrestricted result), None <-> warning, centroids = centroid_func on the documented cutout.

DAOStarFinder / IRAFStarFinder / StarFinder (M2, relations between real runs + harness-side convolution):
  * table with configured bounds == rows of the wide-open table that satisfy the inclusive bounds on the REPORTED
    sharpness / roundness / peak;  brightest=N == N largest fluxes of the same table without `brightest`
  * ids 1..N, finite values, mag == -2.5 log10(flux)
  * every centroid lies within the kernel half-size of a candidate peak of the convolved image (convolution and
    local-maximum search are the harness's own)
  * xycoords: the table found without xycoords consists of rows that xycoords=<candidate peaks> reproduces exactly;
    rows of isolated (MUST) peaks are present; sub-lists of positions give exactly the corresponding rows
  * no two reported sources whose peaks are closer than min_separation (ties excepted)
  * None is returned iff the filtered table is empty, always with NoDetectionsWarning
"""
from __future__ import annotations

import math
import warnings

import numpy as np

from pv import core
from pv.ref import c14_peaks as ref

ID = 'C14'
RULE = ('find_peaks: images 2..24 px of small integers (ties, plateaus), negative images, NaN/inf, float scenes; scalar and '
        '2-D thresholds incl. exact ties; box sizes 1..7 (odd/even, tuples) and random footprints (even, asymmetric, '
        'without centre); masks; border widths None/0/k/(ky,kx)/larger than the image; npeaks; centroid functions with '
        'error maps. star finders: scenes 30..64 px of Gaussian stars + noise (amplitudes around the threshold, close '
        'pairs, border stars, negative patches) and sparse integer scenes (ties); fwhm/ratio/theta/sigma_radius, '
        'exclude_border, min_separation (0, integer, non-integer, default), bounds placed exactly on reported values, '
        'brightest, peakmax, xycoords. non-trivial = find_peaks: >=1 MUST pixel and >=1 EXCLUDE pixel above threshold '
        'or a restricting option active; star finders: wide-open table has >=2 rows; distinct by digest of all inputs')
CLASSES = ['fp_int', 'fp_neg', 'fp_nan', 'fp_mask', 'fp_border', 'fp_thr2d', 'fp_footprint', 'fp_box',
           'fp_npeaks', 'fp_centroid', 'fp_real', 'fp_quantity',
           'dao_real', 'dao_sparse', 'iraf_real', 'iraf_sparse', 'sf_real', 'sf_sparse']
MUST_REACH = ['photutils.detection.peakfinder:find_peaks',
              'photutils.detection.core:StarFinderBase._find_stars',
              'photutils.detection.core:_StarFinderKernel.__init__',
              'photutils.detection.daofinder:DAOStarFinder.find_stars',
              'photutils.detection.daofinder:_DAOStarFinderCatalog.apply_filters',
              'photutils.detection.daofinder:_DAOStarFinderCatalog.select_brightest',
              'photutils.detection.irafstarfinder:IRAFStarFinder.find_stars',
              'photutils.detection.irafstarfinder:_IRAFStarFinderCatalog.apply_filters',
              'photutils.detection.starfinder:StarFinder.find_stars',
              'photutils.detection.starfinder:_StarFinderCatalog.apply_filters',
              'photutils.utils._convolution:_filter_data']
ANCHOR_FILES = ['detection/peakfinder.py', 'detection/core.py', 'detection/daofinder.py',
                'detection/irafstarfinder.py', 'detection/starfinder.py', 'utils/_convolution.py']
MIN_NONTRIVIAL = {'quick': 600, 'thorough': 20000}
ASSUMPTIONS = ['scipy.signal.convolve2d (direct sums) is the reference convolution; the kernel ARRAY is taken from the '
               'finder object (DAO/IRAF: finder.kernel.data; StarFinder: the documented zero-sum normalisation of the '
               'user kernel is replicated in the harness)',
               'DAOStarFinder applies threshold * sqrt(sum(kernel**2)) to the convolved image (DAOFIND relerr), '
               'IRAFStarFinder and StarFinder apply threshold directly',
               'astropy overlap_slices defines the centroid cutout of find_peaks (odd regions only)']


def plan(tier):
    if tier == 'thorough':
        return dict(shards=16, cases=12000, timeout=2400, budget_s=600)
    return dict(shards=8, cases=560, timeout=600, budget_s=50)


def selftest():
    ref.selftest()
    d = np.zeros((5, 5))
    d[1, 3] = 2.0
    assert np.allclose(wcom(d), (3.0, 1.0))
    rows = np.array([[1., 2.], [0., 5.], [1., 1.]])
    assert np.array_equal(_sort_rows(rows), np.array([[0., 5.], [1., 1.], [1., 2.]]))


# ----------------------------------------------------------------------
# harness-side centroid callable with an `error` keyword
# ----------------------------------------------------------------------
def wcom(data, mask=None, error=None):
    d = np.array(data, dtype=float)
    if error is not None:
        error = np.asarray(error, float)
        if error.shape != d.shape:
            raise ValueError('data and error must have the same shape')
        d = d / error
    if mask is not None:
        d[np.asarray(mask, bool)] = 0.0
    d[~np.isfinite(d)] = 0.0
    t = d.sum()
    if t == 0:
        return np.nan, np.nan
    yy, xx = np.indices(d.shape)
    return (xx * d).sum() / t, (yy * d).sum() / t


_DECADES = [(-16, 'lt1e-16'), (-8, '1e-16..1e-8'), (-3, '1e-8..1e-3'), (3, '1e-3..1e3'), (8, '1e3..1e8'),
            (16, '1e8..1e16'), (999, 'ge1e16')]


def _bucket(v):
    if not (v > 0) or not np.isfinite(v):
        return 'zero_or_nonfinite'
    lg = math.log10(v)
    for hi, name in _DECADES:
        if lg < hi:
            return name
    return 'ge1e16'


def _magnitude(rng, p_unit=0.5):
    """Overall magnitude of the image values: 1, a power of two 2**-80..2**80, or 1e-24..1e24."""
    r = rng.random()
    if r < p_unit:
        return 1.0
    if r < p_unit + 0.6 * (1 - p_unit):
        return float(2.0 ** int(rng.integers(-80, 81)))
    return float(10.0 ** rng.uniform(-24.0, 24.0))


LAYOUTS = ['C', 'C', 'C', 'C', 'F', 'strided', 'offset', 'negstride', 'bigendian']


def _layout(arr, kind):
    """Same values, different memory layout / byte order (fresh memory every time)."""
    if arr is None:
        return None
    a = np.asarray(arr)
    if a.ndim != 2 or kind == 'C':
        return np.array(a, copy=True, order='C')
    ny, nx = a.shape
    if kind == 'F':
        return np.array(a, copy=True, order='F')
    if kind == 'strided':
        big = np.zeros((2 * ny, 2 * nx), a.dtype)
        v = big[::2, ::2]
        v[...] = a
        return v
    if kind == 'offset':
        big = np.zeros((ny + 3, nx + 2), a.dtype)
        v = big[2:2 + ny, 1:1 + nx]
        v[...] = a
        return v
    if kind == 'negstride':
        return np.array(a[::-1, ::-1], copy=True)[::-1, ::-1]
    if kind == 'bigendian':
        return a.astype(a.dtype.newbyteorder('>'))
    raise ValueError(kind)


def _pow2_factor(rng, mag):
    """Power of two that keeps mag * k well inside the range where squares cannot over/underflow."""
    k = float(2.0 ** int(rng.integers(-70, 71)))
    # stay above 1e-27: centroid_1dg/2dg clip error values at the hard-coded absolute 1e-30
    if mag > 0 and not (1e-27 < mag * k < 1e45):
        k = 1.0 / k
    if mag > 0 and not (1e-27 < mag * k < 1e45):
        k = 1.0
    return k


COUNT_FORMS = ['int', 'int', 'int', 'np.uint8', 'np.uint16', 'np.uint64', 'np.int16', 'np.intp']


def _count_form(v, form):
    """A count-like argument as Python int or as numpy signed / unsigned integer scalar."""
    if form == 'int' or v is None:
        return v
    return getattr(np, form[3:])(v)


def _key(row):
    """NaN-safe exact identity of a table row."""
    return np.ascontiguousarray(np.asarray(row, float) + 0.0).tobytes()


def _sort_rows(a):
    a = np.asarray(a, float)
    if a.size == 0:
        return a
    return a[np.lexsort(a.T[::-1])]


# ======================================================================
# find_peaks
# ======================================================================
def _fp_data(case, shape):
    rng, cls = case.rng, case.cls
    kind = {'fp_neg': 'neg', 'fp_nan': 'nan', 'fp_real': 'real'}.get(cls)
    if kind is None:
        kind = str(rng.choice(['int', 'int', 'plateau', 'neg', 'real', 'nan', 'mixed']))
    if kind == 'int':
        data = rng.integers(-2, 6, size=shape).astype(float)
    elif kind == 'mixed':
        data = rng.integers(-5, 6, size=shape).astype(float)
    elif kind == 'plateau':
        data = np.full(shape, float(rng.integers(-1, 2)))
        for _ in range(int(rng.integers(1, 6))):
            y0, x0 = int(rng.integers(0, shape[0])), int(rng.integers(0, shape[1]))
            h, w = int(rng.integers(1, 5)), int(rng.integers(1, 5))
            data[y0:y0 + h, x0:x0 + w] = float(rng.integers(1, 6))
    elif kind == 'neg':
        data = -rng.integers(1, 9, size=shape).astype(float)
        if rng.random() < 0.3:
            data[rng.random(shape) < 0.1] = 0.0
    elif kind == 'real':
        yy, xx = np.mgrid[0:shape[0], 0:shape[1]].astype(float)
        data = rng.normal(0, 1, size=shape)
        for _ in range(int(rng.integers(1, 5))):
            x0, y0 = rng.uniform(-1, shape[1]), rng.uniform(-1, shape[0])
            data += rng.uniform(3, 50) * np.exp(-((xx - x0) ** 2 + (yy - y0) ** 2) / (2 * rng.uniform(0.7, 2.0) ** 2))
    else:
        data = rng.integers(-2, 6, size=shape).astype(float)
        r = rng.random(shape)
        data[r < rng.choice([0.05, 0.2, 0.5])] = np.nan
        if rng.random() < 0.3:
            data[(r > 0.9) & (r < 0.93)] = np.inf
            data[(r > 0.95) & (r < 0.97)] = -np.inf
        kind = 'nan'
    if rng.random() < 0.04:
        data[:] = float(rng.integers(-2, 4))            # constant image
        kind = 'constant'
    return data, kind


def _fp_region(case, odd_only=False):
    """(kwargs for find_peaks, footprint bool array, description)."""
    rng, cls = case.rng, case.cls
    use_fp = cls == 'fp_footprint' or (cls not in ('fp_box',) and rng.random() < 0.25)
    if use_fp:
        if odd_only:
            fy, fx = int(rng.choice([1, 3, 5])), int(rng.choice([1, 3, 5]))
        else:
            fy, fx = int(rng.integers(1, 6)), int(rng.integers(1, 6))
        fp = rng.random((fy, fx)) < rng.choice([0.5, 0.8, 1.0])
        if not fp.any():
            fp[int(rng.integers(0, fy)), int(rng.integers(0, fx))] = True
        if odd_only:
            fp[fy // 2, fx // 2] = True        # the peak pixel itself belongs to its centroid cutout
        form = str(rng.choice(['bool', 'int', 'float']))
        arr = fp.copy() if form == 'bool' else fp.astype(int if form == 'int' else float)
        kw = dict(footprint=arr)
        if rng.random() < 0.3:
            kw['box_size'] = int(rng.choice([3, 5, 7]))      # overridden by footprint
        return kw, fp, f'footprint{fy}x{fx}'
    if rng.random() < 0.15:
        return {}, np.ones((3, 3), bool), 'default3'
    sizes = [1, 3, 5, 7] if odd_only else [1, 2, 3, 3, 4, 5, 6, 7]
    if rng.random() < 0.6:
        b = int(rng.choice(sizes))
        return dict(box_size=b), np.ones((b, b), bool), f'box{b}'
    b = (int(rng.choice(sizes)), int(rng.choice(sizes)))
    form = rng.random()
    bb = b if form < 0.5 else (list(b) if form < 0.75 else np.array(b))
    if b[0] != b[1]:
        case.note('axis2_aniso_box_ny_ne_nx')
    case.note('axis2_parity_box_' + ('even' if (b[0] % 2 == 0 or b[1] % 2 == 0) else 'odd'))
    return dict(box_size=bb), np.ones(b, bool), f'box{b[0]}x{b[1]}'


def _fp_border(case, shape):
    rng = case.rng
    ny, nx = shape
    if case.cls != 'fp_border' and rng.random() < 0.6:
        return None
    r = rng.random()
    if r < 0.15:
        return 0
    if r < 0.45:
        return int(rng.integers(0, max(2, min(ny, nx) // 2 + 2)))
    if r < 0.85:
        return (int(rng.integers(0, ny // 2 + 2)), int(rng.integers(0, nx // 2 + 2)))
    if r < 0.93:
        return (0, int(rng.integers(1, nx + 3)))
    return (int(rng.integers(1, ny + 3)), 0)


def _exclusion_reasons(data, thr, mask, border, y, x, fp):
    ny, nx = data.shape
    v = data[y, x]
    t = thr if np.ndim(thr) == 0 else thr[y, x]
    r = {'pixel_masked': bool(mask is not None and mask[y, x]),
         'pixel_nan': bool(np.isnan(v)),
         'not_above_threshold': bool(not (v > t)),
         'in_border': False}
    if border is not None:
        by, bx = border
        r['in_border'] = bool((by > 0 and (y < by or y >= ny - by)) or (bx > 0 and (x < bx or x >= nx - bx)))
    r['larger_unmasked_neighbour'] = not any(r.values())
    return r


def _centroid_expect(func, arr, slc, mcut, ecut):
    import inspect
    kw = {'mask': mcut}
    if ecut is not None and 'error' in inspect.signature(func).parameters:
        kw['error'] = ecut
    try:
        with warnings.catch_warnings():
            warnings.simplefilter('ignore')
            xc, yc = func(arr[slc], **kw)
    except (ValueError, TypeError):
        xc, yc = np.nan, np.nan
    return np.array([xc + slc[1].start, yc + slc[0].start], float)


def _run_find_peaks(case):
    import astropy.units as u
    from astropy.nddata.utils import overlap_slices
    from photutils.centroids import centroid_1dg, centroid_com, centroid_quadratic
    from photutils.detection import find_peaks
    from photutils.utils.exceptions import NoDetectionsWarning
    rng, cls = case.rng, case.cls
    if cls == 'fp_real':
        shape = (int(rng.integers(8, 33)), int(rng.integers(8, 33)))
    else:
        shape = (int(rng.integers(1, 25)), int(rng.integers(1, 25)))
        if shape == (1, 1) or rng.random() < 0.9:
            shape = (max(2, shape[0]), max(2, shape[1]))
        if rng.random() < 0.1:                      # strongly elongated
            shape = (int(rng.integers(1, 5)), int(rng.integers(40, 90)))
            shape = shape if rng.random() < 0.5 else shape[::-1]
            case.note('axis_shape_elongated')
    ny, nx = shape
    data, kind = _fp_data(case, shape)
    want_centroid = cls == 'fp_centroid' or rng.random() < 0.08
    kw, fp, regname = _fp_region(case, odd_only=want_centroid)
    # threshold
    finite = data[np.isfinite(data)]
    lo, hi = (float(finite.min()), float(finite.max())) if finite.size else (0.0, 1.0)
    if cls == 'fp_thr2d' or rng.random() < 0.15:
        thr = rng.integers(int(math.floor(lo)) - 1, int(math.ceil(hi)) + 1, size=shape).astype(float)
        sel = rng.random(shape) < 0.35
        thr[sel] = np.where(np.isfinite(data[sel]), data[sel], 0.0)      # exact ties: must not be reported
        if rng.random() < 0.1:
            thr[rng.random(shape) < 0.05] = np.nan
        thr_desc = '2d'
    else:
        if kind == 'real':
            thr = float(rng.choice([2.0, 3.0, 5.0, float(np.round(rng.uniform(lo, hi), 1))]))
        else:
            thr = float(rng.integers(int(math.floor(lo)) - 1, int(math.ceil(hi)) + 1))
            if rng.random() < 0.2:
                thr += 0.5
        thr_desc = thr
    mask = None
    if cls == 'fp_mask' or rng.random() < 0.3:
        mask = rng.random(shape) < rng.choice([0.05, 0.2, 0.5])
        if rng.random() < 0.5 and finite.size:
            # mask the brightest pixel(s): masked neighbour is the local maximum
            mask |= (data == hi)
        if rng.random() < 0.04:
            mask[:] = True                          # degenerate: everything masked
            case.note('axis_degenerate_all_masked')
    border = _fp_border(case, shape)
    npeaks = np.inf
    if cls == 'fp_npeaks' or rng.random() < 0.1:
        npeaks = int(rng.integers(1, 8))
        if rng.random() < 0.08:
            npeaks = 0                      # edge of the range: at most 0 rows
    cform = str(rng.choice(COUNT_FORMS))    # numpy signed / unsigned scalar forms of the count-like arguments
    case.note('axis3_count_form_' + cform)
    cfunc, cname, error = None, None, None
    if want_centroid:
        cname = str(rng.choice(['com', 'com', 'quadratic', 'wcom', 'wcom', '1dg']))
        if cname == '1dg' and (case.tier == 'quick' and rng.random() < 0.7):
            cname = 'com'
        cfunc = {'com': centroid_com, 'quadratic': centroid_quadratic, 'wcom': wcom, '1dg': centroid_1dg}[cname]
        if rng.random() < 0.4:
            yy, xx = np.mgrid[0:ny, 0:nx].astype(float)
            error = 1.0 + 0.3 * xx + 0.2 * yy + rng.uniform(0, 1, size=shape)
    quantity = cls == 'fp_quantity'
    int_dtype = bool(np.all(np.isfinite(data)) and np.all(data == np.round(data)) and rng.random() < 0.3)
    int_name = 'int64'
    if int_dtype:
        feas_ = [d_ for d_ in _feasible_dtypes(data) if d_ != 'float32']
        int_name = str(rng.choice(feas_)) if feas_ else 'int64'
        case.note('axis2_dtype_image_' + int_name)
    # overall magnitude of image, threshold (and error map): the selection does not depend on it
    mag = 1.0 if int_dtype else _magnitude(rng)
    if mag != 1.0:
        data = data * mag
        thr = thr * mag
        if np.ndim(thr) == 0:
            thr_desc = float(thr)
        if error is not None and rng.random() < 0.6:
            error = error * mag
    fin_ = np.abs(data[np.isfinite(data)])
    case.note('data_magnitude_' + _bucket(float(fin_.max()) if fin_.size else 0.0))
    wcs = None
    if cls in ('fp_real', 'fp_quantity') and rng.random() < 0.4:
        from astropy.wcs import WCS
        wcs = WCS(naxis=2)
        wcs.wcs.crpix = [float(rng.uniform(0, nx)), float(rng.uniform(0, ny))]
        wcs.wcs.cdelt = [-float(rng.uniform(1e-4, 1e-3)), float(rng.uniform(1e-4, 1e-3))]
        wcs.wcs.crval = [float(rng.uniform(0, 360)), float(rng.uniform(-60, 60))]
        wcs.wcs.ctype = ['RA---TAN', 'DEC--TAN']

    case.params = dict(fn='find_peaks', shape=list(shape), kind=kind, region=regname, thr=thr_desc,
                       masked=mask is not None, border=border if border is None else list(np.atleast_1d(border)),
                       npeaks=None if npeaks == np.inf else npeaks, centroid=cname, error=error is not None,
                       quantity=quantity, int_dtype=int_dtype, wcs=wcs is not None, magnitude=mag)
    case.digest = core.arr_digest(data, np.asarray(thr), mask, fp, error) + core.digest(
        [cls, str(kw.get('box_size')), str(border), str(npeaks), cname, quantity, int_dtype, wcs is not None])[:6]
    mech = {'cls': cls, 'fn': 'find_peaks', 'region': 'footprint' if 'footprint' in kw else 'box',
            'even_region': bool(fp.shape[0] % 2 == 0 or fp.shape[1] % 2 == 0)}

    bpair = None
    if border is not None:
        b = np.atleast_1d(border)
        bpair = (int(b[0]), int(b[0])) if b.size == 1 else (int(b[0]), int(b[1]))
        if bpair[0] != bpair[1]:
            case.note('axis2_aniso_border_ny_ne_nx')
    status, reasons = ref.peak_status(data, thr, fp, mask, bpair)
    nmust, neither = int((status == ref.MUST).sum()), int((status == ref.EITHER).sum())
    constant = bool(np.all(data == data.flat[0]))

    lay = str(rng.choice(LAYOUTS)) if cfunc is None else 'C'     # centroids are compared bit for bit
    tform = str(rng.choice(['float', 'float', 'np.float64', 'int'])) if np.ndim(thr) == 0 else 'array'
    if tform == 'int' and (int_dtype is False and mag != 1.0 or float(thr) != int(thr)):
        tform = 'float'
    f32 = bool(int_dtype is False and mag == 1.0 and np.all(np.isfinite(data)) and np.all(data == np.round(data))
               and np.ndim(thr) == 0 and cfunc is None and rng.random() < 0.15)   # integer-valued: exact in float32
    case.note('axis_layout_' + lay)
    case.note('axis_threshold_form_' + tform)
    if f32:
        case.note('axis_dtype_float32')

    def call(np_, factor=None):
        d_in = data.astype(int_name) if int_dtype else (data.astype(np.float32) if f32 else data.copy())
        t_in = np.copy(thr) if np.ndim(thr) else float(thr)
        if factor is not None:
            d_in = d_in * factor
            t_in = t_in * factor
        d_in = _layout(d_in, lay)
        if np.ndim(t_in):
            t_in = _layout(t_in, lay)
        elif tform == 'np.float64':
            t_in = np.float64(t_in)
        elif tform == 'int' and factor is None:
            t_in = int(t_in)
        if quantity:
            d_in = d_in * u.Jy
            t_in = t_in * u.Jy
        kws = {k: (v.copy() if isinstance(v, np.ndarray) else v) for k, v in kw.items()}
        if mask is not None:
            kws['mask'] = _layout(mask, lay)
        if border is not None:
            kws['border_width'] = border
        if np_ != np.inf:
            kws['npeaks'] = _count_form(np_, cform)
        if 'box_size' in kws and isinstance(kws['box_size'], int) and (cfunc is None or cform in ('np.int16', 'np.intp')):
            # (with a centroid function the box goes through as_pair, which rejects unsigned scalars: see the
            # known finding on border_width; not generated there)
            kws['box_size'] = _count_form(kws['box_size'], cform)
        if isinstance(kws.get('border_width'), int) and cform in ('np.int16', 'np.intp'):
            kws['border_width'] = _count_form(kws['border_width'], cform)
        if cfunc is not None:
            kws['centroid_func'] = cfunc
            if error is not None:
                e_in = _layout(error if factor is None else error * factor, lay)
                kws['error'] = (e_in * u.Jy) if quantity else e_in
        if wcs is not None:
            kws['wcs'] = wcs
        with warnings.catch_warnings(record=True) as wl:
            warnings.simplefilter('always')
            tbl = find_peaks(d_in, t_in, **kws)
        warned = any(issubclass(w.category, NoDetectionsWarning) for w in wl)
        return tbl, warned

    tbl, warned = call(np.inf)
    case.check(warned == (tbl is None), 'find_peaks_warning_iff_none', mech, warned=warned, none=tbl is None)
    with np.errstate(invalid='ignore'):
        above_excl = int(((status == ref.EXCLUDE) & (data > thr)).sum())
    case.nontrivial = nmust >= 1 and (above_excl >= 1 or mask is not None or border is not None)
    if constant:
        # documentation silent: the library declares "no local peaks" for a constant image
        case.note('find_peaks_constant_image_none' if tbl is None else 'find_peaks_constant_image_table')
        if tbl is None:
            return
    if tbl is None:
        case.check(nmust == 0, 'find_peaks_none_although_peaks_qualify', mech, nmust=nmust,
                   first=[int(v) for v in np.argwhere(status == ref.MUST)[0][::-1]] if nmust else None)
        if nmust == 0 and neither:
            case.note('find_peaks_either_pixels_excluded', neither)
        return
    n = len(tbl)
    case.check(all(c in tbl.colnames for c in ('id', 'x_peak', 'y_peak', 'peak_value')), 'find_peaks_columns', mech,
               cols=list(tbl.colnames))
    case.check(np.array_equal(np.asarray(tbl['id']), np.arange(1, n + 1)), 'find_peaks_ids_1_to_N', mech)
    xs, ys = np.asarray(tbl['x_peak']), np.asarray(tbl['y_peak'])
    case.check(xs.dtype.kind in 'iu' and ys.dtype.kind in 'iu', 'find_peaks_integer_positions', mech)
    inimg = bool(np.all((xs >= 0) & (xs < nx) & (ys >= 0) & (ys < ny)))
    case.check(inimg, 'find_peaks_positions_in_image', mech)
    if not inimg:
        return
    case.check(len(set(zip(xs.tolist(), ys.tolist()))) == n, 'find_peaks_positions_unique', mech)
    pv = tbl['peak_value']
    if quantity:
        case.check(getattr(pv, 'unit', None) == u.Jy, 'find_peaks_value_unit', mech, unit=str(getattr(pv, 'unit', None)))
        pv = pv.value if hasattr(pv, 'value') else pv
    else:
        case.check(getattr(pv, 'unit', None) is None, 'find_peaks_value_unit', mech)
    pv = np.asarray(pv, float)
    reported = np.zeros(shape, bool)
    reported[ys, xs] = True
    # no EXCLUDE pixel is reported
    bad = np.argwhere(reported & (status == ref.EXCLUDE))
    for y, x in bad[:3]:
        case.check(False, 'find_peaks_reports_excluded_pixel',
                   dict(mech, **_exclusion_reasons(data, thr, mask, bpair, y, x, fp)),
                   x=int(x), y=int(y), value=data[y, x])
    if not len(bad):
        case.check(True, 'find_peaks_reports_excluded_pixel', mech)
    # every MUST pixel is reported
    miss = np.argwhere(~reported & (status == ref.MUST))
    case.check(len(miss) == 0, 'find_peaks_misses_qualifying_pixel', mech, n=len(miss),
               first=[int(v) for v in miss[0][::-1]] if len(miss) else None)
    ein = int((reported & (status == ref.EITHER)).sum())
    case.note('find_peaks_either_pixels_included', ein)
    case.note('find_peaks_either_pixels_excluded', neither - ein)
    for k, v in reasons.items():
        if v:
            case.note('either_reason_' + k, v)
    notnan = ~np.isnan(data[ys, xs])          # a reported NaN pixel is already a violation above
    case.check(core.exact(pv[notnan], data[ys, xs][notnan]), 'find_peaks_peak_value_is_pixel_value', mech,
               obs=pv[notnan][:8], exp=data[ys, xs][notnan][:8])

    if wcs is not None:
        ok = 'skycoord_peak' in tbl.colnames
        case.check(ok, 'find_peaks_skycoord_column', mech, cols=list(tbl.colnames))
        if ok:
            sk = wcs.pixel_to_world(xs, ys)
            case.check(core.exact(tbl['skycoord_peak'].ra.deg, sk.ra.deg)
                       and core.exact(tbl['skycoord_peak'].dec.deg, sk.dec.deg), 'find_peaks_skycoord_of_peak_pixel', mech)
        if cfunc is not None and 'x_centroid' in tbl.colnames:
            okc = 'skycoord_centroid' in tbl.colnames
            case.check(okc, 'find_peaks_skycoord_column', dict(mech, centroid=True))
            fin = np.isfinite(np.asarray(tbl['x_centroid'], float)) & np.isfinite(np.asarray(tbl['y_centroid'], float))
            if okc and fin.any():
                sk = wcs.pixel_to_world(np.asarray(tbl['x_centroid'], float)[fin], np.asarray(tbl['y_centroid'], float)[fin])
                case.check(core.exact(tbl['skycoord_centroid'].ra.deg[fin], sk.ra.deg)
                           and core.exact(tbl['skycoord_centroid'].dec.deg[fin], sk.dec.deg),
                           'find_peaks_skycoord_of_centroid', mech)

    # count-like arguments as unsigned numpy scalars: border_width
    if isinstance(border, int) and cform in ('np.uint8', 'np.uint16', 'np.uint64') and cfunc is None:
        from photutils.detection import find_peaks as _fp
        mb_ = dict(mech, arg='border_width', count_form='unsigned')
        try:
            with warnings.catch_warnings():
                warnings.simplefilter('ignore')
                tb_ = _fp(_layout(data, lay), thr if np.ndim(thr) else float(thr), border_width=_count_form(border, cform),
                          **{k_: v_ for k_, v_ in kw.items()}, **({} if mask is None else {'mask': mask.copy()}))
            same_ = (tb_ is not None and len(tb_) == n and np.array_equal(np.asarray(tb_['x_peak']), xs)
                     and np.array_equal(np.asarray(tb_['y_peak']), ys))
            case.check(same_, 'find_peaks_count_like_numpy_scalar_equals_int', mb_)
        except ValueError as exc:
            if 'must have integer values' not in str(exc):
                raise
            case.check(False, 'find_peaks_count_like_numpy_scalar_equals_int', dict(mb_, raised='ValueError'),
                       msg=str(exc)[:100])

    # npeaks: the highest of the unrestricted table
    if npeaks != np.inf:
        m2 = dict(mech, npeaks=True, count_form=cform, npeaks_zero=bool(npeaks == 0))
        try:
            t2, w2 = call(npeaks)
        except ValueError as exc:
            if not (npeaks == 0 and cfunc is not None and 'zero-size array' in str(exc)):
                raise
            case.check(False, 'find_peaks_npeaks_count', dict(m2, centroid=True, raised='ValueError'), msg=str(exc)[:100])
            t2, w2 = None, True
        if npeaks == 0:
            # edge of the documented range ("maximum number of peaks"): at most 0 rows
            case.check(t2 is None or len(t2) == 0, 'find_peaks_npeaks_count', m2, got=None if t2 is None else len(t2),
                       npeaks=0, available=n)
            case.note('axis3_count_edge_npeaks_zero')
        elif case.check(t2 is not None and w2 is False, 'find_peaks_npeaks_not_none', m2):
            k = len(t2)
            case.check(k == min(npeaks, n), 'find_peaks_npeaks_count', m2, got=k, npeaks=npeaks, available=n)
            case.check(np.array_equal(np.asarray(t2['id']), np.arange(1, k + 1)), 'find_peaks_ids_1_to_N', m2)
            sel = set(zip(np.asarray(t2['x_peak']).tolist(), np.asarray(t2['y_peak']).tolist()))
            allp = list(zip(xs.tolist(), ys.tolist()))
            case.check(sel <= set(allp) and len(sel) == k, 'find_peaks_npeaks_subset_of_all', m2)
            if sel <= set(allp) and k:
                kept = np.array([p in sel for p in allp])
                vals = pv
                ok = (not (~kept).any()) or (np.nanmin(vals[kept]) >= np.nanmax(vals[~kept]))
                case.check(bool(ok), 'find_peaks_npeaks_keeps_highest', m2, kept=vals[kept][:8], dropped=vals[~kept][:8])
                v2 = t2['peak_value']
                v2 = np.asarray(v2.value if hasattr(v2, 'value') else v2, float)
                e2 = data[np.asarray(t2['y_peak']), np.asarray(t2['x_peak'])]
                case.check(core.exact(v2[~np.isnan(e2)], e2[~np.isnan(e2)]),
                           'find_peaks_peak_value_is_pixel_value', m2)

    # positive rescaling of image, threshold (and error map) by a power of two: the same peaks, values x k
    if not int_dtype and not f32:
        fin_ = np.abs(data[np.isfinite(data)])
        kf = _pow2_factor(rng, float(fin_.max()) if fin_.size else 1.0)
        case.note('rescale_factor_' + _bucket(kf))
        tk, wk = call(np.inf, factor=kf)
        mk = dict(mech, rel='scale')
        if case.check(tk is not None and not wk, 'find_peaks_rescaled_image_same_peaks', mk, k=kf, none=tk is None):
            same_pos = (len(tk) == n and np.array_equal(np.asarray(tk['x_peak']), xs)
                        and np.array_equal(np.asarray(tk['y_peak']), ys)
                        and np.array_equal(np.asarray(tk['id']), np.asarray(tbl['id'])))
            case.check(same_pos, 'find_peaks_rescaled_image_same_peaks', mk, k=kf, n=n, nk=len(tk))
            if same_pos:
                vk = tk['peak_value']
                vk = np.asarray(vk.value if hasattr(vk, 'value') else vk, float)
                case.close(vk, pv * kf, 'find_peaks_rescaled_image_values_scale', mech=mk, k=kf)
                if cfunc is not None and 'x_centroid' in tk.colnames and 'x_centroid' in tbl.colnames:
                    emin = float(np.nanmin(error)) * kf if error is not None else 1.0
                    if emin > 1e-28:
                        # least-squares based functions: LAPACK does not promise bit-identical results for a
                        # rescaled right-hand side (measured 9e-16); centre of mass is exact
                        atol_c = 0.0 if cname in ('com', 'wcom') else 1e-9
                        case.close(np.array([np.asarray(tk['x_centroid'], float), np.asarray(tk['y_centroid'], float)]),
                                   np.array([np.asarray(tbl['x_centroid'], float), np.asarray(tbl['y_centroid'], float)]),
                                   'find_peaks_rescaled_image_same_centroids', atol=atol_c,
                                   mech=dict(mk, centroid=cname, error=error is not None), k=kf)
                    else:
                        case.note('rescaled_error_below_library_clip_not_judged')

    # centroids
    if cfunc is not None:
        import inspect
        has_c = 'x_centroid' in tbl.colnames and 'y_centroid' in tbl.colnames
        case.check(has_c, 'find_peaks_centroid_columns', mech, cols=list(tbl.colnames))
        if has_c:
            xc, yc = np.asarray(tbl['x_centroid'], float), np.asarray(tbl['y_centroid'], float)
            filled = data.copy()
            nanm = np.isnan(filled)
            if nanm.any() and (~nanm).any():
                filled[nanm] = np.nanmin(filled)
            err_kw = error is not None and 'error' in inspect.signature(cfunc).parameters
            carried = error                     # classification model only (see C17): one kwargs dict carried along
            for i in range(n):
                slc, slc_sm = overlap_slices(shape, fp.shape, (int(ys[i]), int(xs[i])), mode='partial')
                mcut = ~fp[slc_sm]
                if mask is not None:
                    mcut = mcut | mask[slc]
                if err_kw and carried is not None:
                    try:
                        carried = carried[slc]
                    except Exception:  # noqa: BLE001
                        carried = None
                obs = np.array([xc[i], yc[i]])
                m3 = dict(mech, centroid=cname, error_kw=bool(err_kw), first=bool(i == 0))
                e1 = _centroid_expect(cfunc, data, slc, mcut, None if error is None else error[slc])
                ok = core.exact(obs, e1)
                if not ok and nanm[slc].any():
                    e2 = _centroid_expect(cfunc, filled, slc, mcut, None if error is None else error[slc])
                    if core.exact(obs, e2):
                        ok = True
                        case.note('find_peaks_centroid_uses_nan_filled_data')
                if not ok and err_kw and i > 0:
                    e3 = (_centroid_expect(cfunc, filled, slc, mcut, carried) if carried is not None
                          else np.array([np.nan, np.nan]))
                    m3['explained_by_carried_kwargs'] = bool(core.exact(obs, e3))
                case.check(ok, 'find_peaks_centroid_is_centroid_func_on_cutout', m3, index=i, obs=obs, exp=e1,
                           peak=[int(xs[i]), int(ys[i])])
                if cname == 'com':
                    # independent of the library's centroid_com: the intensity-weighted mean of the cutout
                    from pv.ref import c17_centroid as cref
                    oks, cmin = [], np.inf
                    for arr in ((data, filled) if nanm[slc].any() else (data,)):
                        r_, cond_ = cref.com_reference(arr[slc], mcut)
                        if not np.isfinite(cond_):
                            oks.append(True)      # exactly zero total: undefined (a rounded sum need not be 0)
                        elif cond_ >= 1e6:
                            oks.append(True)                                   # ill-conditioned total: not judged
                        else:
                            cmin = min(cmin, cond_)
                            tol_ = 1e-12 * cond_ * max(fp.shape)
                            oks.append(bool(np.all(np.abs(obs - (r_ + [slc[1].start, slc[0].start])) <= tol_)))
                    if oks:
                        case.check(any(oks), 'find_peaks_com_centroid_is_weighted_mean_of_cutout',
                                   dict(mech, centroid='com'), index=i, obs=obs, cond=cmin)


# ======================================================================
# star finders
# ======================================================================
def _star_scene(case, sparse):
    rng = case.rng
    if sparse:
        ny, nx = int(rng.integers(24, 41)), int(rng.integers(24, 41))
        base = float(rng.choice([0.0, 0.0, -3.0, 2.0]))
        data = np.full((ny, nx), base)
        for _ in range(int(rng.integers(2, 9))):
            y0, x0 = int(rng.integers(0, ny)), int(rng.integers(0, nx))
            a = float(rng.integers(5, 60))
            shape = str(rng.choice(['delta', 'plus', 'block', 'blob']))
            if shape == 'delta':
                data[y0, x0] += a
            elif shape == 'block':
                data[y0:y0 + 2, x0:x0 + 2] += a
            elif shape == 'plus':
                data[y0, x0] += a
                for dy, dx in ((0, 1), (0, -1), (1, 0), (-1, 0)):
                    if 0 <= y0 + dy < ny and 0 <= x0 + dx < nx:
                        data[y0 + dy, x0 + dx] += a // 2
            else:
                yy, xx = np.mgrid[0:ny, 0:nx]
                data += np.round(a * np.exp(-((xx - x0) ** 2 + (yy - y0) ** 2) / 3.0))
            if rng.random() < 0.4:
                # an identical twin a few pixels away: exact ties in the convolved image
                dy, dx = int(rng.integers(-7, 8)), int(rng.integers(2, 8))
                if 0 <= y0 + dy < ny and 0 <= x0 + dx < nx and shape == 'delta':
                    data[y0 + dy, x0 + dx] += a
        if rng.random() < 0.3:
            data += rng.integers(0, 2, size=data.shape)
        sigma_noise = 1.0
        return data, sigma_noise
    ny, nx = int(rng.integers(36, 65)), int(rng.integers(36, 65))
    if rng.random() < 0.12:                         # strongly elongated image
        ny, nx = int(rng.integers(16, 24)), int(rng.integers(90, 130))
        if rng.random() < 0.5:
            ny, nx = nx, ny
        case.note('axis_shape_elongated')
    yy, xx = np.mgrid[0:ny, 0:nx].astype(float)
    data = rng.normal(0, 1.0, size=(ny, nx))
    nstar = int(rng.integers(3, 12))
    pos = []
    for i in range(nstar):
        r = rng.random()
        if i > 0 and r < 0.3:
            j = int(rng.integers(0, i))
            d = float(rng.uniform(2.0, 9.0))
            ang = float(rng.uniform(0, 2 * np.pi))
            x0, y0 = pos[j][0] + d * math.cos(ang), pos[j][1] + d * math.sin(ang)
        elif r < 0.45:
            x0 = float(rng.choice([rng.uniform(-1, 3), rng.uniform(nx - 4, nx), rng.uniform(0, nx - 1)]))
            y0 = float(rng.choice([rng.uniform(-1, 3), rng.uniform(ny - 4, ny), rng.uniform(0, ny - 1)]))
        else:
            x0, y0 = float(rng.uniform(0, nx - 1)), float(rng.uniform(0, ny - 1))
        if rng.random() < 0.3:
            x0, y0 = float(round(x0)), float(round(y0))
        s1 = float(rng.uniform(0.8, 1.9))
        s2 = s1 * float(rng.choice([1.0, rng.uniform(0.5, 1.0)]))
        th = float(rng.uniform(0, np.pi))
        amp = float(np.exp(rng.uniform(np.log(3), np.log(400))))
        u = (xx - x0) * math.cos(th) + (yy - y0) * math.sin(th)
        v = -(xx - x0) * math.sin(th) + (yy - y0) * math.cos(th)
        data += amp * np.exp(-0.5 * (u * u / (s1 * s1) + v * v / (s2 * s2)))
        pos.append((x0, y0))
    if rng.random() < 0.3:
        # over-subtracted (negative) patch
        y0, x0 = int(rng.integers(0, ny - 8)), int(rng.integers(0, nx - 8))
        data[y0:y0 + int(rng.integers(6, 20)), x0:x0 + int(rng.integers(6, 20))] -= float(rng.uniform(3, 30))
    if rng.random() < 0.15:
        # saturated plateau
        k = int(rng.integers(0, nstar))
        cap = float(np.percentile(data, 99.7))
        data = np.minimum(data, cap)
    return data, 1.0


def _table_rows(tbl, cols):
    if tbl is None:
        return np.zeros((0, len(cols)))
    out = []
    for c in cols:
        v = tbl[c]
        out.append(np.asarray(v.value if hasattr(v, 'value') else v, float))
    return np.array(out).T.reshape(len(tbl), len(cols))


class _Finder:
    """Factory for one finder kind with a fixed base configuration."""

    def __init__(self, kind, rng, sigma_noise, sparse, mag=1.0):
        self.kind = kind
        self.base = {}
        b = self.base
        if sparse:
            b['threshold'] = float(rng.choice([0.5, 1.0, 2.0, 4.0, 8.0])) * mag
        else:
            b['threshold'] = float(rng.uniform(3.0, 12.0) * sigma_noise) * mag
        if kind in ('dao', 'iraf'):
            b['fwhm'] = float(rng.choice([2.0, 3.0, float(np.round(rng.uniform(1.5, 4.5), 2))]))
            if rng.random() < 0.3:
                b['sigma_radius'] = float(np.round(rng.uniform(1.0, 2.5), 2))
        if kind == 'dao':
            if rng.random() < 0.4:
                b['ratio'] = float(np.round(rng.uniform(0.45, 1.0), 2))
                b['theta'] = float(np.round(rng.uniform(0, 180), 1))
            if rng.random() < 0.25:
                # wide elliptical kernel: its array is not square (x and y half-sizes differ)
                b['fwhm'] = float(rng.choice([5.0, 6.5, 8.0]))
                b['ratio'] = float(np.round(rng.uniform(0.3, 0.6), 2))
                b['theta'] = float(rng.choice([0.0, 90.0, 0.0, 90.0, float(np.round(rng.uniform(0, 180), 1))]))
                b['exclude_border'] = bool(rng.random() < 0.7)
            r = rng.random()
            if r < 0.35:
                b['min_separation'] = float(rng.integers(2, 9))
            elif r < 0.5:
                b['min_separation'] = float(rng.integers(2, 8)) + float(rng.choice([0.5, 0.5, 0.3, 0.7]))
            elif r < 0.55:
                b['min_separation'] = int(rng.integers(1, 6))
        elif kind == 'iraf':
            r = rng.random()
            if r < 0.3:
                b['min_separation'] = float(rng.integers(0, 9))
            elif r < 0.45:
                b['min_separation'] = float(rng.integers(2, 8)) + float(rng.choice([0.5, 0.5, 0.3, 0.7]))
            elif r < 0.6:
                b['minsep_fwhm'] = float(np.round(rng.uniform(0.8, 3.0), 2))
        else:
            size = (int(rng.choice([5, 7, 9])), int(rng.choice([5, 7, 9])))
            yy, xx = np.mgrid[0:size[0], 0:size[1]].astype(float)
            s = float(rng.uniform(0.9, 2.0))
            q = float(rng.choice([1.0, rng.uniform(0.6, 1.0)]))
            k = np.exp(-0.5 * (((xx - size[1] // 2) / s) ** 2 + ((yy - size[0] // 2) / (s * q)) ** 2))
            self.user_kernel = k * float(rng.choice([1.0, 3.0, 0.01]))
            r = rng.random()
            if r < 0.35:
                b['min_separation'] = float(rng.integers(0, 9))
            elif r < 0.5:
                b['min_separation'] = float(rng.integers(2, 8)) + float(rng.choice([0.5, 0.5, 0.3, 0.7]))
        if 'exclude_border' not in b and rng.random() < 0.4:
            b['exclude_border'] = True
        if b.get('exclude_border') is False:
            del b['exclude_border']

    # ---- construction -------------------------------------------------
    def wide(self):
        if self.kind in ('dao', 'iraf'):
            return dict(sharplo=-np.inf, sharphi=np.inf, roundlo=-np.inf, roundhi=np.inf, peakmax=None,
                        brightest=None)
        return dict(peakmax=None, brightest=None)

    def make(self, factor=None, **over):
        """factor: threshold and peakmax multiplied by it (image rescaled by the same factor in _run).
        Call forms (self.form): Quantity threshold/peakmax, numpy scalars, list-of-lists xycoords."""
        import astropy.units as u
        from photutils.detection import DAOStarFinder, IRAFStarFinder, StarFinder
        kw = dict(self.base)
        kw.update(self.wide())
        kw.update(over)
        form = getattr(self, 'form', {})
        if factor is not None:
            kw['threshold'] = kw['threshold'] * factor
            if kw.get('peakmax') is not None:
                kw['peakmax'] = kw['peakmax'] * factor
        if form.get('scalars') == 'numpy':
            kw['threshold'] = np.float64(kw['threshold'])
            if 'fwhm' in kw:
                kw['fwhm'] = np.float64(kw['fwhm'])
            if kw.get('peakmax') is not None:
                kw['peakmax'] = np.float64(kw['peakmax'])
            if kw.get('brightest') is not None:
                kw['brightest'] = np.int64(kw['brightest'])
        if form.get('count') and form['count'] != 'int':
            if kw.get('brightest') is not None and float(kw['brightest']).is_integer():
                kw['brightest'] = _count_form(int(kw['brightest']), form['count'])
            ms_ = kw.get('min_separation')
            if ms_ is not None and float(ms_).is_integer() and 0 <= ms_ < 200:
                kw['min_separation'] = _count_form(int(ms_), form['count'])
        if form.get('xy') == 'list' and kw.get('xycoords') is not None:
            kw['xycoords'] = [[float(a), float(b)] for a, b in kw['xycoords']]
        elif form.get('xy') == 'float' and kw.get('xycoords') is not None:
            kw['xycoords'] = np.asarray(kw['xycoords'], float)
        elif form.get('xy') in ('int32', 'uint16', 'float32') and kw.get('xycoords') is not None:
            kw['xycoords'] = np.asarray(kw['xycoords']).astype(form['xy'])
        if form.get('quantity'):
            kw['threshold'] = kw['threshold'] * u.adu
            if kw.get('peakmax') is not None:
                kw['peakmax'] = kw['peakmax'] * u.adu
        if self.kind == 'dao':
            return DAOStarFinder(**kw)
        if self.kind == 'iraf':
            return IRAFStarFinder(**kw)
        thr = kw.pop('threshold')
        return StarFinder(thr, self.user_kernel.copy(), **kw)

    # ---- documented quantities ----------------------------------------
    def kernel_array(self, finder):
        if self.kind in ('dao', 'iraf'):
            return np.array(finder.kernel.data, float)
        k = self.user_kernel / self.user_kernel.max()
        den = np.sum(k ** 2) - np.sum(k) ** 2 / k.size
        return (k - k.sum() / k.size) / den if den > 0 else k

    def conv_threshold(self, karr):
        t = self.base['threshold']
        return t * math.sqrt(float(np.sum(karr ** 2))) if self.kind == 'dao' else t

    def min_sep(self):
        b = self.base
        if self.kind == 'dao':
            return float(b.get('min_separation', 0.0))
        if self.kind == 'iraf':
            if b.get('min_separation') is not None:
                return float(b['min_separation'])
            return float(max(2, int(b['fwhm'] * b.get('minsep_fwhm', 2.5) + 0.5)))
        return float(b.get('min_separation', 5.0))

    @property
    def cols(self):
        return {'dao': ['xcentroid', 'ycentroid', 'sharpness', 'roundness1', 'roundness2', 'npix', 'peak', 'flux',
                        'mag', 'daofind_mag'],
                'iraf': ['xcentroid', 'ycentroid', 'fwhm', 'sharpness', 'roundness', 'pa', 'npix', 'peak', 'flux',
                         'mag'],
                'sf': ['xcentroid', 'ycentroid', 'fwhm', 'roundness', 'pa', 'max_value', 'flux', 'mag']}[self.kind]

    @property
    def peakcol(self):
        return 'max_value' if self.kind == 'sf' else 'peak'


def _feasible_dtypes(data):
    """Narrow / unsigned dtypes that hold the (integer-valued, finite) image exactly."""
    a = np.asarray(data, float)
    if not (np.all(np.isfinite(a)) and np.all(a == np.round(a))):
        return []
    lo, hi = float(a.min()), float(a.max())
    out = []
    for name in ('uint8', 'uint16', 'uint32', 'uint64', 'int8', 'int16', 'int32', 'int64'):
        info = np.iinfo(name)
        if lo >= info.min and hi <= info.max:
            out.append(name)
    if max(abs(lo), abs(hi)) < 2 ** 24:
        out.append('float32')
    return out


def _run(finder, data, mask, form=None, factor=None, dtype=None):
    import astropy.units as u
    from photutils.utils.exceptions import NoDetectionsWarning
    form = form or {}
    if dtype is not None:
        data = np.asarray(data).astype(dtype)
    d_in = _layout(data if factor is None else data * factor, form.get('layout', 'C'))
    m_in = _layout(mask, form.get('layout', 'C'))
    if form.get('quantity'):
        d_in = d_in * u.adu
    with warnings.catch_warnings(record=True) as wl:
        warnings.simplefilter('always')
        if form.get('positional') and m_in is not None:
            tbl = finder.find_stars(d_in, m_in)
        else:
            tbl = finder(d_in, mask=m_in)
    warned = any(issubclass(w.category, NoDetectionsWarning) for w in wl)
    return tbl, warned


def _pick_bound(rng, values, side):
    """A bound for `values` (reported column): wide, exactly on a value, between two values, beyond all."""
    v = np.sort(np.asarray(values, float))
    r = rng.random()
    if v.size == 0 or r < 0.25:
        return -np.inf if side == 'lo' else np.inf
    if r < 0.65:
        return float(v[int(rng.integers(0, v.size))])             # exactly on a reported value (inclusive)
    if r < 0.9 and v.size >= 2:
        i = int(rng.integers(0, v.size - 1))
        return float(0.5 * (v[i] + v[i + 1]))
    return float(v[0] - 1.0) if rng.random() < 0.5 else float(v[-1] + 1.0)


def _apply_bounds(kind, tbl_rows, cols, b):
    """Rows (2-D array in `cols` order) that satisfy the documented inclusive bounds."""
    ci = {c: i for i, c in enumerate(cols)}
    keep = np.ones(len(tbl_rows), bool)
    if kind in ('dao', 'iraf'):
        sh = tbl_rows[:, ci['sharpness']]
        keep &= (sh >= b['sharplo']) & (sh <= b['sharphi'])
        for rc in (('roundness1', 'roundness2') if kind == 'dao' else ('roundness',)):
            rr = tbl_rows[:, ci[rc]]
            keep &= (rr >= b['roundlo']) & (rr <= b['roundhi'])
    pk = tbl_rows[:, ci['max_value' if kind == 'sf' else 'peak']]
    if b.get('peakmax') is not None:
        keep &= pk <= b['peakmax']
    return keep


def _check_table_basics(case, F, tbl, warned, mech, tag):
    m = dict(mech, table=tag)
    case.check(warned == (tbl is None), 'star_warning_iff_none', m, warned=warned, none=tbl is None)
    if tbl is None:
        return None
    n = len(tbl)
    case.check(n >= 1, 'star_table_not_empty', m)
    case.check(np.array_equal(np.asarray(tbl['id']), np.arange(1, n + 1)), 'star_ids_1_to_N', m,
               ids=np.asarray(tbl['id'])[:10])
    case.check(all(c in tbl.colnames for c in F.cols), 'star_columns', m, cols=list(tbl.colnames))
    rows = _table_rows(tbl, F.cols)
    ci = {c: i for i, c in enumerate(F.cols)}
    flux = rows[:, ci['flux']]
    for c in F.cols:
        v = rows[:, ci[c]]
        if c in ('mag', 'daofind_mag'):
            continue
        case.check(bool(np.all(np.isfinite(v))), 'star_reported_values_finite', dict(m, column=c), bad=v[~np.isfinite(v)][:5])
    with np.errstate(all='ignore'):
        expmag = -2.5 * np.log10(flux)
    case.close(rows[:, ci['mag']], expmag, 'star_mag_is_minus2p5_log10_flux', rtol=1e-14, mech=m)
    case.check(bool(np.all(np.isfinite(rows[:, ci['mag']]) | (flux <= 0))), 'star_reported_values_finite',
               dict(m, column='mag'))
    return rows


def _check_rescaled(case, F, rows, tblk, warnedk, kf, mech, tag, probe=None):
    """Image, threshold (and peakmax) multiplied by the power of two kf: the same sources in the same order,
    dimensionless columns bit-identical, peak/flux x kf, mag shifted by -2.5 log10(kf)."""
    m = dict(mech, rel='scale', table=tag)
    n0 = 0 if rows is None else len(rows)
    case.check(warnedk == (tblk is None), 'star_warning_iff_none', dict(m, table=tag + '_rescaled'))
    nk = 0 if tblk is None else len(tblk)
    if not case.check(nk == n0, 'star_rescaled_image_same_sources', m, k=kf, rows=n0, rows_rescaled=nk):
        return
    if n0 == 0:
        return
    rk = _table_rows(tblk, F.cols)
    case.check(np.array_equal(np.asarray(tblk['id']), np.arange(1, nk + 1)), 'star_ids_1_to_N', m)
    scaled = {'peak', 'flux', 'max_value'}
    for i, c in enumerate(F.cols):
        if c == 'mag':
            with np.errstate(all='ignore'):
                case.close(rk[:, i], rows[:, i] - 2.5 * math.log10(kf), 'star_rescaled_image_mag_shift',
                           atol=1e-11, mech=m, k=kf)
        elif c in scaled:
            case.close(rk[:, i], rows[:, i] * kf, 'star_rescaled_image_values_scale', mech=dict(m, column=c), k=kf)
        else:
            mc = dict(m, column=c)
            if (probe is not None and c in ('xcentroid', 'ycentroid') and F.kind == 'dao'
                    and not core.exact(rk[:, i], rows[:, i])):
                # classification only: a term that does not scale with the image (its effect ~ 1/values) vanishes
                # for large values: two runs at large magnitudes agree with each other
                mc['explained_by_term_not_scaling_with_image'] = bool(probe(i))
            case.close(rk[:, i], rows[:, i], 'star_rescaled_image_same_sources', mech=mc, k=kf)


def _run_star(case):
    rng = case.rng
    kind, scene = case.cls.split('_')
    sparse = scene == 'sparse'
    data, sig = _star_scene(case, sparse)
    ny, nx = data.shape
    mag = _magnitude(rng, p_unit=0.55)
    counts = bool(rng.random() < 0.3)
    if counts:
        # integer detector counts (non-negative for the realistic scenes): the image can be handed over in
        # narrow / unsigned dtypes holding exactly the same numbers
        mag = 1.0
        if not sparse:
            scale_ = float(rng.choice([1.0, 1.0, 0.25, 20.0]))      # 0.25: fits uint8; 20: beyond uint8/int16 range
            data = np.clip(np.rint(data * scale_ + float(rng.choice([0, 40, 300]))), 0, None)
            sig = sig * scale_
        else:
            data = np.rint(data)
        case.note('axis2_dtype_integer_counts_scene')
    data = data * mag
    fin_ = np.abs(data[np.isfinite(data)])
    case.note('data_magnitude_' + _bucket(float(fin_.max()) if fin_.size else 0.0))
    F = _Finder(kind, rng, sig, sparse, mag)
    if rng.random() < 0.04:
        # degenerate: nothing can be detected (threshold above every convolved value / everything masked below)
        F.base['threshold'] = float(np.nanmax(np.abs(data))) * 1e3 + 1.0 * mag
        case.note('axis_degenerate_threshold_above_everything')
    mask = None
    if rng.random() < 0.4:
        mask = rng.random(data.shape) < rng.choice([0.01, 0.05])
        if rng.random() < 0.5:
            ys, xs = np.unravel_index(np.argsort(data, axis=None)[-3:], data.shape)
            k = int(rng.integers(0, 3))
            mask[max(0, ys[k] - 1):ys[k] + 2, max(0, xs[k] - 1):xs[k] + 2] = True
    if sparse and rng.random() < 0.1:
        data[rng.random(data.shape) < 0.004] = np.nan
    has_nan = bool(np.isnan(data).any())
    case.params = dict(finder=kind, scene=scene, shape=[ny, nx], base={k: v for k, v in F.base.items()},
                       masked=mask is not None, nan=has_nan, magnitude=mag)
    case.digest = core.arr_digest(data, mask, getattr(F, 'user_kernel', None)) + core.digest(
        [kind, sorted((k, str(v)) for k, v in F.base.items())])[:6]
    msep = F.min_sep()
    mech = {'cls': case.cls, 'finder': kind, 'exclude_border': bool(F.base.get('exclude_border', False)),
            'min_sep_integer': bool(float(msep).is_integer()), 'min_sep_zero': bool(msep == 0)}

    F.form = {'layout': str(rng.choice(LAYOUTS)),
              'quantity': bool(rng.random() < 0.12),
              'scalars': str(rng.choice(['python', 'python', 'numpy'])),
              'xy': str(rng.choice(['int', 'int', 'float', 'list', 'int32', 'uint16', 'float32'])),
              'positional': bool(rng.random() < 0.3),
              'count': str(rng.choice(COUNT_FORMS))}
    for k_, v_ in F.form.items():
        case.note(f'axis_form_{k_}_{v_}')

    def run_(finder, data_, mask_, factor=None, dtype=None):       # all runs of this case use the same call form
        return _run(finder, data_, mask_, F.form, factor, dtype)

    fw = F.make()
    karr = F.kernel_array(fw)
    yr, xr = karr.shape[0] // 2, karr.shape[1] // 2
    thr_c = F.conv_threshold(karr)
    with np.errstate(all='ignore'):
        conv = ref.conv_reference(data, karr)
    scale = float(np.nanmax(np.abs(conv))) if np.isfinite(conv).any() else 1.0
    eps = 1e-9 * max(scale, 1e-300)
    bx, by = (xr, yr) if F.base.get('exclude_border') else (0, 0)
    cand = ref.candidates(conv, thr_c, mask, eps, xborder=bx, yborder=by,
                          conn=4 if 0 < msep < math.sqrt(2.0) else 8)
    rbig = max(math.ceil(msep) + 1.0, math.hypot(xr, yr) + 1.0)
    must = ref.must_peaks(conv, thr_c, mask, eps, rbig, xborder=bx, yborder=by)

    W, warnedW = run_(fw, data, mask)
    rowsW = _check_table_basics(case, F, W, warnedW, mech, 'wide')
    nW = 0 if rowsW is None else len(rowsW)
    case.nontrivial = nW >= 2
    case.note('star_wide_rows', nW)
    case.note('star_candidate_peaks', len(cand))
    case.note('star_must_peaks', len(must))
    # (x) provenance: the same finder object asked a second time
    W2, w2 = run_(fw, data, mask)
    case.check(w2 == (W2 is None), 'star_warning_iff_none', dict(mech, table='second_call'))
    case.close(_table_rows(W2, F.cols), rowsW if rowsW is not None else np.zeros((0, len(F.cols))),
               'star_same_finder_second_call_identical', mech=mech)
    case.note('axis2_provenance_finder_reused')
    # (xi) a caller-owned all-False mask is the same as no mask (and stays untouched)
    if mask is None and rng.random() < 0.2:
        T0, _ = run_(fw, data, np.zeros(data.shape, bool))
        case.close(_table_rows(T0, F.cols), rowsW if rowsW is not None else np.zeros((0, len(F.cols))),
                   'star_all_false_mask_equals_no_mask', mech=mech)
        case.note('axis2_setlike_mask_all_false')
    # (viii) anisotropy / one-sided edges counters
    if karr.shape[0] != karr.shape[1]:
        case.note('axis2_aniso_kernel_not_square')
    if ny >= nx + 2:
        case.note('axis2_aniso_image_tall')
    elif nx >= ny + 2:
        case.note('axis2_aniso_image_wide')
    if len(cand):
        for nm, sel in (('left', cand[:, 0] <= xr), ('right', cand[:, 0] >= nx - 1 - xr),
                        ('bottom', cand[:, 1] <= yr), ('top', cand[:, 1] >= ny - 1 - yr)):
            if sel.any():
                case.note('axis2_edge_peak_near_' + nm)
    case.note('axis2_parity_min_separation_' + ('integer' if float(msep).is_integer() else 'fractional'))

    _model = {}

    def model_peaks():
        """Classification only (never a verdict): peaks of a neighbourhood laid out on the grid
        arange(-r, r + 1) for a non-integer r (see the known finding on non-integer min_separation)."""
        if 'p' not in _model:
            idx = np.arange(-msep, msep + 1)
            gx, gy = np.meshgrid(idx, idx)
            fpm = (gx ** 2 + gy ** 2) <= msep ** 2
            stm, _ = ref.peak_status(conv, thr_c, fpm, mask, (by, bx) if (bx or by) else None)
            ym, xm = np.nonzero(stm != ref.EXCLUDE)
            _model['p'] = np.transpose((xm, ym))
        return _model['p']

    # (R) positive rescaling of image and threshold by a power of two
    fin_ = np.abs(data[np.isfinite(data)])
    kf = _pow2_factor(rng, float(fin_.max()) if fin_.size else 1.0)
    case.note('rescale_factor_' + _bucket(kf))
    Wk, wWk = run_(F.make(factor=kf), data, mask, factor=kf)
    mag_now = float(fin_.max()) if fin_.size else 1.0

    def probe(icol, **b_):
        outs = []
        for e_ in (30, 40):
            k_ = float(2.0 ** (e_ - int(round(math.log2(mag_now))))) if mag_now > 0 else 1.0
            T_, _ = run_(F.make(factor=k_, **b_), data, mask, factor=k_)
            outs.append(_table_rows(T_, F.cols)[:, icol])
        return outs[0].shape == outs[1].shape and bool(np.all(np.abs(outs[0] - outs[1]) <= 1e-7))

    _check_rescaled(case, F, rowsW, Wk, wWk, kf, mech, 'wide', probe)

    # (T) the same numbers in a narrow / unsigned dtype: the same table
    twin_dtypes = []
    if counts and not has_nan and not F.form.get('quantity'):
        feas = _feasible_dtypes(data)
        if sparse and 'float32' in feas:
            feas.remove('float32')      # exact ties of the sparse scenes are broken by the float32 convolution
        if feas:
            twin_dtypes = [str(v) for v in rng.choice(feas, size=min(2, len(feas)), replace=False)]
    for dt in twin_dtypes:
        case.note('axis2_dtype_image_' + dt)
        Wd, wWd = run_(fw, data, mask, dtype=dt)
        md = dict(mech, dtype=dt, table='wide')
        case.check(wWd == (Wd is None), 'star_warning_iff_none', dict(md, table='dtype_twin'))
        rows_d = _table_rows(Wd, F.cols)
        rows_0 = rowsW if rowsW is not None else np.zeros((0, len(F.cols)))
        if dt == 'float32':
            # the convolution then runs in float32: peaks within ~1e-7 (relative) of the threshold or of a tied
            # neighbour may legitimately differ; judged only when the same sources were selected
            if len(rows_d) == len(rows_0):
                if 'pa' in F.cols and len(rows_d):
                    # the position angle is defined modulo 180 deg: 0.0 and 180.0 are the same orientation (seen at
                    # thorough seed 5: a source whose float64 pa is 180.0 comes out as 0.0 from the float32 image)
                    j = list(F.cols).index('pa')
                    rows_d = np.array(rows_d, float, copy=True)
                    with np.errstate(invalid='ignore'):
                        rows_d[:, j] -= 180.0 * np.round((rows_d[:, j] - rows_0[:, j]) / 180.0)
                case.close(rows_d, rows_0, 'star_same_table_for_float32_image', rtol=2e-4, atol=2e-4, mech=md)
            else:
                case.note('float32_image_selects_other_sources_not_judged')
        elif case.check(len(rows_d) == len(rows_0), 'star_same_table_for_narrow_dtype', md, rows=len(rows_0),
                        rows_dtype=len(rows_d)):
            case.close(rows_d, rows_0, 'star_same_table_for_narrow_dtype', mech=md)

    # (A) every centroid within the kernel half-size of a candidate peak
    near = []
    if nW:
        for i in range(nW):
            xc, yc = rowsW[i, 0], rowsW[i, 1]
            if len(cand):
                sel = (np.abs(cand[:, 0] - xc) <= xr + 0.5) & (np.abs(cand[:, 1] - yc) <= yr + 0.5)
            else:
                sel = np.zeros(0, bool)
            near.append(np.nonzero(sel)[0])
            ma = mech
            if not sel.any() and msep > 0 and not float(msep).is_integer():
                mp = model_peaks()
                ma = dict(mech, explained_by_fractional_offset_grid=bool(
                    len(mp) and np.any((np.abs(mp[:, 0] - xc) <= xr + 0.5) & (np.abs(mp[:, 1] - yc) <= yr + 0.5))))
            case.check(bool(sel.any()), 'star_centroid_within_kernel_of_a_peak', ma, centroid=[xc, yc],
                       kernel_half=[xr, yr])
            if sel.any():
                d = np.min(np.maximum(np.abs(cand[sel, 0] - xc) / (xr + 0.5), np.abs(cand[sel, 1] - yc) / (yr + 0.5)))
                case.dev('star_centroid_to_nearest_peak_in_kernel_halfsizes', d)

    # (B) xycoords relations (DAO / IRAF)
    peaks_of_row = None
    if kind in ('dao', 'iraf'):
        ncand = len(cand)
        if ncand == 0:
            case.note('star_no_candidate_peak')        # then (A) already demands that no row is reported
        elif ncand <= 60:
            RC, wRC = run_(F.make(xycoords=cand.copy()), data, mask)
            rowsRC = _check_table_basics(case, F, RC, wRC, mech, 'xycoords_all')
            rowsRC = np.zeros((0, len(F.cols))) if rowsRC is None else rowsRC
            # W rows are rows that xycoords=<candidates> reproduces exactly
            setRC = {_key(r) for r in rowsRC}
            mrow = mech
            if F.form.get('xy') == 'uint16':
                # classification only: centroids displaced by 2**16 = unsigned positions minus the kernel radius
                wrapped = bool(len(rowsRC) and np.any((rowsRC[:, 0] > nx + 6e4) | (rowsRC[:, 1] > ny + 6e4)))
                mech = dict(mech, xycoords_unsigned=True, explained_by_unsigned_wraparound=wrapped)
                mrow = mech
            if nW:
                miss = [i for i in range(nW) if _key(rowsW[i]) not in setRC]
                if miss and not float(msep).is_integer():
                    # classification only: are the unexplained rows the peaks of a neighbourhood laid out on
                    # the grid arange(-r, r + 1) (see the known finding on non-integer min_separation)?
                    mp = model_peaks()
                    expl = False
                    if 0 < len(mp) <= 400:
                        Rm, _ = run_(F.make(xycoords=mp.copy()), data, mask)
                        setRm = {_key(r) for r in _table_rows(Rm, F.cols)}
                        expl = all(_key(rowsW[i]) in setRm for i in miss)
                    mrow = dict(mech, explained_by_fractional_offset_grid=bool(expl))
                case.check(not miss, 'star_rows_equal_xycoords_rows_of_candidate_peaks', mrow, n_missing=len(miss),
                           first=rowsW[miss[0]][:4] if miss else None)
            # one position at a time (for a sample): per-source independence and row -> peak map
            sample = np.arange(ncand) if ncand <= 14 else np.sort(rng.choice(ncand, size=14, replace=False))
            row_of = {}
            for j in sample:
                Rj, wj = run_(F.make(xycoords=cand[j:j + 1].copy()), data, mask)
                case.check(wj == (Rj is None), 'star_warning_iff_none', dict(mech, table='xycoords_single'))
                if Rj is not None:
                    rj = _table_rows(Rj, F.cols)
                    case.check(len(rj) == 1 and int(Rj['id'][0]) == 1, 'star_ids_1_to_N', dict(mech, table='xycoords_single'))
                    row_of[int(j)] = rj[0]
                    case.check(_key(rj[0]) in setRC, 'star_xycoords_single_row_in_batched_table', mech,
                               pos=cand[j].tolist())
            if len(sample) == ncand:
                # the batched table is exactly the collection of the single-position rows
                case.close(_sort_rows(np.array(list(row_of.values())).reshape(-1, len(F.cols))), _sort_rows(rowsRC),
                           'star_xycoords_table_is_union_of_single_rows', mech=mech)
                inv = {}
                for j, r in row_of.items():
                    inv.setdefault(_key(r), []).append(j)
                if nW:
                    peaks_of_row = [inv.get(_key(rowsW[i]), []) for i in range(nW)]
            # sub-list
            if ncand >= 2:
                size = int(rng.integers(1, ncand))
                sub = np.sort(rng.choice(ncand, size=size, replace=False))
                if rng.random() < 0.5:
                    # set-like argument: duplicates and arbitrary order are positions like any other
                    sub = rng.choice(ncand, size=size + 1, replace=True)
                    case.note('axis2_setlike_xycoords_duplicates_unsorted')
                RS, wS = run_(F.make(xycoords=cand[sub].copy()), data, mask)
                rowsRS = _table_rows(RS, F.cols)
                case.check(wS == (RS is None), 'star_warning_iff_none', dict(mech, table='xycoords_sub'))
                case.check({_key(r) for r in rowsRS} <= setRC, 'star_xycoords_sublist_rows_subset', mech)
                if len(sample) == ncand:
                    exp = [row_of[int(j)] for j in sub if int(j) in row_of]
                    case.close(_sort_rows(rowsRS), _sort_rows(np.array(exp).reshape(-1, len(F.cols))),
                               'star_xycoords_sublist_gives_exactly_those_rows', mech=mech, sub=sub.tolist())
            # isolated peaks must be in the table found without xycoords
            if len(must) and not has_nan:
                RM, _ = run_(F.make(xycoords=must.copy()), data, mask)
                rowsRM = _table_rows(RM, F.cols)
                setW = set() if rowsW is None else {_key(r) for r in rowsW}
                missing = [r.tolist() for r in rowsRM if _key(r) not in setW]
                case.check(not missing, 'star_isolated_peak_missing_from_table', mech, n=len(missing),
                           first=missing[0][:4] if missing else None)
                if {tuple(p) for p in must.tolist()} == {tuple(p) for p in cand.tolist()}:
                    case.note('star_peak_set_unambiguous')
                    case.close(_sort_rows(rowsW if rowsW is not None else np.zeros((0, len(F.cols)))),
                               _sort_rows(rowsRC), 'star_xycoords_equal_to_found_peaks_gives_identical_table',
                               mech=mrow)
        else:
            case.note('star_too_many_candidates_for_xycoords_leg')

    # (C) minimum separation between the peaks of reported sources
    if nW >= 2 and msep > 0:
        cvals = conv[cand[:, 1], cand[:, 0]] if len(cand) else np.zeros(0)
        sets = [list(peaks_of_row[i]) if peaks_of_row is not None and peaks_of_row[i] else list(near[i])
                for i in range(nW)]
        refined = set()

        def refine(i):
            """DAO/IRAF: the candidate peak(s) whose single-position xycoords row IS row i (exact)."""
            if i in refined or kind == 'sf':
                return
            refined.add(i)
            hit = []
            for a_ in sets[i]:
                Rj, _ = run_(F.make(xycoords=cand[a_:a_ + 1].copy()), data, mask)
                if Rj is not None and _key(_table_rows(Rj, F.cols)[0]) == _key(rowsW[i]):
                    hit.append(a_)
            if hit:
                sets[i] = hit

        def pair_ok(i, j):
            # conservative: violated only if EVERY assignment of candidate peaks violates it
            dmin, viol = np.inf, []
            for a_ in sets[i]:
                for b_ in sets[j]:
                    if a_ == b_:
                        return True, dmin, []
                    d = math.hypot(cand[a_, 0] - cand[b_, 0], cand[a_, 1] - cand[b_, 1])
                    if d >= msep - 1e-9 or abs(cvals[a_] - cvals[b_]) <= eps:
                        return True, dmin, []
                    dmin = min(dmin, d)
                    viol.append((a_, b_))
            return False, dmin, viol

        bad, worst, badpairs = None, np.inf, []
        for i in range(nW):
            for j in range(i + 1, nW):
                if not sets[i] or not sets[j]:
                    continue
                ok, dmin, viol = pair_ok(i, j)
                if not ok:
                    refine(i)
                    refine(j)
                    ok, dmin, viol = pair_ok(i, j)
                if not ok and dmin < worst:
                    worst, bad, badpairs = dmin, (i, j), viol
        msepm = mech
        if bad is not None and not float(msep).is_integer():
            # classification only: is (one assignment of) the pair explained by a neighbourhood laid out
            # on the grid arange(-r, r + 1) (even number of points, offsets shifted by a fraction of a pixel)?
            npts = len(np.arange(-msep, msep + 1))
            off0 = -msep + npts // 2
            expl = False
            for a_, b_ in badpairs:
                hi_, lo_ = (a_, b_) if cvals[a_] >= cvals[b_] else (b_, a_)
                oy, ox = cand[hi_, 1] - cand[lo_, 1], cand[hi_, 0] - cand[lo_, 0]
                inside = ((oy + off0) ** 2 + (ox + off0) ** 2 <= msep ** 2
                          and -(npts // 2) <= oy < npts - npts // 2 and -(npts // 2) <= ox < npts - npts // 2)
                expl |= not inside
            msepm = dict(mech, explained_by_fractional_offset_grid=bool(expl))
        case.check(bad is None, 'star_min_separation_between_reported_sources', msepm, min_separation=msep,
                   distance=None if bad is None else worst,
                   pair=None if bad is None else [rowsW[bad[0]][:2], rowsW[bad[1]][:2]])

    # (D) bounds: exactly the rows of the wide-open table that satisfy the inclusive bounds
    ci = {c: i for i, c in enumerate(F.cols)}
    rows0 = rowsW if rowsW is not None else np.zeros((0, len(F.cols)))
    for rep in range(2):
        b = {}
        if kind in ('dao', 'iraf'):
            sh = rows0[:, ci['sharpness']]
            rd = np.concatenate([rows0[:, ci[c]] for c in (('roundness1', 'roundness2') if kind == 'dao'
                                                           else ('roundness',))])
            b['sharplo'], b['sharphi'] = _pick_bound(rng, sh, 'lo'), _pick_bound(rng, sh, 'hi')
            b['roundlo'], b['roundhi'] = _pick_bound(rng, rd, 'lo'), _pick_bound(rng, rd, 'hi')
        pk = rows0[:, ci[F.peakcol]]
        if rng.random() < 0.6:
            pm = _pick_bound(rng, pk, 'hi')
            b['peakmax'] = None if not np.isfinite(pm) else pm
        keep = _apply_bounds(kind, rows0, F.cols, b)
        exp = rows0[keep]
        B, wB = run_(F.make(**b), data, mask)
        mb = dict(mech, bounds=True)
        rowsB = _check_table_basics(case, F, B, wB, mb, 'bounded')
        rowsB = np.zeros((0, len(F.cols))) if rowsB is None else rowsB
        case.check((B is None) == (len(exp) == 0), 'star_none_iff_filtered_table_empty', mb,
                   none=B is None, expected_rows=len(exp))
        case.close(_sort_rows(rowsB), _sort_rows(exp), 'star_bounded_table_is_filtered_wide_table', mech=mb,
                   bounds={k: v for k, v in b.items()}, n_wide=len(rows0))
        if B is not None and len(exp) == len(rowsB):
            # order of the rows is the order of the wide-open table (ids are renumbered consecutively)
            case.close(rowsB, exp, 'star_bounded_table_keeps_order', mech=mb)
        if rep == 0 and twin_dtypes and twin_dtypes[0] != 'float32':
            Bd, _ = run_(F.make(**b), data, mask, dtype=twin_dtypes[0])
            case.close(_table_rows(Bd, F.cols), rowsB, 'star_same_table_for_narrow_dtype',
                       mech=dict(mb, dtype=twin_dtypes[0], table='bounded'))
        if rep == 0:
            Bk, wBk = run_(F.make(factor=kf, **b), data, mask, factor=kf)
            _check_rescaled(case, F, rowsB if B is not None else None, Bk, wBk, kf, mb, 'bounded',
                            lambda icol, b=dict(b): probe(icol, **b))
        # brightest
        if len(exp) >= 1 and rng.random() < 0.8:
            nb = int(rng.integers(1, len(exp) + 2))
            form = nb if rng.random() < 0.7 else float(nb)
            BN, wN = run_(F.make(brightest=form, **b), data, mask)
            mn = dict(mech, bounds=True, brightest=True)
            rowsN = _check_table_basics(case, F, BN, wN, mn, 'brightest')
            if case.check(rowsN is not None, 'star_brightest_not_none', mn):
                k = min(nb, len(exp))
                case.check(len(rowsN) == k, 'star_brightest_count', mn, got=len(rowsN), want=k)
                setE = {_key(r) for r in exp}
                inE = all(_key(r) in setE for r in rowsN)
                case.check(inE, 'star_brightest_rows_subset_of_unrestricted', mn)
                if inE and len(rowsN) == k:
                    fl_all = np.sort(exp[:, ci['flux']])[::-1]
                    fl_sel = np.sort(rowsN[:, ci['flux']])[::-1]
                    case.close(fl_sel, fl_all[:k], 'star_brightest_keeps_largest_fluxes', mech=mn)
        # xycoords + bounds: the same filters apply
        if kind in ('dao', 'iraf') and 0 < len(cand) <= 60 and rep == 0:
            RCb, wb = run_(F.make(xycoords=cand.copy(), **b), data, mask)
            RC0, _ = run_(F.make(xycoords=cand.copy()), data, mask)
            r0 = _table_rows(RC0, F.cols)
            expb = r0[_apply_bounds(kind, r0, F.cols, b)] if len(r0) else r0
            mx = dict(mech, bounds=True, xycoords=True)
            case.check((RCb is None) == (len(expb) == 0), 'star_none_iff_filtered_table_empty', mx)
            case.check(wb == (RCb is None), 'star_warning_iff_none', dict(mx, table='xycoords_bounded'))
            case.close(_table_rows(RCb, F.cols), expb, 'star_xycoords_same_filters_apply', mech=mx)


def run_case(case):
    if case.cls.startswith('fp_'):
        _run_find_peaks(case)
    else:
        _run_star(case)
