"""C03 Results are covariant under integer translation and axis transposition.

M2 relation monitor over the table of public entry-point adapters in pv.ref.c03_entrypoints: the real
code is run on a scene and on the same scene embedded at an integer offset in a zero canvas (or
transposed), with every geometric argument transformed consistently; outputs are compared under the
relation stated by the property, row by row, for rows whose measurement footprint lies inside the
original frame.
"""
from __future__ import annotations

import numpy as np

from pv import core
from pv.gen import c03_scenes as gen
from pv.ref import c03_entrypoints as epm

ID = 'C03'

GROUPS = {
    'aperture': ['aperture_photometry', 'ApertureStats'],
    'peaks': ['find_peaks'],
    'starfinders': ['DAOStarFinder', 'IRAFStarFinder', 'StarFinder'],
    # no zero margin: sources right up to the border of the ORIGINAL frame, exclude_border / border_width /
    # min_separation / box_size drawn independently; rows judged when their documented footprint is inside the frame
    'starfinders_border': ['DAOStarFinder', 'IRAFStarFinder', 'StarFinder'],
    'peaks_border': ['find_peaks'],
    'segm': ['detect_sources', 'deblend_sources'],
    'catalog': ['SourceCatalog'],
    'catalog_hostile': ['SourceCatalog'],
    'catalog_border': ['SourceCatalog'],       # no margin, sources up to the frame edge, localbkg_width = 0      # scenes with tiny / corner-peaked / ragged / peak-masked / fully masked segments
    'profiles': ['profiles'],
    'model': ['make_model_image'],
    'psf': ['PSFPhotometry'],
    'centroids': ['centroids', 'data_properties'],     # data_properties has no translation relation and is skipped there
}
CLASSES = ['translate:aperture', 'translate:catalog', 'transpose:catalog', 'translate:peaks',
           'translate:starfinders', 'transpose:aperture', 'translate:segm', 'translate:profiles',
           'transpose:centroids', 'translate:model', 'transpose:profiles', 'translate:psf',
           'translate:catalog_hostile', 'transpose:catalog_hostile', 'translate:centroids',
           'translate:starfinders_border', 'translate:peaks_border', 'translate:catalog_border']
CLASSES = list(dict.fromkeys(CLASSES))     # unique, order kept

RULE = ('one case = one random scene (3-8 elliptical Gaussians with random orientation and unequal fluxes + '
        'Gaussian noise in a non-square core, EXACTLY zero margin of 26 px, structured error map, non-constant '
        'background map with different x/y gradients, optional mask, segmentation map) x one relation x one group '
        'of entry points; translate: scene + mask + error + background + segmentation + convolved data embedded at '
        'integer (dx, dy), dx != dy, pads 0..40 drawn independently per side; transpose: all arrays transposed, '
        'positions swapped, aperture/kernel angles -> 90deg - theta, (ny, nx) pairs swapped. Rows whose footprint '
        'leaves the original frame are excluded and counted. non-trivial = at least one position-like output '
        '(coordinate, index, box, orientation, frame array) was compared on at least one kept row; distinct by '
        'digest of (data, mask, segm, relation, pads, group). The catalog_hostile classes (and 30 % of the catalog / aperture '
        'scenes) add 1-5 pixel segments, blocks whose maximum sits at the segment corner, ragged sparse segments, masks '
        'right next to a peak and fully masked segments; evidence notes `fallback:*` count the rows that took each '
        'documented fallback branch')
MUST_REACH = sorted({m for e in epm.TABLE if e.relations & {'translate', 'transpose'} for m in e.must_reach}
                    | {'photutils.utils._moments:_moments_central',
                       'photutils.aperture.bounding_box:BoundingBox.get_overlap_slices',
                       'photutils.centroids.gaussian:centroid_1dg'})
ANCHOR_FILES = ['aperture/bounding_box.py', 'aperture/core.py', 'aperture/stats.py', 'aperture/photometry.py',
                'segmentation/catalog.py', 'segmentation/detect.py', 'segmentation/deblend.py',
                'detection/peakfinder.py', 'detection/daofinder.py', 'detection/irafstarfinder.py',
                'detection/starfinder.py', 'centroids/core.py', 'centroids/gaussian.py', 'profiles/core.py',
                'profiles/radial_profile.py', 'profiles/curve_of_growth.py', 'datasets/images.py',
                'utils/_moments.py', 'psf/photometry.py', 'morphology/core.py']
MIN_NONTRIVIAL = {'quick': 120, 'thorough': 3000}
ASSUMPTIONS = [
    'numpy / scipy.ndimage (label, gaussian_filter for scene construction) are trusted',
    'relation monitor: no oracle; a defect that is itself covariant (same wrong value in both frames) is invisible here',
    'rows whose footprint (computed from the row\'s own reported geometry, +2 px slack) leaves the original frame '
    'are excluded, as the property states',
    'moment-derived ratios (centroid, covariance, shape) of ApertureStats are compared only where the zeroth moment is '
    'well conditioned (sum|v|/|sum v| <= 1e3); orientations only where the second-moment matrix is anisotropic (>1e-6 '
    'of its trace); masked cutouts may differ in mask where the weighted value is zero within tolerance (tie band of '
    '`weight == 0` on rounded exact weights); all three are counted in the evidence notes',
    'an exception raised identically in both frames is still reported (what=raised): the library failed on an input '
    'the generator deems valid',
    'float positions are compared with atol 1e-9 px, integer indices/boxes/labels exactly, everything else with '
    'rtol 1e-9 + atol 1e-10*max|data|; iterative fits: Gaussian-fit centroids 5e-3 px (measured max 1.5e-5), PSF fits 5e-2 px / 1e-2 in flux / '
    '3e-2*max|data| in the rendered images (measured max 1.6e-3 px: forward-difference Jacobian relative to the absolute '
    'position), radial-profile Gaussian fit 1e-8 (measured 4e-14)',
]

FREE_RTOL = 1e-9
POS_ATOL = 1e-9
ANG_ATOL_DEG = 1e-7


def plan(tier):
    if tier == 'thorough':
        return dict(shards=16, cases=1500, timeout=2400, budget_s=540)
    return dict(shards=8, cases=70, timeout=600, budget_s=60)


# ----------------------------------------------------------------------
def selftest():
    """The transformation machinery against hand facts (nothing here touches photutils results)."""
    rng = np.random.default_rng(1)
    a = np.arange(12.0).reshape(3, 4)
    e = gen.embed(a, (2, 1, 5, 0))
    assert e.shape == (8, 7) and e[5, 2] == 0.0 and e[5 + 2, 2 + 3] == a[2, 3] and e.sum() == a.sum()
    sc = {'a': gen.Frame(a), 'p': gen.XY([[1.0, 2.0]]), 't': gen.Theta(0.3), 'b': gen.Pair((3, 5)),
          'f': gen.Box(0, 0, 4, 3), 'k': gen.Img(np.arange(6).reshape(2, 3))}
    t = gen.unwrap(gen.translated(sc, (2, 1, 5, 0)))
    assert t['p'].tolist() == [[3.0, 7.0]] and t['f'] == (2, 5, 4, 3) and t['t'] == 0.3 and t['b'] == (3, 5)
    q = gen.unwrap(gen.transposed(sc))
    assert q['a'].shape == (4, 3) and q['a'][3, 2] == a[2, 3] and q['p'].tolist() == [[2.0, 1.0]]
    assert abs(q['t'] - (np.pi / 2 - 0.3)) < 1e-15 and q['b'] == (5, 3) and q['f'] == (0, 0, 3, 4)
    assert q['k'].shape == (3, 2)
    # an elliptical Gaussian transposed equals the Gaussian with swapped centre and theta -> pi/2 - theta
    yy, xx = np.mgrid[0:30, 0:40].astype(float)
    g = gen.gauss2d(yy, xx, 17.3, 11.2, 2.0, 3.0, 1.2, 0.4)
    yy2, xx2 = np.mgrid[0:40, 0:30].astype(float)
    g2 = gen.gauss2d(yy2, xx2, 11.2, 17.3, 2.0, 3.0, 1.2, np.pi / 2 - 0.4)
    assert np.allclose(g.T, g2, rtol=1e-12, atol=1e-15)
    # expected(): hand cases
    v = np.array([[1.0, 2.0], [3.0, 4.0]])
    assert epm.expected('xy', v, 'translate', 5, 7).tolist() == [[6.0, 9.0], [8.0, 11.0]]
    assert epm.expected('iyx', np.array([[1, 2]]), 'translate', 5, 7).tolist() == [[8, 7]]
    assert epm.expected('bbox', np.array([[1.0, 4.0, 2.0, 9.0]]), 'translate', 5, 7).tolist() == [[6, 9, 9, 16]]
    assert epm.expected('bbox', np.array([[1.0, 4.0, 2.0, 9.0]]), 'transpose').tolist() == [[2, 9, 1, 4]]
    assert epm.expected('mat2', np.array([[1.0, 2.0], [2.0, 5.0]]), 'transpose').tolist() == [[5, 2], [2, 1]]
    assert epm.expected('theta_deg', np.array([100.0]), 'transpose').tolist() == [-10.0]
    assert float(epm._circ(-10.0, 170.0, 180.0)) < 1e-12 and float(epm._circ(89.9, -89.9, 180.0)) - 0.2 < 1e-9
    # moments of a transposed array are the transposed moment matrix (definition, numpy only)
    d = rng.random((5, 7))
    def mom(z):
        y, x = np.mgrid[0:z.shape[0], 0:z.shape[1]]
        return np.array([[np.sum(z * y ** i * x ** j) for j in range(3)] for i in range(3)])
    assert np.allclose(mom(d.T), mom(d).T)
    # footprint rule
    keep = epm.rows_inside([[0.0, 9.0, 0.0, 5.0], [-0.6, 3, 0, 3], [2, 9.6, 0, 3]], (0, 0, 10, 6))
    assert keep.tolist() == [True, False, False]
    # scene: exactly-zero margin, non-square, labels inside the core
    s = gen.make_scene(rng)
    dd = s['data'].v
    m = s['margin']
    assert dd.shape[0] != dd.shape[1]
    assert not dd[:m].any() and not dd[-m:].any() and not dd[:, :m].any() and not dd[:, -m:].any()
    assert not s['segm'].v[:m].any() and not s['segm'].v[:, :m].any()
    pads = gen.draw_pads(rng)
    assert pads[0] != pads[2]


# ----------------------------------------------------------------------
def _call(case, ep, s, o, rel, leg):
    """Run one adapter; a library exception is a recorded violation keyed by entry point."""
    try:
        return epm.run_quiet(ep, s, o)
    except core.Skip:
        raise
    except Exception as exc:  # noqa: BLE001
        loc = core.exc_location(exc)
        if loc is None or isinstance(exc, AssertionError):
            raise
        import traceback
        case.check(False, 'raised', {'entry': ep.name, 'relation': rel, 'leg': leg,
                                     'exc': type(exc).__name__, 'at': loc},
                   msg=str(exc)[:300], tb=traceback.format_exc()[-1200:])
        return None


def _pixel_ok(shape, rows, keep):
    ok = np.ones(shape, bool)
    if rows is None:
        return ok
    for r, k in zip(np.asarray(rows, float).reshape(-1, 4), keep):
        if k:
            continue
        if not np.isfinite(r).all():
            continue
        x0, x1 = int(np.floor(r[0])) - 1, int(np.ceil(r[1])) + 2
        y0, y1 = int(np.floor(r[2])) - 1, int(np.ceil(r[3])) + 2
        ok[max(0, y0):max(0, y1), max(0, x0):max(0, x1)] = False
    return ok


MATCH_ROWS = {'find_peaks': ('x_peak', 'y_peak'), 'DAOStarFinder': ('xcentroid', 'ycentroid'),
              'IRAFStarFinder': ('xcentroid', 'ycentroid'), 'StarFinder': ('xcentroid', 'ycentroid')}


def match_rows(case, ep, out1, rows1, out2, rows2, box1, box2, dx, dy, mech0):
    """Detection tables near the frame border: a source whose documented footprint leaves the original frame may
    legitimately be present in one frame only (exclude_border / border_width act on the array that is passed). Rows
    whose footprint is inside the original frame are selected in EACH leg and matched by position (<= 0.51 px after
    the shift); they must correspond one to one. Returns the two tables reduced to the matched rows in base order;
    `id` and the row count are dropped when any row was left out (ids are consecutive numbers of the full table)."""
    xn, yn = MATCH_ROWS[ep.name]
    k1 = epm.rows_inside(rows1, box1)
    k2 = epm.rows_inside(rows2, box2)
    case.note(f'border_rows_unjudged:{ep.name}', int((~k1).sum() + (~k2).sum()))
    if len(rows1) == 0 and len(rows2) == 0:
        return out1, rows1, out2, rows2
    def xy(out, k):
        if len(k) == 0:
            return np.zeros((0, 2))
        return np.column_stack([np.asarray(epm.split_unit(out[xn])[0], float),
                                np.asarray(epm.split_unit(out[yn])[0], float)])[k]
    p1, p2 = xy(out1, k1) + np.array([dx, dy], float), xy(out2, k2)
    ok = len(p1) == len(p2)
    order = np.zeros(len(p1), int)
    if ok and len(p1):
        d = np.hypot(p1[:, None, 0] - p2[None, :, 0], p1[:, None, 1] - p2[None, :, 1])
        order = d.argmin(axis=1)
        ok = bool(np.all(d[np.arange(len(p1)), order] <= 0.51)) and len(set(order.tolist())) == len(p1)
    if not case.check(ok, 'row_count', dict(mech0, output='*'), base_inside=len(p1), related_inside=len(p2),
                      base_xy=p1, related_xy=p2, why='rows with a footprint inside the original frame do not correspond'):
        return None
    partial = (not k1.all()) or (not k2.all())
    def reduce(out, k, idx=None):
        new = {}
        for name, v in out.items():
            kk = ep.spec[name]
            if not kk.per_row or kk.kind == 'skip':
                if not partial:
                    new[name] = v
                continue
            if partial and name == 'id':
                continue
            val, unit = epm.split_unit(v)
            val = np.asarray(val)[k]
            if idx is not None:
                val = val[idx]
            new[name] = val if unit is None else val * __import__('astropy.units', fromlist=['Unit']).Unit(unit)
        return new
    o1, o2 = reduce(out1, k1), reduce(out2, k2, order)
    r1 = np.asarray(rows1, float).reshape(-1, 4)[k1]
    r2 = np.asarray(rows2, float).reshape(-1, 4)[k2][order] if len(p1) else np.zeros((0, 4))
    if not o1.keys() == o2.keys():
        # one leg returned None (no detection at all) while the other has only unjudged rows
        common = set(o1) & set(o2)
        o1 = {k: v for k, v in o1.items() if k in common}
        o2 = {k: v for k, v in o2.items() if k in common}
    return o1, r1, o2, r2


def compare_ep(case, ep, rel, res1, res2, box1, box2, pads, atol_free, amp=1.0, opts=None):
    out1, rows1 = res1[0], res1[1]
    out2, rows2 = res2[0], res2[1]
    cond1 = res1[2] if len(res1) > 2 else None
    cond2 = res2[2] if len(res2) > 2 else None
    mech0 = {'entry': ep.name, 'relation': rel}
    dx, dy = (pads[0], pads[2]) if rel == 'translate' else (0, 0)
    npos = 0
    if opts is not None and opts.get('moved') is not None:
        mech0['moved'] = opts['moved']
        case.note(f"moved_object:{ep.name}:{opts['moved']}")
    if ep.name in MATCH_ROWS and rows1 is not None and rel == 'translate':
        m = match_rows(case, ep, out1, rows1, out2, rows2, box1, box2, dx, dy, mech0)
        if m is None:
            return 0
        out1, rows1, out2, rows2 = m
    k1, k2 = set(out1) - {'_asserts'}, set(out2) - {'_asserts'}
    if not case.check(k1 == k2, 'outputs_present', dict(mech0, output='*'),
                      only_base=sorted(k1 - k2), only_related=sorted(k2 - k1)):
        return 0
    keep = None
    if rows1 is not None:
        n1, n2 = len(rows1), len(rows2)
        if not case.check(n1 == n2, 'row_count', dict(mech0, output='*'), base=n1, related=n2):
            return 0
        keep = epm.rows_inside(rows1, box1) & epm.rows_inside(rows2, box2)
        case.note(f'rows_kept:{ep.name}', int(keep.sum()))
        case.note(f'rows_excluded:{ep.name}', int((~keep).sum()))
        keep_md = keep
        if cond1 is not None:
            with np.errstate(invalid='ignore'):
                keep_md = keep & (cond1 <= epm.COND_MAX) & (cond2 <= epm.COND_MAX)
            case.note(f'rows_ill_conditioned:{ep.name}', int((keep & ~keep_md).sum()))
    for name in sorted(out1):
        k = ep.spec[name]
        if name == '_notes':
            for nk, nv in out1[name].items():
                case.note(f'fallback:{ep.name}:{nk}', nv)
            continue
        if name == '_asserts':
            # within-leg history assertions handed over by the adapter (obs, exp on the same scene)
            for an, akind, aobs, aexp in out1[name]:
                am = dict(mech0, output=an)
                if ep.mech_fn is not None:
                    am.update(ep.mech_fn(opts, an, out1))
                epm.compare(case, 'covariant', am, akind, epm.canon(akind, aobs)[0], epm.canon(akind, aexp)[0],
                            FREE_RTOL, atol_free, ANG_ATOL_DEG)
            continue
        if k.kind == 'skip':
            continue
        src = name
        if rel == 'transpose' and k.partner:
            src = k.partner
            if src not in out1:
                continue
        mech = dict(mech0, output=name)
        if ep.mech_fn is not None:
            mech.update(ep.mech_fn(opts, name, out1))
        r1, r2 = out1[src], out2[name]
        if isinstance(r1, epm.Raised) or isinstance(r2, epm.Raised):
            r = r1 if isinstance(r1, epm.Raised) else r2
            if isinstance(r1, epm.Raised) and isinstance(r2, epm.Raised) and r1.exc == r2.exc \
                    and (case.params.get('axes') or {}).get('degenerate') is not None:
                # degenerate input (everything masked / nothing detected), same exception in both frames and no
                # documented behaviour: counted, not judged
                case.note(f'degenerate_raised_both:{ep.name}:{r.at}')
                continue
            case.check(False, 'raised', dict(mech, exc=r.exc, at=r.at), msg=r.msg,
                       base_raised=isinstance(r1, epm.Raised), related_raised=isinstance(r2, epm.Raised))
            continue
        cb, ub = epm.canon(k.kind, out1[src])
        co, uo = epm.canon(k.kind, out2[name])
        case.check(ub == uo, 'unit', mech, base=ub, related=uo)
        rtol = FREE_RTOL if k.rtol is None else k.rtol
        atol = (atol_free if k.scale == 'data' else 1e-10 * amp * amp if k.scale == 'data2' else 1e-10) \
            if k.atol is None else k.atol
        if k.aamp is not None:
            atol = k.aamp * amp
        if k.kind in epm.POS_KINDS and k.atol is None:
            atol = POS_ATOL
        if k.kind == 'frame' and (out1.get('window_tie') or out2.get('window_tie')):
            case.note(f'frame_skipped_window_tie:{ep.name}')
            continue
        if k.kind == 'frame':
            exp = gen.embed(np.asarray(cb), pads, 0) if rel == 'translate' else np.asarray(cb).T
            co = np.asarray(co)
            if not case.check(co.shape == exp.shape, 'covariant', mech, why='frame shape',
                              obs=list(co.shape), exp=list(exp.shape)):
                continue
            ok_pix = _pixel_ok(co.shape, rows2, keep) if keep is not None else np.ones(co.shape, bool)
            if co.dtype.kind in 'iub' and exp.dtype.kind in 'iub':
                rtol = atol = 0.0
            epm.compare(case, 'covariant', mech, 'free', co[ok_pix], exp[ok_pix], rtol, atol, ANG_ATOL_DEG)
            npos += 1
            continue
        if not k.per_row and keep is not None and not keep.all():
            case.note(f'outputs_skipped_row_outside:{ep.name}')
            continue
        kk = None
        if k.per_row and keep is not None:
            kk = keep_md if k.md else keep
            if name.endswith('_err') and '_err_undefined' in out1 and '_err_undefined' in out2:
                und = np.asarray(out1['_err_undefined'], bool) | np.asarray(out2['_err_undefined'], bool)
                if und.shape == kk.shape:
                    case.note(f'err_columns_not_judged:{ep.name}', int((kk & und).sum()))
                    kk = kk & ~und
        if k.kind in ('theta_deg', 'theta_rad') and all(n in out1 for n in ('covar_sigx2', 'covar_sigy2',
                                                                             'covar_sigxy')):
            # the orientation of an isotropic second-moment matrix is undefined (atan2(0, 0)): compared only
            # where the anisotropy hypot(sxx - syy, 2 sxy) exceeds 1e-6 of the trace
            sxx, syy, sxy = (np.asarray(epm.split_unit(out1[n])[0], float).ravel()
                             for n in ('covar_sigx2', 'covar_sigy2', 'covar_sigxy'))
            with np.errstate(invalid='ignore'):
                defined = np.hypot(sxx - syy, 2.0 * sxy) > 1e-6 * np.abs(sxx + syy)
            if kk is None:
                kk = np.ones(defined.shape, bool)
            if defined.shape == kk.shape:
                case.note(f'rows_isotropic:{ep.name}', int((kk & ~defined).sum()))
                kk = kk & defined
        if kk is not None:
            try:
                cb, co = epm.take_rows(k.kind, np.atleast_1d(cb) if isinstance(cb, np.ndarray) else cb, kk), \
                    epm.take_rows(k.kind, np.atleast_1d(co) if isinstance(co, np.ndarray) else co, kk)
            except (IndexError, TypeError) as exc:
                case.check(False, 'covariant', mech, why=f'row selection failed: {exc}')
                continue
            if not kk.any():
                continue
        exp = epm.expected(k.kind, cb, rel, dx, dy)
        if name in ('gaussian_params', 'gaussian_fwhm', 'gaussian_profile') and '_gfit' in out1 and '_gfit' in out2:
            # iterative-fit end point: on a mismatch beyond 1e-8 ask whether both end points are minima of the same
            # optimum to the fitter's own termination tolerance (epm.gfit_endpoints_equivalent); counted
            ok_direct = core.same(co, exp, rtol, atol)[0]
            if not ok_direct:
                if '_gfit_arb' not in out1:
                    out1['_gfit_arb'] = epm.gfit_endpoints_equivalent(out1['_gfit'], out2['_gfit'])
                if out1['_gfit_arb'][0]:
                    case.note('gaussian_fit_endpoints_differ_within_fitter_tolerance:' + name)
                    continue
                if out1['_gfit_arb'][0] is None:
                    case.note('gaussian_fit_undecided_fitter_stopped_short_of_minimum:' + name)
                    continue
                mech['arbitration'] = 'failed'
        if isinstance(co, np.ndarray) and isinstance(exp, np.ndarray) and co.shape == exp.shape \
                and co.dtype.kind == 'f' and not (np.array_equal(np.isnan(co), np.isnan(exp))
                                                  and np.array_equal(np.isposinf(co), np.isposinf(exp))
                                                  and np.array_equal(np.isneginf(co), np.isneginf(exp))):
            mech['nonfinite_pattern_differs'] = True
        epm.compare(case, 'covariant', mech, k.kind, co, exp, rtol, atol, ANG_ATOL_DEG,
                    tie_atol=None if k.tie is None else k.tie * amp)
        if k.kind in epm.POS_KINDS or k.kind in epm.INT_KINDS or k.kind in ('aper', 'theta_deg', 'theta_rad',
                                                                             'cxy', 'mat2', 'mom', 'img'):
            npos += 1
    return npos


def build_case(case):
    """Everything random about a case: scene, options of every entry point of the group, related scene."""
    rng = case.rng
    rel, group = case.cls.split(':')
    eps = [epm.BY_NAME[n] for n in GROUPS[group]]
    flav = eps[0].flavour
    nonfinite = group in ('aperture', 'catalog', 'profiles', 'peaks') and rng.random() < 0.2
    nsrc = 1 if (group == 'catalog' and rng.random() < 0.12) else None
    # segments / masks that force the documented fallback branches (failed quadratic fit -> barycentre, Kron radius
    # below the minimum, fully masked or single-pixel source): always in the *_hostile classes, 30 % elsewhere
    hostile = group == 'catalog_hostile' or (group in ('catalog', 'aperture') and rng.random() < 0.3)
    border = group.endswith('_border') and group != 'catalog_border'
    scale = gen.draw_scale(rng)                      # generic axis (i): magnitude of every value-like input
    layout2 = [None, None, None, 'fortran', 'negstride', 'sliced', 'bigendian'][int(rng.integers(0, 7))]
    degenerate = [None] * 24 + ['nothing_detected', 'all_masked']
    degenerate = degenerate[int(rng.integers(0, len(degenerate)))]
    kw = dict(margin=0, edge=1.5) if border else {}
    if group == 'catalog_border':
        kw = dict(margin=0, edge=4.0)
    scene = gen.make_scene(rng, flavour=flav, nonfinite=nonfinite, nsrc=nsrc, hostile=hostile, scale=scale, **kw)
    scene['axes'] = dict(scale=scale, layout2=layout2, degenerate=degenerate, border=border)
    if degenerate == 'all_masked' and group in ('aperture', 'catalog', 'catalog_hostile', 'profiles'):
        scene['mask'] = gen.Frame(np.ones(scene['mask'].v.shape, bool), False)
    for ep in eps:
        scene['opts'][ep.name] = ep.prepare(rng, scene)
        if ep.name in ('aperture_photometry', 'ApertureStats') and rel == 'translate':
            # 'same object moved': the aperture objects that measured the original scene are moved (+=, -=, plain
            # re-assignment) and measure the embedded scene; the covariance demanded is the same as for fresh objects
            md_ = scene['opts'][ep.name].get('moved_draw')
            if md_ is not None:
                scene['opts'][ep.name]['moved'] = md_
                scene['opts'][ep.name]['holder'] = epm.Holder()
        o_ = scene['opts'][ep.name]
        if group == 'catalog_border':
            o_.update(border_mode=True, localbkg_width=0, detcat=False,
                      apermask_method='correct' if rng.random() < 0.7 else o_['apermask_method'])
        if border:
            # a "keep the N brightest" selection is not local: with rows legitimately missing near the border of one
            # frame the selected sets differ
            for kk in ('brightest', 'npeaks'):
                if kk in o_:
                    o_[kk] = None
        if degenerate == 'nothing_detected' and 'threshold' in o_:
            o_['threshold'] = o_['threshold'] * 1e6
            if o_.get('thr_map') is not None:
                o_['thr_map'] = gen.Frame(o_['thr_map'].v * 1e6)
        if degenerate == 'all_masked' and 'use_mask' in o_:
            o_['use_mask'] = True
        if ep.name == 'PSFPhotometry':
            # IterativePSFPhotometry (used by C15) re-detects sources in the residual image: those faint second-pass
            # fits have position errors of 1-3 px and amplify the fit noise beyond any useful tolerance
            scene['opts'][ep.name]['iterative'] = False
    if rel == 'translate':
        pads = gen.draw_pads(rng, shape=scene['data'].v.shape)
        scene2 = gen.translated(scene, pads)
    else:
        pads = (0, 0, 0, 0)
        scene2 = gen.transposed(scene)
    return rel, group, eps, scene, scene2, pads


def run_case(case):
    rel, group, eps, scene, scene2, pads = build_case(case)
    d = scene['data'].v
    case.params = dict(relation=rel, group=group, shape=list(d.shape), nsrc=len(scene['src'].v),
                       nlabels=scene['nlabels'], pads=list(pads), dx=pads[0], dy=pads[2],
                       nonfinite=scene['nonfinite'], hostile=scene['hostile'], axes=scene['axes'])
    case.digest = core.digest([core.arr_digest(*gen.scene_digest_arrays(scene), np.array(pads)), case.cls])
    atol_free = 1e-10 * scene['amp']
    npos = 0
    for ep in eps:
        if rel not in ep.relations:
            continue
        s1, s2 = gen.unwrap(scene), gen.unwrap(scene2)
        ax = scene['axes']
        if ax['layout2'] is not None:
            # generic axis (iii): the related leg additionally gets its arrays in another memory layout
            for kk in ('data', 'error', 'bkg', 'conv', 'data2', 'mask', 'segm'):
                if isinstance(s2.get(kk), np.ndarray) and not (ax['layout2'] == 'bigendian' and s2[kk].dtype.kind == 'b'):
                    s2[kk] = gen.represent(s2[kk], ax['layout2'])
        r1 = _call(case, ep, s1, s1['opts'][ep.name], rel, 'base')
        r2 = _call(case, ep, s2, s2['opts'][ep.name], rel, 'related')
        if r1 is None or r2 is None:
            continue
        case.note(f'runs:{ep.name}:{rel}')
        npos += compare_ep(case, ep, rel, r1, r2, s1['frame'], s2['frame'], pads, atol_free, amp=scene['amp'],
                           opts=s1['opts'][ep.name])
    ax = scene['axes']
    case.note('axis_magnitude:' + ('1' if ax['scale'] == 1.0 else 'pow2' if np.log2(ax['scale']) % 1 == 0 else 'pow10'))
    case.note(f"axis_layout_related_leg:{ax['layout2']}")
    case.note(f"axis_degenerate:{ax['degenerate']}")
    if rel == 'translate':
        case.note(f"axis2_offset_parity:dx_{'odd' if pads[0] % 2 else 'even'}_dy_{'odd' if pads[2] % 2 else 'even'}")
    for ep in eps:
        o_ = scene['opts'].get(ep.name) or {}
        for kk in ('snapped', 'seg_history', 'sublabels', 'used_before'):
            if o_.get(kk):
                case.note(f'axis2_{kk}:{ep.name}:{o_[kk]}')
    case.nontrivial = npos > 0
