"""C16 ApertureStats values equal direct statistics of the aperture pixel set.

M1: for every position the harness builds, from the aperture's own 'center'
and sum-method masks (weights + integer box, judged by C01) and its own index
arithmetic, the full-frame pixel sets
    S  = {centre in aperture, in image, not masked, finite}         (statistics, moments)
    Ss = {sum-method weight > 0, in image, not masked, finite}      (sum, sum_err, sum_aper_area)
subtracts that position's local background, applies the given sigma clip
(own implementation of the documented iterative clip, checked against
astropy in the self-test) and evaluates every statistic directly with
numpy/astropy.  Centroid and covariance are computed in image coordinates.
M2: sum/sum_err/sum_aper_area == aperture_photometry/area_overlap (no clip),
N positions == N single-position objects (with per-position local_bkg),
sky aperture == its to_pixel image, NDData == arrays, to_table == properties.
"""
from __future__ import annotations

import math

import numpy as np

from pv import core
from pv.gen import c02_apertures as G
from pv.ref import c02_apphot as R
from pv.ref import c16_stats as S16

ID = 'C16'
RULE = ('random images 1x1..44x44 (positive blobs on a pedestal, signed noise, ramps, small-integer ties; NaN/inf '
        'sprinkled), optional mask / error map, one of the six aperture classes (pixel or sky), 1-4 positions placed '
        'inside, overhanging each edge and corner, grazing, fully outside; sum_method exact/center/subpixel, optional '
        'SigmaClip (sigma 1.5-3, maxiters 1/3/5/None, median|mean, std|mad_std), local_bkg none/scalar/per-position, '
        'units, NDData; non-trivial = some position has >= 3 unmasked finite centre-in-aperture pixels with '
        'non-constant values; distinct by digest of all inputs')
CLASSES = ['inside', 'overhang_left', 'overhang_bottom', 'overhang_right', 'overhang_top', 'corner', 'outside',
           'masked', 'naninf', 'allmasked', 'clip', 'localbkg', 'multi', 'sky', 'nddata', 'units', 'tiny', 'signed', 'cancel']
MUST_REACH = ['photutils.aperture.stats:ApertureStats._make_aperture_cutouts',
              'photutils.aperture.stats:ApertureStats._calculate_stats',
              'photutils.aperture.stats:ApertureStats.centroid',
              'photutils.aperture.stats:ApertureStats.sum',
              'photutils.aperture.stats:ApertureStats.sum_err',
              'photutils.aperture.stats:ApertureStats.sum_aper_area',
              'photutils.aperture.stats:ApertureStats._covariance',
              'photutils.aperture.stats:ApertureStats.to_table',
              'photutils.utils._moments:_moments_central']
ANCHOR_FILES = ['aperture/stats.py', 'aperture/mask.py', 'utils/_moments.py', 'morphology/non_parametric.py']
MIN_NONTRIVIAL = {'quick': 300, 'thorough': 8000}
ASSUMPTIONS = ['the weights and integer box returned by Aperture.to_mask() are taken as given (judged by C01)',
               'numpy statistics, astropy.stats biweight_location/biweight_midvariance and SigmaClip semantics are trusted; '
               'the clip is re-implemented in the harness and cases where a value lies within 1e-9 (relative) of a '
               'clipping bound are skipped as ties',
               'moment-based values are compared only where the definition is well conditioned '
               '(sum|v|/|sum v| <= 1e3); covariance only where det exceeds the 1/144 regularisation threshold; '
               'shape values are additionally checked as functions of the observed covariance',
               'aperture_photometry / area_overlap (used for the stated equality) are judged by C02']

DELTA2 = 1.0 / 144.0
COND_MAX = 1e3


def plan(tier):
    if tier == 'thorough':
        return dict(shards=16, cases=5000, timeout=1800, budget_s=600)
    return dict(shards=8, cases=330, timeout=600, budget_s=70)


def selftest():
    R.selftest()
    S16.selftest()


class LoopBound(Exception):
    """raised by the iteration guard: ApertureStats._covariance evaluated numpy.linalg.det more than
    DET_LIMIT times in one property read (its regularisation loop adds 1/12 per pass; 1-2 passes are the
    documented use)"""


DET_LIMIT = 2000
_DET = {'n': 0, 'armed': False, 'orig': None, 'trips': 0}


def setup(tier):
    """Count calls of numpy.linalg.det while a covariance-based property is being read. The library's
    `while det < 1/144: diag += 1/12` loop is the only user; the guard turns a practically endless loop
    into an observable event that does not depend on wall-clock time."""
    if _DET['orig'] is None:
        _DET['orig'] = np.linalg.det

        def det(a, *args, **kw):
            if _DET['armed']:
                _DET['n'] += 1
                if _DET['n'] > DET_LIMIT:
                    _DET['armed'] = False
                    _DET['trips'] += 1
                    raise LoopBound(f'numpy.linalg.det called more than {DET_LIMIT} times in one property read')
            return _DET['orig'](a, *args, **kw)
        np.linalg.det = det
    return {'det_guard_limit': DET_LIMIT}


def teardown():
    return {'det_guard_trips': _DET['trips']}


def _guarded(fn):
    _DET['n'] = 0
    try:
        return True, fn()
    except LoopBound:
        _DET['armed'] = True
        return False, None


# ----------------------------------------------------------------------
# generation
# ----------------------------------------------------------------------
def _locs(rng, cls, n):
    pools = {
        'inside': ['inside', 'inside', 'integer', 'half'],
        'overhang_left': ['left', 'left', 'corner_bl', 'corner_tl'],
        'overhang_bottom': ['bottom', 'bottom', 'corner_bl', 'corner_br'],
        'overhang_right': ['right', 'right', 'corner_br', 'corner_tr'],
        'overhang_top': ['top', 'top', 'corner_tl', 'corner_tr'],
        'corner': ['corner_bl', 'corner_br', 'corner_tl', 'corner_tr'],
        'outside': ['outside', 'graze', 'graze', 'far', 'inside'],
    }
    pool = pools.get(cls, ['inside', 'inside', 'inside', 'left', 'right', 'bottom', 'top', 'corner_bl', 'corner_tr',
                           'corner_br', 'corner_tl', 'graze', 'outside', 'integer', 'half'])
    out = [str(rng.choice(pool)) for _ in range(n)]
    if cls in pools and cls != 'outside':
        out[0] = pool[0] if rng.random() < 0.7 else out[0]
    return out


def _gen(case):
    from astropy.stats import SigmaClip
    rng, cls = case.rng, case.cls
    if cls != 'tiny' and rng.random() < 0.1:
        shape = G.gen_elongated_shape(rng)          # axis (iv): strongly non-square frames, any class
    elif cls == 'tiny' and rng.random() < 0.5:
        shape = [(1, 1), (1, int(rng.integers(2, 9))), (int(rng.integers(2, 9)), 1), (2, 2), (2, 3), (3, 3)][
            int(rng.integers(0, 6))]
    elif rng.random() < 0.1:
        shape = (int(rng.integers(3, 8)), int(rng.integers(3, 8)))
    else:
        shape = (int(rng.integers(6, 45)), int(rng.integers(6, 45)))
    if cls == 'signed':
        style = str(rng.choice(['noise', 'ramp']))
    else:
        style = str(rng.choice(['blob', 'blob', 'blob', 'ramp', 'noise', 'ints']))
        if rng.random() < 0.04:
            style = 'const'                      # axis (vi): constant image (zero spread, MAD = 0 branches)
    data = G.gen_image(rng, shape, style)
    if cls == 'naninf' or rng.random() < 0.1:
        data = G.sprinkle_nonfinite(rng, data, frac=float(rng.choice([0.03, 0.1, 0.3])))
    if rng.random() < 0.06 and cls not in ('naninf',):
        data = np.round(np.clip(np.nan_to_num(data, nan=0, posinf=50, neginf=0), -100, 200)).astype(
            str(rng.choice(['int16', 'int32', 'float32'])))
    error = rng.uniform(0.1, 5.0, shape) if rng.random() < 0.65 else None
    if error is not None and cls == 'naninf' and rng.random() < 0.3:
        error[rng.random(shape) < 0.05] = np.nan
    mask = None
    if cls == 'masked':
        mask = G.gen_mask(rng, shape, str(rng.choice(['random', 'block', 'rowcol', 'dense'])))
    elif cls == 'allmasked':
        mask = G.gen_mask(rng, shape, str(rng.choice(['full', 'dense', 'block'])))
    elif rng.random() < 0.3:
        mask = G.gen_mask(rng, shape, str(rng.choice(['random', 'block', 'rowcol', 'empty'])))

    kind = str(rng.choice(G.KINDS))
    size = None
    if cls == 'tiny':
        size = 'tiny' if rng.random() < 0.7 else 'small'
    elif min(shape) <= 3:
        size = str(rng.choice(['tiny', 'small']))
    elif rng.random() < 0.5:
        size = str(rng.choice(['small', 'medium']))
    params, ext = G.gen_shape(rng, kind, size)
    halfint = False
    if rng.random() < 0.15:
        params, halfint = G.snap_half(rng, kind, params), True      # axis (ix)
    npos = int(rng.integers(2, 5)) if cls == 'multi' else (int(rng.integers(1, 4)) if rng.random() < 0.4 else 1)
    locs = _locs(rng, cls, npos)
    positions = [G.gen_position(rng, loc, shape, ext) for loc in locs]
    scalar = npos == 1 and rng.random() < 0.6
    sum_method = str(rng.choice(G.METHODS))
    subpixels = int(rng.integers(1, 8))

    clip = None
    if cls == 'clip' or rng.random() < 0.25:
        cfg = dict(maxiters=[1, 3, 5, None][int(rng.integers(0, 4))],
                   cenfunc=str(rng.choice(['median', 'median', 'mean'])),
                   stdfunc=str(rng.choice(['std', 'std', 'mad_std'])))
        if rng.random() < 0.7:
            s = float(rng.choice([1.5, 2.0, 2.5, 3.0]))
            cfg.update(sigma_lower=s, sigma_upper=s)
        else:
            cfg.update(sigma_lower=float(rng.choice([1.5, 2.0, 3.0])), sigma_upper=float(rng.choice([1.0, 2.0, 3.0])))
        clip = cfg
        if data.dtype.kind == 'f' and rng.random() < 0.7:
            # outliers so that the clip has something to reject
            r = rng.random(shape) < 0.04
            data = data.copy()
            data[r] = data[r] + rng.choice([-1.0, 1.0], size=int(r.sum())) * rng.uniform(30, 300, size=int(r.sum()))

    # axis (i): overall magnitude of the data (local_bkg follows the data) and, independently, of the error map
    mag, maglab = (1.0, 'non_float64_dtype') if data.dtype != np.float64 else G.gen_magnitude(rng)
    emag, emaglab = G.gen_magnitude(rng) if error is not None else (1.0, 'plain')
    if mag != 1.0:
        data = data * mag
    if error is not None and emag != 1.0:
        error = error * emag
    # axis (vii): dtype kind of image and error map, independently (plain magnitude only)
    ddt = edt = 'float64'
    if data.dtype == np.float64 and mag == 1.0 and rng.random() < 0.3:
        data, ddt = G.to_dtype(rng, data, 'data')
    if error is not None and emag == 1.0 and rng.random() < 0.25:
        error, edt = G.to_dtype(rng, error, 'error')
    # axis (xi): caller-owned all-False / all-True masks in any class
    r = rng.random()
    maskkind = 'none' if mask is None else 'generated'
    if cls not in ('masked', 'allmasked') and r < 0.09:
        mask = np.zeros(shape, bool) if r < 0.06 else np.ones(shape, bool)
        maskkind = 'all_false' if r < 0.06 else 'all_true'
    lb = None
    lbform = 'none'
    if cls == 'localbkg' or rng.random() < 0.35:
        if rng.random() < 0.5 or npos == 1 and scalar:
            lb = float(rng.uniform(-2.0, 6.0)) * mag
            lbform = str(rng.choice(['float', 'float', 'np.float64', 'array0d', 'list1']))
            if lbform == 'np.float64':
                lb = np.float64(lb)
            elif lbform == 'array0d':
                lb = np.array(lb)
            elif lbform == 'list1':
                lb = [lb]
        else:
            lb = rng.uniform(-2.0, 6.0, npos) * mag
            lbform = 'ndarray'
            if rng.random() < 0.3:
                lb = list(map(float, lb)) if rng.random() < 0.5 else tuple(map(float, lb))
                lbform = type(lb).__name__
    if cls == 'cancel':
        # realistic degenerate use: the local background equals the mean of the aperture's own pixels, so the
        # background-subtracted values cancel (sum ~ 0 at rounding level, exactly 0, or tiny)
        clip = None
        ap0 = G.build_pixel(kind, positions[0] if scalar else positions, params)
        lb = []
        for k in range(npos):
            o = _oracle(ap0, data, None, mask, 'center', 1, np.zeros(npos), None)[k]
            mean = float(np.mean(o['v'])) if len(o['v']) else 0.0
            lb.append(mean * (1.0 + float(rng.choice([0.0, 0.0, 1e-12, -1e-9, 1e-6]))))
        lb = lb[0] if (npos == 1 and rng.random() < 0.5) else np.array(lb)
        lbform = 'cancel'
    unit = 'Jy' if (cls == 'units' or rng.random() < 0.12) else None
    return dict(shape=shape, style=style, data=data, error=error, mask=mask, kind=kind, params=params, ext=ext,
                positions=positions, locs=locs, scalar=scalar, sum_method=sum_method, subpixels=subpixels,
                clip=clip, lb=lb, unit=unit, SigmaClip=SigmaClip, mag=mag, maglab=maglab, emag=emag, emaglab=emaglab,
                lbform=lbform, ddt=ddt, edt=edt, maskkind=maskkind, halfint=halfint, layout={k: str(rng.choice(G.LAYOUTS)) for k in ('data', 'error', 'mask')})


# ----------------------------------------------------------------------
# oracle
# ----------------------------------------------------------------------
def _clip(v, clip):
    if clip is None or v.size == 0:
        return np.ones(v.size, bool), float('inf')
    return S16.sigma_clip_ref(v, clip['sigma_lower'], clip['sigma_upper'], clip['maxiters'], clip['cenfunc'],
                              clip['stdfunc'])


def _oracle(ap, data, error, mask, sum_method, subpixels, lbk, clip):
    mc = ap.to_mask(method='center')
    ms = ap.to_mask(method=sum_method, subpixels=subpixels)
    if ap.isscalar:
        mc, ms = [mc], [ms]
    ny, nx = data.shape
    out = []
    for k in range(len(mc)):
        box = R.box_of(mc[k])
        Wc, _, ov = R.weight_map(data.shape, np.array(mc[k].data, float), box)
        Ws, _, ov2 = R.weight_map(data.shape, np.array(ms[k].data, float), R.box_of(ms[k]))
        with np.errstate(all='ignore'):
            vimg = np.asarray(data).astype(float) - float(lbk[k])
        good = np.isfinite(vimg)
        if mask is not None:
            good &= ~mask
        o = dict(box=box, overlap=ov and ov2, Wc=Wc, Ws=Ws, vimg=vimg, good=good, b=float(lbk[k]),
                 overhang_x=box[0] < 0, overhang_y=box[2] < 0,
                 partial=ov and (box[0] < 0 or box[2] < 0 or box[1] > nx or box[3] > ny),
                 origin=(max(0, box[0]), max(0, box[2])),
                 cut=(slice(max(0, box[2]), min(ny, box[3])), slice(max(0, box[0]), min(nx, box[1]))))
        # centre set
        Sc = (Wc > 0) & good
        ys, xs = np.nonzero(Sc)
        v = vimg[Sc]
        keep, margin = _clip(v, clip)
        Kc = np.zeros(data.shape, bool)
        Kc[ys[keep], xs[keep]] = True
        o.update(Sc=Sc, Kc=Kc, xs=xs[keep], ys=ys[keep], v=v[keep], n_raw=int(v.size), margin=margin,
                 nclipped=int(v.size - keep.sum()))
        # sum set
        # ApertureStats documents its sum cutouts as masked "where the aperture mask has zero weight":
        # the set is {w != 0}; exact annulus masks carry rounding residues of either sign (|w| ~ 1e-15)
        Ss = (Ws != 0) & good
        ys2, xs2 = np.nonzero(Ss)
        v2 = vimg[Ss]
        keep2, margin2 = _clip(v2, clip)
        Ks = np.zeros(data.shape, bool)
        Ks[ys2[keep2], xs2[keep2]] = True
        o.update(Ss=Ss, Ks=Ks, margin_s=margin2)
        w = Ws[Ks]
        terms = w * vimg[Ks]
        if Ks.any():
            o['sum'] = R._fsum(terms)
            o['sum_scale'] = R._fsum(np.abs(terms))
            o['sum_aper_area'] = R._fsum(w)
            if error is not None:
                with np.errstate(all='ignore'):
                    o['sum_err'] = float(np.sqrt(R._fsum(w * np.asarray(error, float)[Ks] ** 2)))
            else:
                o['sum_err'] = float('nan')
        else:
            o['sum'] = o['sum_err'] = o['sum_aper_area'] = float('nan')
            o['sum_scale'] = 0.0
        o['stats'] = S16.stats_ref(o['v'])
        o['center_aper_area'] = float(len(o['v'])) if len(o['v']) else float('nan')
        o['mom'] = S16.moments_ref(o['xs'], o['ys'], o['v'])
        out.append(o)
    return out


# ----------------------------------------------------------------------
# observation helpers
# ----------------------------------------------------------------------
def _get(st, name):
    """(values with a leading position axis, unit string or None)"""
    _DET['n'] = 0
    v = getattr(st, name)
    unit = getattr(v, 'unit', None)
    arr = np.asarray(getattr(v, 'value', v), dtype=float)
    if st.isscalar:
        arr = arr[np.newaxis, ...]
    return arr, (None if unit is None else str(unit))


def _pm(base, o, **extra):
    m = dict(base)
    m.update(overlap=bool(o['overlap']), partial=bool(o['partial']), center_set_empty=len(o['v']) == 0,
             sum_set_empty=not bool(o['Ks'].any()))
    m.update(extra)
    return m


def _num(case, obs, exp, scale, rtol, what, mech, atol=0.0, **detail):
    ok, d = R.near(obs, exp, scale, rtol, atol)
    if ok and (atol == 0.0 or scale > 1e-9):
        case.dev(what, d)      # deviations of held comparisons only (violations are reported separately)
    return case.check(ok, what, mech, obs=float(obs), exp=float(exp), **detail)


NUMERIC_CENTER = ['min', 'max', 'mean', 'median', 'mode', 'std', 'var', 'mad_std', 'biweight_location',
                  'biweight_midvariance', 'center_aper_area', 'xcentroid', 'ycentroid', 'centroid', 'cutout_centroid',
                  'covariance', 'covar_sigx2', 'covar_sigy2', 'covar_sigxy', 'covariance_eigvals', 'semimajor_sigma',
                  'semiminor_sigma', 'fwhm', 'orientation', 'eccentricity', 'elongation', 'ellipticity', 'cxx', 'cyy',
                  'cxy', 'gini']
# raw / central moment sums of an empty pixel set are legitimately 0 (not demanded to be NaN)
MOMENT_SUMS = ['moments', 'moments_central', 'inertia_tensor']
NUMERIC_SUM = ['sum', 'sum_err', 'sum_aper_area']
COV_BASED = ['covariance', 'covar_sigx2', 'covar_sigy2', 'covar_sigxy', 'covariance_eigvals', 'semimajor_sigma',
             'semiminor_sigma', 'fwhm', 'orientation', 'eccentricity', 'elongation', 'ellipticity', 'cxx', 'cyy', 'cxy']


def _make_stats(g, ap, data, error, mask, wcs=None, lb='from_g', form='array'):
    import astropy.units as u
    from astropy.nddata import NDData, StdDevUncertainty
    from photutils.aperture import ApertureStats
    unit = None if g['unit'] is None else u.Unit(g['unit'])
    lb = g['lb'] if isinstance(lb, str) else lb
    if isinstance(lb, np.ndarray):
        lb = lb.copy()
    if unit is not None and lb is not None:
        lb = np.asarray(lb, float) * unit if not np.isscalar(lb) else lb * unit
    sc = None if g['clip'] is None else g['SigmaClip'](**g['clip'])
    # fresh copies in the case's memory layout (axis iii)
    d = G.relayout(data, g['layout']['data'])
    e = G.relayout(error, g['layout']['error'])
    m = G.relayout(mask, g['layout']['mask'])
    kw = dict(sigma_clip=sc, sum_method=g['sum_method'], subpixels=g['subpixels'], local_bkg=lb)
    if form == 'nddata':
        nd = NDData(d, uncertainty=None if e is None else StdDevUncertainty(e), mask=m, unit=unit, wcs=wcs)
        return ApertureStats(nd, ap, **kw)
    if unit is not None:
        d = d * unit
        e = None if e is None else e * unit
    return ApertureStats(d, ap, error=e, mask=m, wcs=wcs, **kw)


# ----------------------------------------------------------------------
# the case
# ----------------------------------------------------------------------
def run_case(case):
    _DET['armed'] = _DET['orig'] is not None       # guard active for every library call of this case
    _DET['n'] = 0
    try:
        _run_case(case)
    finally:
        _DET['armed'] = False


def _run_case(case):
    rng, cls = case.rng, case.cls
    g = _gen(case)
    data, error, mask = g['data'], g['error'], g['mask']
    kind, params = g['kind'], g['params']
    positions = g['positions'][0] if g['scalar'] else g['positions']
    npos = len(g['positions'])
    lbk = np.zeros(npos) if g['lb'] is None else np.broadcast_to(np.asarray(g['lb'], float), (npos,)).copy()
    case.params = dict(shape=list(g['shape']), style=g['style'], dtype=str(data.dtype), kind=kind,
                       params={k: round(float(v), 6) for k, v in params.items()},
                       positions=[[round(float(x), 6), round(float(y), 6)] for x, y in g['positions']],
                       locs=g['locs'], scalar=g['scalar'], sum_method=g['sum_method'], subpixels=g['subpixels'],
                       clip=g['clip'], local_bkg=None if g['lb'] is None else [float(x) for x in lbk],
                       unit=g['unit'], error=error is not None, mask=None if mask is None else int(mask.sum()),
                       mag=g['mag'], emag=g['emag'], layout=g['layout'], local_bkg_form=g['lbform'])
    case.digest = core.arr_digest(data, error, mask, np.array([params[k] for k in sorted(params)], float),
                                  np.asarray(g['positions'], float), lbk) + core.digest(
        [cls, kind, g['sum_method'], g['subpixels'], g['clip'], g['unit'], g['scalar']])[:8]
    base = {'cls': cls, 'kind': kind, 'sum_method': g['sum_method'], 'clip': g['clip'] is not None,
            'local_bkg': g['lb'] is not None}

    # generic axes: counters + call form of every aperture argument (half of the non-sky cases plain)
    case.note('magnitude_data:' + g['maglab'])
    if error is not None:
        case.note('magnitude_error:' + g['emaglab'])
    for name, arr in (('data', data), ('error', error), ('mask', mask)):
        if arr is not None:
            case.note('layout:' + g['layout'][name])
    if abs(g['shape'][0] - g['shape'][1]) >= 2:
        case.note('shape:nonsquare')
    case.note('form_local_bkg:' + g['lbform'])
    case.note('axis2_dtype_data:' + (g['ddt'] if g['ddt'] != 'float64' else str(data.dtype)))
    if error is not None:
        case.note('axis2_dtype_error:' + (g['edt'] if g['edt'] != 'float64' else str(error.dtype)))
    case.note('axis2_mask:' + g['maskkind'])
    for loc in g['locs']:
        case.note('axis2_position:' + loc)
    if g['halfint']:
        case.note('axis2_half_integer_sizes')
    if abs(g['shape'][0] - g['shape'][1]) >= 2:
        case.note('axis2_shape:wide' if g['shape'][1] > g['shape'][0] else 'axis2_shape:tall')
    labels, posform, pos_arg, ctor = {}, 'as_is', positions, params
    if cls != 'sky' and rng.random() < 0.5:
        ctor, canon, labels = G.apply_forms(rng, kind, params)
        pos_arg, posform = G.positions_form(rng, positions, g['scalar'])
        for k, lab in labels.items():
            case.note(('form_theta:' if k == 'theta' else 'form_size:') + lab)
        case.note('form_positions:' + posform)
        params = canon
    ap = G.build_pixel(kind, pos_arg, ctor)
    if 'theta' in params:
        import astropy.units as _u
        held = float(ap.theta.to_value(_u.rad))
        case.check(abs(held - params['theta']) <= 1e-14 * max(1.0, abs(params['theta'])),
                   'theta_held_equals_given_angle', dict(base, form=labels.get('theta', 'float')), held=held,
                   given=params['theta'])
        params = dict(params, theta=held)
    g['params'] = params
    hist = 'fresh'
    if cls != 'sky' and rng.random() < 0.4:
        ap, hist = G.with_history(rng, ap, data)          # axis (x): copy / indexed / used before
    case.note('axis2_aperture_history:' + hist)
    base['history'] = hist
    case.params.update(history=hist, dtypes=[g['ddt'], g['edt']], maskkind=g['maskkind'])
    case.params.update(params={k: round(float(v), 6) for k, v in params.items()}, forms=labels, posform=posform)
    wcs = sky = None
    form = 'array'
    if cls == 'sky' or (cls == 'nddata' and rng.random() < 0.4):
        wcs, scale = G.gen_wcs(rng, g['shape'])
    if cls == 'sky':
        pos = np.atleast_2d(np.asarray(positions, float))
        sc = wcs.pixel_to_world(pos[:, 0], pos[:, 1])
        slabels = {}
        sky = G.build_sky(kind, sc[0] if g['scalar'] else sc, params, scale, float(rng.uniform(-3, 3)),
                          rng=rng if rng.random() < 0.6 else None, labels=slabels)
        for k, lab in slabels.items():
            case.note(('form_sky_theta:' if k == 'theta' else 'form_sky_length:') + lab)
        snap_sky = G.ap_snapshot(sky)
        ap = sky.to_pixel(wcs)
        form = 'sky'
    elif cls == 'nddata':
        form = 'nddata'

    ora = _oracle(ap, data, error, mask, g['sum_method'], g['subpixels'], lbk, g['clip'])
    if g['clip'] is not None and min(min(o['margin'], o['margin_s']) for o in ora) < 1e-9:
        case.skip('sigma-clip bound within 1e-9 of a pixel value (tie decided by rounding)')
    if any(bool((o['Ws'] < -1e-12).any() or np.isnan(o['Ws']).any() or np.isnan(o['Wc']).any()) for o in ora):
        case.skip('aperture mask holds a negative (beyond rounding) or NaN weight (mask defect, C01 matter)')
    case.nontrivial = any(len(o['v']) >= 3 and np.ptp(o['v']) > 0 for o in ora)
    case.note('positions', npos)
    case.note('positions_overhang_left_or_bottom', sum(o['overlap'] and (o['overhang_x'] or o['overhang_y']) for o in ora))
    case.note('positions_no_overlap', sum(not o['overlap'] for o in ora))
    case.note('positions_no_unmasked_pixel', sum(o['overlap'] and len(o['v']) == 0 for o in ora))
    case.note('pixels_clipped', sum(o['nclipped'] for o in ora))

    the_ap = sky if sky is not None else ap
    snap0 = snap_sky if sky is not None else G.ap_snapshot(ap)
    st = _make_stats(g, the_ap, data, error, mask, wcs=wcs, form=form)
    case.check(bool(st.isscalar) == bool(g['scalar']), 'isscalar', base)
    case.check(int(st.n_apertures) == npos, 'n_apertures', base)

    # every public property must be readable (an exception here is a violation 'raised')
    obs = {}
    ok_cov, _ = _guarded(lambda: st.covariance)
    case._cov_failed = not ok_cov
    if not ok_cov:
        _loop_violation(case, ora, base)
    for name in NUMERIC_CENTER + NUMERIC_SUM + MOMENT_SUMS + ['bbox_xmin', 'bbox_xmax', 'bbox_ymin', 'bbox_ymax']:
        if name in COV_BASED and not ok_cov:
            continue
        obs[name] = _get(st, name)
    for name in st.properties:
        if name in COV_BASED and not ok_cov:
            continue
        _DET['n'] = 0
        getattr(st, name)
    if not ok_cov:
        # the object cannot deliver its covariance-based values: everything else is still judged
        nanarr = np.full((npos,), np.nan)
        for name in COV_BASED:
            shape = {'covariance': (npos, 2, 2), 'covariance_eigvals': (npos, 2)}.get(name, (npos,))
            obs[name] = (np.full(shape, np.nan), None)

    _check_units(case, obs, g, base)
    for k, o in enumerate(ora):
        _check_position(case, st, obs, k, o, g, error, base)
    _check_cutouts(case, st, ora, g, error, base)
    _rel_photometry(case, ap, data, error, mask, ora, obs, g, lbk, base)
    if not ok_cov:
        case.note('relations_skipped_covariance_unavailable')
        return
    # axis (x): the same aperture object used for a second ApertureStats; its parameters are untouched
    if sky is not None or rng.random() < 0.3:
        st2 = _make_stats(g, the_ap, data, error, mask, wcs=wcs, form=form)
        case.note('axis2_second_use')
        for name in REL_PROPS:
            v2, _ = _get(st2, name)
            case.close(v2, obs[name][0], 'second_use_equals_first_use', mech=dict(base, prop=name, form=form))
    case.check(G.ap_snapshot(the_ap) == snap0, 'aperture_parameters_unchanged_by_use', dict(base, form=form),
               before=repr(snap0)[:300], after=repr(G.ap_snapshot(the_ap))[:300])
    # caller-owned inputs as the object holds them (an all-False mask stays all False ...)
    case.check(core.exact(np.asarray(st._data), data) and (error is None or core.exact(np.asarray(st._error), error))
               and (mask is None or np.array_equal(np.asarray(st._mask), mask)), 'inputs_unchanged_by_use',
               dict(base, mask=g['maskkind']))
    _rel_table(case, st, obs, base)
    if npos > 1 or (not g['scalar'] and rng.random() < 0.3):
        _rel_singles(case, rng, g, ap, data, error, mask, wcs, lbk, obs, base)
    if labels and 'np.float32' in labels.values():
        case.note('float32_scalar_form_not_judged_against_float64_twin')
    elif labels and rng.random() < 0.5:
        _rel_float_radian(case, g, ap, data, error, mask, lbk, obs, labels, base)
    _documented_rejections(case, rng, g, ap, data, base)
    if g['scalar'] and form != 'sky' and rng.random() < 0.25:
        _rel_region(case, g, data, error, mask, obs, base)
    if form == 'sky':
        _rel_other_form(case, g, ap, data, error, mask, wcs, obs, 'sky_equals_to_pixel', base, st=st)
    elif form == 'nddata':
        _rel_other_form(case, g, ap, data, error, mask, wcs, obs, 'nddata_equals_arrays', base, st=st)


# ----------------------------------------------------------------------
def _loop_violation(case, ora, base):
    # mechanism: a normalised second moment mu/m00 is negative (signed values), or the values cancel so
    # completely (sum|v|/|sum v| > 1e9, m00 = rounding noise) that its sign is decided by rounding
    neg = False
    for o in ora:
        c = o['mom']['cov']
        if np.all(np.isfinite(c)) and min(c[0, 0], c[1, 1]) < 0:
            neg = True
        if len(o['v']) and (o['mom']['m00'] == 0.0 or o['mom']['cond'] > 1e9):
            neg = True
    case.note('covariance_loop_bound_trips')
    case.check(False, 'covariance_regularisation_terminates',
               dict(base, negative_variance_or_cancelling_sum=neg, det_calls_exceed=DET_LIMIT),
               cov=[o['mom']['cov'] for o in ora], m00=[o['mom']['m00'] for o in ora])


def _check_units(case, obs, g, base):
    u0 = g['unit']
    sq = None if u0 is None else f'{u0}2'
    want = {'sum': u0, 'sum_err': u0, 'mean': u0, 'median': u0, 'min': u0, 'max': u0, 'std': u0, 'mode': u0,
            'mad_std': u0, 'biweight_location': u0, 'var': sq, 'biweight_midvariance': sq,
            'sum_aper_area': 'pix2', 'center_aper_area': 'pix2', 'orientation': 'deg', 'covariance': 'pix2',
            'semimajor_sigma': 'pix', 'fwhm': 'pix', 'cxx': '1 / pix2', 'xcentroid': None, 'centroid': None}
    for name, w in want.items():
        got = obs[name][1]
        if name in COV_BASED and case._cov_failed:
            continue
        case.check(got == w, 'unit_of_property', dict(base, prop=name), got=got, want=w)


def _check_position(case, st, obs, k, o, g, error, base):
    nothing = (not o['overlap']) or len(o['v']) == 0
    nothing_sum = (not o['overlap']) or not o['Ks'].any()
    # ---- NaN rule ----------------------------------------------------------
    if nothing:
        for name in NUMERIC_CENTER:
            if name in COV_BASED and case._cov_failed:
                continue
            val = obs[name][0][k]
            case.check(bool(np.all(np.isnan(val))), 'nan_when_no_unmasked_pixel', _pm(base, o, prop=name),
                       obs=val)
    if nothing_sum:
        for name in ('sum', 'sum_err'):
            val = obs[name][0][k]
            case.check(bool(np.isnan(val)), 'nan_when_no_unmasked_pixel', _pm(base, o, prop=name), obs=val)
        a = obs['sum_aper_area'][0][k]
        if o['overlap'] and len(o['v']) > 0:
            # sum set empty but centre set not: 0 (area of nothing) and NaN are both defensible
            case.check(bool(np.isnan(a)) or a == 0.0, 'nan_when_no_unmasked_pixel', _pm(base, o, prop='sum_aper_area'),
                       obs=a)
            case.note('sum_set_empty_center_set_not')
        else:
            case.check(bool(np.isnan(a)), 'nan_when_no_unmasked_pixel', _pm(base, o, prop='sum_aper_area'), obs=a)
    # ---- geometry ------------------------------------------------------------
    b = o['box']
    for name, want in (('bbox_xmin', b[0]), ('bbox_xmax', b[1] - 1), ('bbox_ymin', b[2]), ('bbox_ymax', b[3] - 1)):
        case.check(obs[name][0][k] == want, 'bbox_bounds', dict(base, prop=name), obs=obs[name][0][k], want=want)

    # ---- sum group -------------------------------------------------------------
    if not nothing_sum:
        m = _pm(base, o)
        _num(case, obs['sum'][0][k], o['sum'], o['sum_scale'], 1e-10, 'sum_vs_definition', m, pos=k)
        _num(case, obs['sum_aper_area'][0][k], o['sum_aper_area'], abs(o['sum_aper_area']), 1e-10,
             'sum_aper_area_vs_definition', m, atol=1e-13 * o['Ks'].sum(), pos=k)
        if error is not None:
            _num(case, obs['sum_err'][0][k], o['sum_err'], abs(o['sum_err']) if math.isfinite(o['sum_err']) else 0.0,
                 1e-10, 'sum_err_vs_definition', m, pos=k)
        else:
            case.check(bool(np.isnan(obs['sum_err'][0][k])), 'sum_err_nan_without_error', m)
    if nothing:
        return

    # ---- statistics over the centre set ------------------------------------------
    vmax = float(np.max(np.abs(o['v'])))
    m = _pm(base, o)
    for name in S16.STAT_NAMES:
        exp = o['stats'][name]
        scale = vmax ** 2 if name in ('var', 'biweight_midvariance') else vmax
        _num(case, obs[name][0][k], exp, max(scale, abs(exp) if math.isfinite(exp) else 0.0), 1e-12,
             'stat_vs_definition', dict(m, prop=name), pos=k, n=len(o['v']))
    _num(case, obs['center_aper_area'][0][k], o['center_aper_area'], o['center_aper_area'], 0.0,
         'center_aper_area_vs_definition', m, pos=k)
    ga, gb = S16.gini_ref(o['v'])
    gobs = obs['gini'][0][k]
    if math.isfinite(ga) and math.isfinite(gb):
        mean_cond = float(np.mean(np.abs(o['v']))) / max(abs(float(np.mean(o['v']))), 1e-300)
        if mean_cond <= COND_MAX:
            ok = any(R.near(gobs, e, max(abs(e), 1.0) * mean_cond, 1e-10)[0] for e in (ga, gb))
            case.check(ok, 'gini_vs_docstring_formula', m, obs=float(gobs), exp=[ga, gb])
    else:
        case.check(not math.isfinite(gobs), 'gini_vs_docstring_formula', dict(m, nonfinite=True), obs=float(gobs),
                   exp=[ga, gb])

    # ---- moments ------------------------------------------------------------------
    _check_moments(case, obs, k, o, m)


def _check_moments(case, obs, k, o, m):
    mom = o['mom']
    x0, y0 = o['origin']
    L = float(max(o['cut'][0].stop - o['cut'][0].start, o['cut'][1].stop - o['cut'][1].start))
    # raw moments relative to the cutout origin (independent of the centroid)
    Mref, Aref = S16.raw_moments_ref(o['xs'] - x0, o['ys'] - y0, o['v'])
    Mobs = obs['moments'][0][k]
    if case.check(Mobs.shape == (4, 4), 'moments_shape', m, shape=list(Mobs.shape)):
        worst = 0.0
        okall = True
        for p in range(4):
            for q in range(4):
                ok, d = R.near(Mobs[p, q], Mref[p, q], Aref[p, q], 1e-10)
                worst = max(worst, d)
                okall &= ok
        case.dev('raw_moments_vs_definition', worst)
        case.check(okall, 'raw_moments_vs_definition', m, obs=Mobs, exp=Mref)
    cond = mom['cond']
    if not (cond <= COND_MAX):
        case.note('moment_checks_skipped_ill_conditioned')
        return
    tol = 1e-9 * cond * (L + 1.0)     # measured max 1.6e-12*(L+1) over 65k thorough cases
    # centroid in image coordinates: x and y separately, keyed by the overhang on that axis
    for axis, name, exp, over in (('x', 'xcentroid', mom['cx'], o['overhang_x']),
                                  ('y', 'ycentroid', mom['cy'], o['overhang_y'])):
        i = 0 if axis == 'x' else 1
        bmin = o['box'][0] if axis == 'x' else o['box'][2]
        for prop, val in ((name, obs[name][0][k]), ('centroid', obs['centroid'][0][k][i])):
            d = abs(float(val) - exp)
            if d <= tol:
                case.dev('centroid_vs_definition', d / (L + 1.0))
            # structural signature of the deviation: is the value off by exactly the (negative) box minimum?
            sig = bool(over) and abs(float(val) - exp - bmin) <= tol
            case.check(d <= tol, 'centroid_vs_definition',
                       dict(m, prop=prop, axis=axis, overhang_low=bool(over), offset_is_bbox_min=sig),
                       obs=float(val), exp=exp, box=list(o['box']), pos=k)
        val = obs['cutout_centroid'][0][k][i]
        e2 = exp - (x0 if axis == 'x' else y0)
        d = abs(float(val) - e2)
        case.dev('cutout_centroid_vs_definition', d / (L + 1.0))
        case.check(d <= tol, 'cutout_centroid_vs_definition', dict(m, axis=axis), obs=float(val), exp=e2, pos=k)
    # central moments (order <= 3) about the centroid
    dx, dy = o['xs'] - mom['cx'], o['ys'] - mom['cy']
    Cref, Cabs = S16.raw_moments_ref(dx, dy, o['v'])
    Cobs = obs['moments_central'][0][k]
    okall, worst = True, 0.0
    for p in range(4):
        for q in range(4):
            if p + q > 3:
                continue
            scale = (Cabs[p, q] + mom['abs'] * (L + 1.0) ** max(p + q - 1, 0) * 1e-3) * cond
            ok, d = R.near(Cobs[p, q], Cref[p, q], scale, 1e-8)    # measured max 1.4e-11
            worst = max(worst, d)
            okall &= ok
    case.dev('central_moments_vs_definition', worst)
    case.check(okall, 'central_moments_vs_definition', m, obs=Cobs, exp=Cref)
    # inertia tensor: [[mu_xx, -mu_xy], [-mu_xy, mu_yy]] (x-first) or with the diagonal swapped (row/column-first)
    mu_xx, mu_yy, mu_xy = Cref[0, 2], Cref[2, 0], Cref[1, 1]
    T = obs['inertia_tensor'][0][k]
    sc = (Cabs[0, 2] + Cabs[2, 0] + mom['abs']) * cond
    okA = all(R.near(a, b, sc, 1e-9)[0] for a, b in zip(T.ravel(), [mu_xx, -mu_xy, -mu_xy, mu_yy]))
    okB = all(R.near(a, b, sc, 1e-9)[0] for a, b in zip(T.ravel(), [mu_yy, -mu_xy, -mu_xy, mu_xx]))
    case.check(okA or okB, 'inertia_tensor_vs_definition', m, obs=T, exp=[mu_xx, -mu_xy, mu_yy])

    if case._cov_failed:
        return
    # covariance
    cov = mom['cov']
    det = cov[0, 0] * cov[1, 1] - cov[0, 1] ** 2
    Cov_obs = obs['covariance'][0][k]
    covtol = 1e-8 * cond * (L + 1.0) ** 2      # measured max 4e-10*(L+1)^2
    # (the determinant itself must be well conditioned: a nearly singular matrix with large entries may
    #  round to either side of the 1/144 regularisation threshold or of zero)
    det_noise = 1e-6 * (abs(cov[0, 0] * cov[1, 1]) + cov[0, 1] ** 2)
    well = det > DELTA2 * (1 + 1e-6) + covtol + det_noise
    psd = cov[0, 0] > covtol and cov[1, 1] > covtol
    if well and not psd and bool(np.all(np.isnan(Cov_obs))):
        # signed values: a negative "variance". The matrix is not a covariance ("should be positive
        # semidefinite" in the source); NaN and the raw numbers are both accepted, counted
        case.note('covariance_negative_variance_reported_nan')
    elif well:
        if not psd:
            case.note('covariance_negative_variance_reported_raw')
        d = float(np.max(np.abs(Cov_obs - cov)))
        if d <= covtol:
            case.dev('covariance_vs_definition', d / (L + 1.0) ** 2)
        case.check(d <= covtol, 'covariance_vs_definition', m, obs=Cov_obs, exp=cov)
        for name, e in (('covar_sigx2', cov[0, 0]), ('covar_sigy2', cov[1, 1]), ('covar_sigxy', cov[0, 1])):
            case.check(abs(obs[name][0][k] - e) <= covtol, 'covariance_vs_definition', dict(m, prop=name),
                       obs=obs[name][0][k], exp=e)
        ref_shape = S16.shape_from_cov(cov)
        if ref_shape is not None:
            _check_shape(case, obs, k, ref_shape, 'shape_vs_definition', m, loose=cond)
    else:
        case.note('covariance_below_regularisation_threshold')
    # shape values as functions of the covariance matrix the object reports (covers the regularised regime)
    case.check(abs(obs['covar_sigx2'][0][k] - Cov_obs[0, 0]) == 0 and abs(obs['covar_sigy2'][0][k] - Cov_obs[1, 1]) == 0
               and abs(obs['covar_sigxy'][0][k] - Cov_obs[0, 1]) == 0 and Cov_obs[0, 1] == Cov_obs[1, 0]
               or bool(np.any(np.isnan(Cov_obs))), 'covar_elements_vs_covariance', m, obs=Cov_obs)
    s2 = S16.shape_from_cov(Cov_obs)
    if s2 is not None:
        _check_shape(case, obs, k, s2, 'shape_vs_reported_covariance', m, loose=1.0)
    else:
        case.note('reported_covariance_not_positive_definite')


def _check_shape(case, obs, k, s, what, m, loose=1.0):
    l1, l2 = s['eig']
    kappa = l1 / l2
    rt = 1e-9 * max(loose, 1.0)
    for name in ('semimajor_sigma', 'semiminor_sigma', 'fwhm'):
        ok, d = R.near(obs[name][0][k], s[name], s['semimajor_sigma'], rt)
        case.dev(what, d)
        case.check(ok, what, dict(m, prop=name), obs=obs[name][0][k], exp=s[name])
    ev = obs['covariance_eigvals'][0][k]
    ok = R.near(ev[0], l1, l1, rt)[0] and R.near(ev[1], l2, l1, rt)[0]
    case.check(ok, what, dict(m, prop='covariance_eigvals'), obs=ev, exp=[l1, l2])
    if kappa < 1e8:
        for name, tol in (('eccentricity', 2e-6), ('ellipticity', 1e-8 * kappa), ('elongation', 1e-8 * kappa)):   # ecc: measured max 1.1e-8 (near-circular)
            d = abs(obs[name][0][k] - s[name])
            case.dev(what + '_' + name, d)
            case.check(d <= tol * max(loose, 1.0) * max(1.0, abs(s[name])), what, dict(m, prop=name),
                       obs=obs[name][0][k], exp=s[name])
        if s['aniso'] > 1e-6:
            d = S16.angle_diff_mod180(float(obs['orientation'][0][k]), s['orientation'])
            case.dev(what + '_orientation_deg', d)
            case.check(d <= 1e-7 * max(loose, 1.0) / s['aniso'] + 1e-9, what, dict(m, prop='orientation'),
                       obs=float(obs['orientation'][0][k]), exp=s['orientation'])
            cmax = max(abs(s['cxx']), abs(s['cyy']), abs(s['cxy']))
            for name in ('cxx', 'cyy', 'cxy'):
                d = abs(obs[name][0][k] - s[name])
                case.dev(what + '_cxx_cyy_cxy', d / cmax)
                case.check(d <= 1e-8 * kappa * max(loose, 1.0) * cmax, what, dict(m, prop=name), obs=obs[name][0][k],
                           exp=s[name])
        else:
            case.note('orientation_skipped_circular')


# ----------------------------------------------------------------------
def _check_cutouts(case, st, ora, g, error, base):
    """data_cutout / data_sumcutout / error_sumcutout: unmasked pixels and their values."""
    dc, ds, es = st.data_cutout, st.data_sumcutout, st.error_sumcutout
    if st.isscalar:
        dc, ds, es = [dc], [ds], [es]
    for k, o in enumerate(ora):
        if not o['overlap']:
            continue
        m = _pm(base, o)
        cut = o['cut']
        shp = (cut[0].stop - cut[0].start, cut[1].stop - cut[1].start)
        for name, arr, K, W in (('data_cutout', dc[k], o['Kc'], o['Wc']), ('data_sumcutout', ds[k], o['Ks'], o['Ws'])):
            if not case.check(np.shape(arr) == shp, 'cutout_shape', dict(m, prop=name), got=list(np.shape(arr)),
                              want=list(shp)):
                continue
            good = ~np.ma.getmaskarray(arr)
            Kc = K[cut]
            case.check(np.array_equal(good, Kc), 'cutout_unmasked_set', dict(m, prop=name),
                       n_obs=int(good.sum()), n_exp=int(Kc.sum()), n_diff=int((good != Kc).sum()))
            if np.array_equal(good, Kc) and Kc.any():
                exp = (o['vimg'] * W)[cut][Kc]
                case.close(np.ma.getdata(arr)[Kc], exp, 'cutout_values', mech=dict(m, prop=name))
        if error is not None and np.shape(es[k]) == shp:
            good = ~np.ma.getmaskarray(es[k])
            Kc = o['Ks'][cut]
            # pixels whose weight is a negative rounding residue (exact annuli, |w| ~ 1e-15) have a negative
            # "variance": sqrt masks them. Either state is accepted there (counted); all other pixels are strict.
            either = (o['Ws'] < 0)[cut]
            if either.any():
                case.note('error_sumcutout_negative_weight_pixels', int(either.sum()))
            same_set = np.array_equal(good[~either], Kc[~either])
            case.check(same_set, 'cutout_unmasked_set', dict(m, prop='error_sumcutout'),
                       n_diff=int((good != Kc)[~either].sum()))
            sel = Kc & ~either
            if same_set and sel.any():
                with np.errstate(all='ignore'):
                    exp = np.sqrt(np.asarray(error, float) ** 2 * o['Ws'])[cut][sel]
                case.close(np.ma.getdata(es[k])[sel], exp, 'cutout_values', rtol=1e-14,
                           mech=dict(m, prop='error_sumcutout'))


def _rel_photometry(case, ap, data, error, mask, ora, obs, g, lbk, base):
    """Stated equality with aperture_photometry / area_overlap (no sigma clip)."""
    from photutils.aperture import aperture_photometry
    if g['clip'] is not None:
        return
    d = np.asarray(data).astype(float)
    bad = ~np.isfinite(d)
    mm = bad if mask is None else (bad | mask)
    d = np.where(bad, 0.0, d)
    kw = dict(method=g['sum_method'], subpixels=g['subpixels'])
    # (error handed over as float64: do_photometry squares float16/float32 maps in their own dtype - a C02 finding)
    tbl = aperture_photometry(d.copy(), ap, error=None if error is None else np.asarray(error).astype(float),
                              mask=mm.copy(), **kw)
    area = np.atleast_1d(ap.area_overlap(d.copy(), mask=mm.copy(), **kw))
    psum = np.atleast_1d(np.asarray(tbl['aperture_sum'], float))
    for k, o in enumerate(ora):
        # "whenever at least one unmasked pixel has positive weight" (positive beyond a rounding residue)
        if not o['overlap'] or not ((o['Ws'] > 1e-12) & o['good']).any():
            continue
        m = _pm(base, o)
        exp = psum[k] - lbk[k] * area[k]
        scale = o['sum_scale'] + abs(lbk[k]) * area[k]
        # ApertureStats keeps every non-zero weight, aperture_photometry the positive ones: exact annulus masks
        # carry residues of either sign (measured |w| <= 2e-15) -> absolute slack 1e-13 * sum|v| (resp. sum err^2)
        sabs = float(np.sum(np.abs(o['vimg'][o['Ss']])))
        _num(case, obs['sum'][0][k], exp, scale, 1e-9, 'sum_equals_aperture_photometry', m, atol=1e-13 * sabs, pos=k)
        _num(case, obs['sum_aper_area'][0][k], area[k], abs(area[k]), 1e-12, 'sum_aper_area_equals_area_overlap', m,
             atol=1e-13 * max(1, int(o['Ss'].sum())), pos=k)
        if error is not None:
            e = float(np.asarray(tbl['aperture_sum_err'], float)[k])
            with np.errstate(all='ignore'):
                atol_var = 1e-13 * float(np.sum(np.asarray(error, float)[o['Ss']] ** 2))
            got = float(obs['sum_err'][0][k])
            with np.errstate(all='ignore'):
                resid_bad = bool((~np.isfinite(np.asarray(error, float)) & o['Ss'] & (np.abs(o['Ws']) <= 1e-12)).any())
            if resid_bad:
                # a NaN/inf error value under a rounding-residue weight (|w| <= 1e-12, either sign): ApertureStats
                # keeps that pixel (w != 0), aperture_photometry keeps it only if the residue happens to be positive
                case.note('sum_err_relation_skipped_nonfinite_error_under_residue_weight')
            elif math.isfinite(e) and math.isfinite(atol_var) and e * e <= 10 * atol_var:
                case.note('sum_err_relation_skipped_residue_only')
            elif math.isfinite(e) and math.isfinite(got):
                d = abs(got * got - e * e)
                case.dev('sum_err_equals_aperture_photometry', d / (e * e) if e else 0.0)
                case.check(d <= 1e-10 * e * e + atol_var, 'sum_err_equals_aperture_photometry', m, obs=got, exp=e, pos=k)
            else:
                case.check((math.isnan(e) and math.isnan(got)) or e == got, 'sum_err_equals_aperture_photometry', m,
                           obs=got, exp=e, pos=k)


TABLE_EXTRA = ['sum', 'sum_err', 'mean', 'xcentroid', 'ycentroid', 'covar_sigx2', 'cxx', 'gini', 'bbox_xmin',
               'center_aper_area', 'elongation']


def _rel_table(case, st, obs, base):
    _DET['n'] = 0
    t = st.to_table()
    want = [c for c in st.default_columns]
    case.check(t.colnames == want, 'to_table_default_columns', base, got=t.colnames)
    n = int(st.n_apertures)
    case.check(len(t) == n, 'to_table_rows', base)
    case.check(list(np.asarray(t['id'])) == list(range(1, n + 1)), 'to_table_ids', base)
    for c in t.colnames:
        if c in obs:
            v = np.asarray(getattr(t[c], 'value', t[c]), float)
            case.close(v, obs[c][0].reshape(v.shape), 'to_table_equals_property', mech=dict(base, prop=c))
    _DET['n'] = 0
    t2 = st.to_table(columns=TABLE_EXTRA)
    case.check(t2.colnames == TABLE_EXTRA, 'to_table_columns_arg', base)
    for c in TABLE_EXTRA:
        v = np.asarray(getattr(t2[c], 'value', t2[c]), float)
        case.close(v, obs[c][0].reshape(v.shape), 'to_table_equals_property', mech=dict(base, prop=c))


REL_PROPS = ['sum', 'sum_err', 'sum_aper_area', 'center_aper_area', 'min', 'max', 'mean', 'median', 'std', 'mad_std',
             'biweight_location', 'biweight_midvariance', 'centroid', 'covariance', 'semimajor_sigma', 'orientation',
             'eccentricity', 'gini', 'moments_central', 'cxy']


def _rel_singles(case, rng, g, ap, data, error, mask, wcs, lbk, obs, base):
    """A multi-position object == single-position objects, each with its own local background."""
    pos = np.atleast_2d(ap.positions)
    pp = {k: getattr(ap, k) for k in ap._params if k != 'positions'}
    ks = list(range(len(pos)))
    if len(ks) > 2:
        ks = sorted(rng.choice(ks, 2, replace=False).tolist())
    for k in ks:
        a1 = type(ap)((float(pos[k, 0]), float(pos[k, 1])), **pp)
        lb1 = None if g['lb'] is None else float(lbk[k])
        s1 = _make_stats(g, a1, data, error, mask, wcs=wcs, lb=lb1)
        for name in REL_PROPS:
            v1, _ = _get(s1, name)
            case.close(obs[name][0][k], v1[0], 'many_positions_equal_singles', mech=dict(base, prop=name))


def _rel_float_radian(case, g, ap, data, error, mask, lbk, obs, labels, base):
    """the aperture as given (theta as Quantity / Angle in deg, arcmin, hourangle, numpy scalars, ints ...)
    == the aperture built from plain floats with theta in radians"""
    held = {k: float(getattr(ap, k).value if hasattr(getattr(ap, k), 'unit') else getattr(ap, k))
            for k in ap._params if k != 'positions'}
    if 'theta' in held:
        held['theta'] = float(g['params']['theta'])
    ref = G.build_pixel(g['kind'], np.array(ap.positions, float), held)
    s2 = _make_stats(g, ref, data, error, mask)
    for name in REL_PROPS:
        v2, _ = _get(s2, name)
        case.close(obs[name][0], v2, 'given_form_equals_float_radian_aperture',
                   mech=dict(base, prop=name, form='theta:' + labels.get('theta', 'float')))


def _documented_rejections(case, rng, g, ap, data, base):
    """argument errors the class docstring promises"""
    import astropy.units as u
    from photutils.aperture import ApertureStats
    r = rng.random()
    if r < 0.1:
        try:
            ApertureStats(data.copy(), ap, local_bkg=float(rng.choice([np.nan, np.inf])))
            case.check(False, 'nonfinite_local_bkg_rejected', base)
        except ValueError:
            case.check(True, 'nonfinite_local_bkg_rejected', base)
    elif r < 0.2:
        try:
            ApertureStats(data.copy() * u.Jy, ap, local_bkg=1.0)
            case.check(False, 'mixed_units_rejected', base)
        except ValueError:
            case.check(True, 'mixed_units_rejected', base)
    elif r < 0.3 and len(g['positions']) >= 1:
        try:
            ApertureStats(data.copy(), ap, local_bkg=np.ones(len(g['positions']) + 1))
            case.check(False, 'wrong_length_local_bkg_rejected', base)
        except ValueError:
            case.check(True, 'wrong_length_local_bkg_rejected', base)


def _rel_region(case, g, data, error, mask, obs, base):
    """a regions.Region input == the equivalent aperture (pixel regions, scalar position)"""
    import astropy.units as u
    import regions as rg
    kind, p = g['kind'], g['params']
    x, y = g['positions'][0]
    c = rg.PixCoord(x=x, y=y)
    ang = p.get('theta', 0.0) * u.rad
    if kind == 'circle':
        reg = rg.CirclePixelRegion(c, p['r'])
    elif kind == 'ellipse':
        reg = rg.EllipsePixelRegion(c, 2 * p['a'], 2 * p['b'], angle=ang)
    elif kind == 'rect':
        reg = rg.RectanglePixelRegion(c, p['w'], p['h'], angle=ang)
    elif kind == 'circ_annulus':
        reg = rg.CircleAnnulusPixelRegion(c, p['r_in'], p['r_out'])
    else:
        return
    s2 = _make_stats(g, reg, data, error, mask)
    with np.errstate(all='ignore'):
        fin = np.asarray(data, float)[np.isfinite(np.asarray(data, float))]
        dscale = float(np.max(np.abs(fin))) if fin.size else 1.0
        escale = 1.0 if error is None else float(np.nanmax(np.abs(np.asarray(error, float))))
    for name in ('sum', 'sum_err', 'sum_aper_area', 'mean', 'median', 'std', 'centroid', 'covariance', 'orientation'):
        v2, _ = _get(s2, name)
        atol = 1e-12 * (dscale * 1e3 if name in ('sum', 'mean', 'median', 'std') else
                        escale * 1e2 if name == 'sum_err' else 1.0)
        case.close(v2, obs[name][0], 'region_equals_aperture', rtol=1e-12, atol=atol, mech=dict(base, prop=name))


def _rel_other_form(case, g, ap, data, error, mask, wcs, obs, what, base, st=None):
    """sky aperture (or NDData container) == plain pixel aperture on plain arrays."""
    s2 = _make_stats(g, ap, data, error, mask, wcs=wcs, form='array')
    for name in NUMERIC_CENTER + NUMERIC_SUM:
        v2, u2 = _get(s2, name)
        case.close(obs[name][0], v2, what, mech=dict(base, prop=name))
        case.check(obs[name][1] == u2, what + '_unit', dict(base, prop=name))
    if wcs is not None and st is not None:
        sc = st.sky_centroid
        xc, yc = obs['xcentroid'][0], obs['ycentroid'][0]
        fin = np.isfinite(xc) & np.isfinite(yc)
        if fin.any():
            exp = wcs.pixel_to_world(xc[fin], yc[fin])
            got = sc if not st.isscalar else sc.reshape((-1,))
            sep = got[fin].separation(exp).arcsec
            case.check(bool(np.all(sep < 1e-9)), 'sky_centroid_is_wcs_of_centroid', base, sep=sep)
