"""C17 Centroid functions locate symmetric sources exactly and act per source.

Monitors (all at the public API boundary of photutils.centroids):

M1 reference model
  * centroid_com == sum(x d)/sum(d) over unmasked finite pixels (math.fsum reference, any ndim)
  * centroid_quadratic on an exactly quadratic surface == its vertex (three-valued where the
    documentation leaves the outcome open: vertex outside the fit box, clipped boxes, ties)
  * every centroid function on a point-symmetric source == the symmetry centre
M2 relations (real code run on related inputs)
  * flipud / fliplr / transpose / positive rescaling commute with every centroid function
  * values (incl. NaN/inf garbage) of masked pixels are irrelevant (exact)
  * centroid_sources(...)[i] == centroid_func(cutout_i, mask=mask_cutout_i, error=error_cutout_i, **kw) + origin_i
    for every i (cutout from astropy overlap_slices), and the result is invariant under
    permutations / sub-lists of the positions (exact: per-source independence)
"""
from __future__ import annotations

import math
import warnings

import numpy as np

from pv import core
from pv.ref import c17_centroid as ref

ID = 'C17'
RULE = ('random cutouts 3..25 px (odd/even, non-square; 1-D/3-D for centroid_com) and scenes 30..70 px with 1-6 '
        'Gaussian sources for centroid_sources, per generator class; masks, NaN/inf, integer data, error maps with '
        'gradients, float/integer/half-integer positions incl. at the image edge, box sizes/footprints, '
        'xpeak/ypeak/search_boxsize/fit_boxsize keywords, user-defined centroid callables. non-trivial = at least one '
        'deciding comparison was evaluated on a non-degenerate input (>=2 usable pixels for com; a must-branch of the '
        'quadratic oracle; >=1 relation evaluated; >=2 positions for centroid_sources); distinct by digest of the arrays')
CLASSES = ['com_def', 'com_rel', 'quad_exact', 'quad_rel', 'sym', 'gauss_rel',
           'src_com', 'src_quad', 'src_custom', 'src_gauss']
MUST_REACH = ['photutils.centroids.core:centroid_com',
              'photutils.centroids.core:centroid_quadratic',
              'photutils.centroids.core:centroid_sources',
              'photutils.centroids.gaussian:centroid_1dg',
              'photutils.centroids.gaussian:centroid_2dg',
              'photutils.utils._round:py2intround']
ANCHOR_FILES = ['centroids/core.py', 'centroids/gaussian.py', 'utils/_round.py']
MIN_NONTRIVIAL = {'quick': 500, 'thorough': 20000}
ASSUMPTIONS = ['astropy.nddata.utils.overlap_slices defines the documented cutout box of centroid_sources',
               'math.fsum / numpy.linalg (svd rank guard only) are trusted',
               'comparisons of a library call with another library call on identical arrays are exact (0,0)']

# tolerances; measured maxima (thorough tier, 68k cases, absolute pixels) in brackets; all are also reported in
# the evidence under max_deviation (*_abs_px)
TOL_COM = 1e-12        # x cond x max(1, size) [4.5e-16 of that product; 1.1e-14 px]
TOL_QUAD = 1e-9        # exact quadratic vertex: max(1e-9, 2e-12 * max|data| / min curvature) [1.1e-14 of that ratio,
                       # 6.3e-11 px]; symmetric pixel-centred source [4.1e-12 px]
TOL_QUAD_REL = 1e-8    # flips / transpose / rescale of a quadratic fit [3.2e-11 px]
TOL_SYM_COM = 1e-10    # x cond [5.3e-15 px]
TOL_SYM_GAUSS = 1e-6   # point-symmetric input of a Gaussian fit [8.9e-16 px]
TOL_REL_GAUSS = 1e-4   # flips / transpose of a Gaussian fit [1.6e-7 px (1dg), 2.2e-8 px (2dg)]
TOL_SCALE_GAUSS = 5e-3  # rescaling, noise-free sources (zero-residual fits) [4.7e-5 px (1dg), 8.3e-7 px (2dg)].  On noisy
                        # sources the end point of the fitter moves with the scale of the data by up to 5.4e-2 px
                        # (2dg, measured): recorded under *_rescale_noisy_source_not_judged, not judged.


def plan(tier):
    if tier == 'thorough':
        return dict(shards=16, cases=12000, timeout=2400, budget_s=600)
    return dict(shards=8, cases=520, timeout=600, budget_s=58)


def selftest():
    ref.selftest()
    # the user-defined centroid callables used by the src_custom class
    d = np.zeros((5, 5))
    d[1, 3] = 2.0
    assert np.allclose(wcom(d), (3.0, 1.0))
    assert np.allclose(wcom(d, error=np.ones((5, 5)), power=2.0), (3.0, 1.0))
    assert np.allclose(peakshift(d, xpeak=1.0, ypeak=2.0), (1.25, 1.75))


# ----------------------------------------------------------------------
# user-defined centroid callables (pure harness code)
# ----------------------------------------------------------------------
def wcom(data, mask=None, error=None, power=1.0):
    """Centre of mass of data / error**power over unmasked pixels."""
    d = np.array(data, dtype=float)
    if error is not None:
        error = np.asarray(error, dtype=float)
        if error.shape != d.shape:
            raise ValueError('data and error must have the same shape')
        d = d / error ** power
    if mask is not None:
        d[np.asarray(mask, bool)] = 0.0
    d[~np.isfinite(d)] = 0.0
    yy, xx = np.indices(d.shape)
    t = d.sum()
    if t == 0:
        return np.nan, np.nan
    return (xx * d).sum() / t, (yy * d).sum() / t


def peakshift(data, mask=None, xpeak=None, ypeak=None):
    """Returns the supplied peak (in cutout coordinates) shifted by a constant,
    or the arg-max pixel when no peak is supplied."""
    if xpeak is not None and ypeak is not None:
        if not (0 <= xpeak <= data.shape[1] - 1 and 0 <= ypeak <= data.shape[0] - 1):
            raise ValueError('peak outside cutout')
        return xpeak + 0.25, ypeak - 0.25
    d = np.where(np.isfinite(data), data, -np.inf)
    if mask is not None:
        d = np.where(mask, -np.inf, d)
    iy, ix = np.unravel_index(int(np.argmax(d)), d.shape)
    return float(ix), float(iy)


class PickyCom:
    """Callable object; refuses cutouts whose unmasked sum is below a limit
    (centroid_sources documents NaN where the centroid failed)."""

    def __init__(self, limit):
        self.limit = limit

    def __call__(self, data, mask=None, error=None):
        d = np.array(data, dtype=float)
        if mask is not None:
            d[mask] = 0.0
        d[~np.isfinite(d)] = 0.0
        if d.sum() < self.limit:
            raise ValueError('too faint')
        w = d if error is None else d / np.asarray(error, float)
        yy, xx = np.indices(d.shape)
        return (xx * w).sum() / w.sum(), (yy * w).sum() / w.sum()


# ----------------------------------------------------------------------
# helpers
# ----------------------------------------------------------------------
LAYOUTS = ['C', 'C', 'C', 'C', 'F', 'strided', 'offset', 'negstride', 'bigendian']
_LAY = {'kind': 'C'}          # memory layout used for every array handed to the library in the current case


def _layout(arr, kind=None):
    """Same values, different memory layout / byte order (fresh memory every time)."""
    kind = _LAY['kind'] if kind is None else kind
    if arr is None:
        return None
    a = np.asarray(arr)
    if a.ndim != 2 or kind == 'C':
        return np.array(a, copy=True, order='C')
    ny, nx = a.shape
    if kind == 'F':
        return np.array(a, copy=True, order='F')
    if kind == 'strided':
        big = np.zeros((2 * ny, 2 * nx), a.dtype)
        v = big[::2, ::2]
        v[...] = a
        return v
    if kind == 'offset':
        big = np.zeros((ny + 3, nx + 2), a.dtype)
        v = big[2:2 + ny, 1:1 + nx]
        v[...] = a
        return v
    if kind == 'negstride':
        return np.array(a[::-1, ::-1], copy=True)[::-1, ::-1]
    if kind == 'bigendian':
        return a.astype(a.dtype.newbyteorder('>'))
    raise ValueError(kind)


class _FitBlowUp(Exception):
    """The least-squares fitter inside centroid_1dg/2dg raised on finite input data."""

    def __init__(self, exc, mag, fn):
        super().__init__(str(exc))
        self.mag, self.fn = mag, fn


def _call(func, data, _log=None, **kw):
    """Library call with copies of the inputs (C10 is not our business, but a
    mutated input must not corrupt the oracle).  _log (list) receives True when the
    call warned that an iterative fit did not converge / was unsuccessful."""
    kw2 = {}
    for k, v in kw.items():
        kw2[k] = _layout(v) if isinstance(v, np.ndarray) else v
    with warnings.catch_warnings(record=True) as wl:
        warnings.simplefilter('always')
        try:
            out = np.asarray(func(_layout(data), **kw2), dtype=float)
        except ValueError as exc:
            if (getattr(func, '__name__', '') in ('centroid_1dg', 'centroid_2dg') and 'infs or NaNs' in str(exc)
                    and core.exc_location(exc) is not None):
                raise _FitBlowUp(exc, _mag_of(data), func.__name__) from exc
            raise
    if _log is not None:
        _log.append(any(('unsuccessful' in str(w.message)) or ('converge' in str(w.message)) for w in wl))
    return out


def _peaked(rng, shape, x0, y0, noise=0.02, neg=False):
    """Single peaked (non-quadratic) source + noise."""
    ny, nx = shape
    yy, xx = np.mgrid[0:ny, 0:nx].astype(float)
    s1 = float(rng.uniform(0.8, 2.5))
    s2 = s1 * float(rng.uniform(0.6, 1.0))
    phi = float(rng.uniform(0, np.pi))
    cp, sp = math.cos(phi), math.sin(phi)
    u = (xx - x0) * cp + (yy - y0) * sp
    v = -(xx - x0) * sp + (yy - y0) * cp
    amp = float(rng.uniform(10, 1000))
    d = amp * np.exp(-0.5 * (u * u / (s1 * s1) + v * v / (s2 * s2)))
    d = d + rng.normal(0, noise * amp, size=shape) * (0.3 if not neg else 1.0)
    return d, amp


def _rand_mask(rng, shape, frac, keep=None):
    m = rng.random(shape) < frac
    if keep is not None:
        m[keep] = False
    return m


def _garbage(rng, data, mask):
    """Copy of data with the masked pixels overwritten by garbage."""
    g = np.array(data, dtype=float, copy=True)
    n = int(mask.sum())
    vals = rng.choice([np.nan, np.inf, -np.inf, 1e30, -1e30, 0.0, 12345.678], size=n)
    vals = np.where(rng.random(n) < 0.5, vals, rng.normal(0, 1e3, size=n))
    g[mask] = vals
    return g


_DECADES = [(-16, 'lt1e-16'), (-8, '1e-16..1e-8'), (-3, '1e-8..1e-3'), (3, '1e-3..1e3'), (8, '1e3..1e8'),
            (16, '1e8..1e16'), (999, 'ge1e16')]


def _bucket(v):
    """Decade bucket of a positive magnitude (for the evidence counters)."""
    if not (v > 0) or not np.isfinite(v):
        return 'zero_or_nonfinite'
    lg = math.log10(v)
    for hi, name in _DECADES:
        if lg < hi:
            return name
    return 'ge1e16'


def _wide_factor(rng):
    """Positive factor spanning ~48 decades: powers of two 2**-80..2**80 (the rescaling itself is then exact)
    or non-dyadic 1e-24..1e24.  Returns (factor, dyadic)."""
    if rng.random() < 0.55:
        return float(2.0 ** int(rng.integers(-80, 81))), True
    return float(10.0 ** rng.uniform(-24.0, 24.0)), False


def _magnitude(case, p_unit=0.45):
    """Overall magnitude of the generated data: 1 (values of order 1..1000) or a wide factor."""
    rng = case.rng
    if rng.random() < p_unit:
        return 1.0
    return _wide_factor(rng)[0]


def _mag_of(data):
    a = np.abs(np.asarray(data, float))
    a = a[np.isfinite(a)]
    return float(a.max()) if a.size else 0.0


def _far(mag, error=None):
    """Magnitudes at which an iterative fit run on the raw values with ABSOLUTE termination tolerances and
    unscaled parameters is affected.  Two numbers matter: the magnitude of the data (amplitude parameter vs
    positions) and the magnitude of data/error (weighted residuals vs the absolute gradient tolerance).
    Judged band (both inside [1e-2, 1e6], where the onset of the effect is not yet visible): measured noise-free
    deviations <= 5e-5 px.  Outside the effect grows gradually (2e-3 px at 1e-3 / 1e8) until centroid_1dg/2dg return
    the initial guess, stall, wander off (up to 1e43 px measured) or raise - see the known finding."""
    if not (1e-2 <= mag <= 1e6):
        return True
    if error is not None:
        e = np.asarray(error, float)
        e = e[np.isfinite(e) & (e > 0)]
        if e.size:
            eff = mag / float(np.median(e))
            return not (1e-2 <= eff <= 1e6)
    return False


def _absdev(case, name, obs, exp):
    """Track the largest ABSOLUTE deviation (pixels) of a tolerance-based comparison."""
    o, e = np.asarray(obs, float), np.asarray(exp, float)
    if o.shape == e.shape:
        f = np.isfinite(o) & np.isfinite(e)
        if f.any():
            case.dev(name + '_abs_px', float(np.max(np.abs(o[f] - e[f]))))


def _com_tol(cond, shape):
    return TOL_COM * max(1.0, cond) * max(1.0, float(max(shape)))


# ----------------------------------------------------------------------
# centroid_com: definition
# ----------------------------------------------------------------------
def _run_com_def(case):
    from photutils.centroids import centroid_com
    rng = case.rng
    r = rng.random()
    if r < 0.1:
        shape = (int(rng.integers(3, 26)),)
    elif r < 0.2:
        shape = tuple(int(v) for v in rng.integers(2, 7, size=3))
    elif r < 0.27:
        shape = (1, int(rng.integers(2, 40))) if rng.random() < 0.5 else (int(rng.integers(2, 40)), 1)
        case.note('axis_shape_1xN')
    else:
        shape = (int(rng.integers(3, 26)), int(rng.integers(3, 26)))
    kind = str(rng.choice(['pos', 'int', 'mixed', 'source', 'nonfinite', 'sparse', 'constant']))
    if kind == 'constant':
        data = np.full(shape, float(rng.choice([1.0, 7.5, 0.0])))
        case.note('axis_degenerate_constant')
    elif kind == 'pos':
        data = rng.uniform(0.0, 10.0, size=shape)
    elif kind == 'int':
        data = rng.integers(0, 6, size=shape)               # integer dtype
    elif kind == 'mixed':
        data = rng.normal(2.0, 2.0, size=shape)
    elif kind == 'sparse':
        data = np.zeros(shape)
        for _ in range(int(rng.integers(1, 4))):
            data[tuple(int(rng.integers(0, s)) for s in shape)] = float(rng.integers(1, 9))
    elif kind == 'source' and len(shape) == 2:
        data, _ = _peaked(rng, shape, rng.uniform(0, shape[1] - 1), rng.uniform(0, shape[0] - 1))
    else:
        data = rng.uniform(0.0, 10.0, size=shape)
        bad = rng.random(shape) < 0.15
        data[bad] = rng.choice([np.nan, np.inf, -np.inf], size=int(bad.sum()))
        kind = 'nonfinite'
    # overall magnitude of the data: the definition does not depend on it
    mag = _magnitude(case)
    if mag != 1.0:
        if np.asarray(data).dtype.kind in 'iu':
            e = int(round(math.log2(mag))) if mag >= 1 else 0
            data = data * (2 ** int(min(max(e, 0), 40)))          # integer dtype: exact, no overflow of the sums
        else:
            data = data * mag
    case.note('data_magnitude_' + _bucket(_mag_of(data)))
    mform = str(rng.choice(['none', 'bool', 'int', 'nomask']))
    mask = None
    if mform in ('bool', 'int'):
        mask = rng.random(shape) < rng.choice([0.1, 0.4, 0.8])
        if rng.random() < 0.05:
            mask[...] = True
            case.note('axis_degenerate_all_masked')
    case.params = dict(fn='centroid_com', shape=list(shape), kind=kind, mask=mform, magnitude=_mag_of(data))
    case.digest = core.arr_digest(data, mask) + 'cd'
    mech = {'cls': case.cls, 'fn': 'centroid_com', 'ndim': len(shape), 'kind': kind}

    exp, cond = ref.com_reference(data, mask)
    d_in = np.array(data, copy=True)
    data = _layout(data)
    with warnings.catch_warnings():
        warnings.simplefilter('ignore')
        if mform == 'none':
            obs = centroid_com(data)
        elif mform == 'nomask':
            obs = centroid_com(data, mask=np.ma.nomask)
        elif mform == 'int':
            obs = centroid_com(data, mask=_layout(mask.astype(int)))
        else:
            obs = centroid_com(data, mask=_layout(mask))
    obs = np.asarray(obs)
    case.check(core.exact(data, d_in), 'inputs_unchanged', mech)
    if not np.isfinite(cond):
        # zero total: the ratio is undefined and the documentation is silent; a number would be wrong.
        # (observed, not judged: the library then returns 2 NaNs whatever the dimension of the input)
        exact_sum = np.asarray(data).dtype.kind in 'iu' or not np.any(np.where(
            np.isfinite(np.asarray(data, float)) & (~mask if mask is not None else True), np.asarray(data, float), 0))
        if exact_sum:
            case.check(bool(np.all(~np.isfinite(obs))), 'com_zero_total_not_a_number', mech, obs=obs)
        else:
            case.note('com_zero_total_of_rounded_floats_not_judged')   # the library's rounded sum need not be 0
        if obs.shape != (len(shape),):
            case.note('com_zero_total_returns_2_values_for_ndim_not_2')
        return
    case.check(obs.shape == (len(shape),), 'com_shape', mech, shape=list(obs.shape))
    if cond > 1e6:
        case.note('com_ill_conditioned')
        return
    good = np.isfinite(np.asarray(data, float)) & (~mask if mask is not None else True)
    case.nontrivial = int(np.count_nonzero(np.where(good, np.asarray(data, float), 0))) >= 2
    _absdev(case, 'com_vs_definition', obs, exp)
    if np.all(np.isfinite(obs)) and np.all(np.isfinite(exp)):
        case.dev('com_vs_definition_abs_over_cond_times_size', float(np.max(np.abs(obs - exp))) / (cond * max(shape)))
    case.close(obs, exp, 'com_vs_definition', atol=_com_tol(cond, shape), mech=mech, cond=cond)


# ----------------------------------------------------------------------
# relations shared by all centroid functions
# ----------------------------------------------------------------------
def _transform_kw(kw, t, shape):
    """Keyword arguments of the transformed call."""
    ny, nx = shape
    out = {}
    for k, v in kw.items():
        if isinstance(v, np.ndarray) and v.shape == shape:
            out[k] = {'ud': np.flipud, 'lr': np.fliplr, 'T': np.transpose}[t](v).copy()
        elif k in ('fit_boxsize', 'search_boxsize') and t == 'T' and not np.isscalar(v):
            out[k] = (v[1], v[0])
        else:
            out[k] = v
    if 'xpeak' in kw and kw['xpeak'] is not None:
        x, y = kw['xpeak'], kw['ypeak']
        if t == 'ud':
            out['ypeak'] = ny - 1 - y
        elif t == 'lr':
            out['xpeak'] = nx - 1 - x
        else:
            out['xpeak'], out['ypeak'] = y, x
    return out


def _feasible_dtypes(data):
    """Narrow / unsigned dtypes that hold the (integer-valued) finite values of the image exactly."""
    a = np.asarray(data, float)
    fin = a[np.isfinite(a)]
    if fin.size == 0 or not np.all(fin == np.round(fin)):
        return []
    lo, hi = float(fin.min()), float(fin.max())
    out = []
    if fin.size == a.size:
        for name in ('uint8', 'uint16', 'uint32', 'uint64', 'int8', 'int16', 'int32', 'int64'):
            info = np.iinfo(name)
            if lo >= info.min and hi <= info.max:
                out.append(name)
    if max(abs(lo), abs(hi)) < 2 ** 24:
        out.append('float32')
    if max(abs(lo), abs(hi)) <= 2048 and np.all(np.isfinite(a)):
        out.append('float16')
    return out


def _maybe_counts(case, data, mag, p=0.25):
    """With probability p (plain magnitude only) turn the image into non-negative integer counts so that it can also
    be handed over in narrow / unsigned dtypes."""
    if mag == 1.0 and case.rng.random() < p:
        case.note('axis2_dtype_integer_valued_image')
        with np.errstate(invalid='ignore'):
            return np.where(np.isfinite(data), np.clip(np.rint(data), 0, None), data)
    return data


def _classify_1dg_flip(data, kw, t, base, obs, exp):
    """Classification only (never a verdict) of a failed flip relation of centroid_1dg.

    Harness-side replica of the marginal problem of the flipped axis (masked sums, weights 1/sqrt(sum error^2)),
    its own multi-start least-squares fit (global minimum) and the signed-moment width that seeds the library's
    fit.  Returns True when (a) the moment width is below half a pixel (a start narrower than the sampling: the
    model touches a single sample), and (b) exactly one of the two orientations ended at the global minimum
    while the other stopped elsewhere - i.e. the mechanism of the known finding, not an orientation-dependent
    code path (which would move BOTH results or leave the global minimum in neither/both)."""
    from scipy.optimize import least_squares
    try:
        ax = 1 if t == 'ud' else 0            # ud flips y: marginal over x
        comp = 1 if t == 'ud' else 0          # component of the (x, y) result that is affected
        d = np.asarray(data, float)
        bad = ~np.isfinite(d)
        if kw.get('mask') is not None:
            bad |= np.asarray(kw['mask'], bool)
        err = kw.get('error')
        if err is not None:
            bad |= ~np.isfinite(np.asarray(err, float))
        y = np.where(bad, 0.0, d).sum(axis=ax)
        if err is not None:
            e2 = np.where(bad, 0.0, np.asarray(err, float) ** 2).sum(axis=ax)
            w = 1.0 / np.sqrt(np.clip(e2, 1e-60, None))
        else:
            w = np.ones(y.size)
        w[bad.all(axis=ax)] = 0.0
        y = y / np.max(np.abs(y))
        w = w / np.max(w)
        x = np.arange(y.size, dtype=float)
        mu = np.sum(x * y) / np.sum(y)
        width = math.sqrt(abs(np.sum(y * (x - mu) ** 2) / np.sum(y)))

        def res(p):
            return w * (p[0] * np.exp(-0.5 * ((x - p[1]) / p[2]) ** 2) - y)
        best = None
        for s0 in (0.5, 1.0, 2.0, 3.0):
            for m0 in (float(np.argmax(np.where(w > 0, y, -np.inf))), mu):
                r = least_squares(res, [1.0, m0, s0], bounds=([-np.inf, -np.inf, 1e-3], np.inf),
                                  xtol=1e-13, ftol=1e-13, gtol=1e-13)
                if best is None or r.cost < best.cost:
                    best = r
        gmin = best.x[1]
        n = y.size - 1
        base_at = abs(base[comp] - gmin) < 1e-3
        # the flipped call: its result mapped back to the unflipped frame
        back = (n - obs[comp])
        obs_at = abs(back - gmin) < 1e-3
        return bool(width < 0.5 and (base_at != obs_at))
    except Exception:  # noqa: BLE001
        return False


def _relations(case, func, fname, data, kw, tol, mech, scale_error=True, scale_tol=None, scale_verdict=True):
    """flipud / fliplr / transpose / positive rescale, each vs the base call.
    Comparisons in which the library itself warned that an iterative fit did not converge are
    counted, not judged (the end point of an unconverged iteration is not a function of the source)."""
    rng = case.rng
    ny, nx = data.shape
    log = []
    base = _call(func, data, _log=log, **kw)
    n = 0
    for t in ('ud', 'lr', 'T'):
        d2 = {'ud': np.flipud, 'lr': np.fliplr, 'T': np.transpose}[t](data).copy()
        obs = _call(func, d2, _log=log, **_transform_kw(kw, t, data.shape))
        if log[0] or log[-1]:
            case.note('fit_not_converged_relation_not_judged')
            continue
        if t == 'ud':
            exp = np.array([base[0], ny - 1 - base[1]])
        elif t == 'lr':
            exp = np.array([nx - 1 - base[0], base[1]])
        else:
            exp = base[::-1]
        m = dict(mech, rel=t)
        if fname.startswith('gauss'):
            m['far_scale'] = _far(_mag_of(data), kw.get('error'))
            if not m['far_scale']:
                _absdev(case, f'{fname}_commutes_with_flip_transpose_moderate_scale', obs, exp)
        _absdev(case, f'{fname}_commutes_with_flip_transpose', obs, exp)
        if fname == 'gauss1dg' and t in ('ud', 'lr') and not core.same(obs, exp, atol=tol)[0]:
            m['explained_by_degenerate_initial_width'] = _classify_1dg_flip(data, kw, t, base, obs, exp)
        case.close(obs, exp, f'{fname}_commutes_with_flip_transpose', atol=tol, mech=m, base=base)
        n += 1
    # (xi) a caller-owned all-False mask is the same as no mask
    if kw.get('mask') is None and rng.random() < 0.3:
        obs = _call(func, data, _log=log, **dict(kw, mask=np.zeros(data.shape, bool)))
        case.close(obs, base, f'{fname}_all_false_mask_equals_no_mask', mech=mech)
        case.note('axis2_setlike_mask_all_false')
        n += 1
    # (vii) the same numbers in a narrow / unsigned dtype
    feas = _feasible_dtypes(data)
    if feas and not log[0]:
        dt = str(rng.choice(feas))
        case.note('axis2_dtype_image_' + dt)
        obs = _call(func, np.asarray(data).astype(dt), _log=log, **kw)
        if not log[-1]:
            md = dict(mech, dtype=dt)
            if fname.startswith('gauss'):
                md['far_scale'] = _far(_mag_of(data), kw.get('error'))
            tol_d = tol
            if dt in ('float16', 'float32'):
                # the library may compute in the input's precision: the documentation promises no more
                tol_d = max(tol, 64 * float(np.finfo(dt).eps))
                _absdev(case, f'{fname}_same_result_for_{dt}', obs, base)
            else:
                _absdev(case, f'{fname}_same_result_for_integer_dtype', obs, base)
                if dt in ('int64', 'uint64', 'int32', 'uint32'):
                    # classification only: would first moments accumulated in a 64-bit integer overflow?
                    a_ = np.abs(np.asarray(data, float))
                    md['int64_moment_sum_overflows'] = bool(np.nansum(a_) * max(data.shape) >= 2.0 ** 63)
            case.close(obs, base, f'{fname}_same_result_for_narrow_dtype', atol=tol_d, mech=md)
            n += 1
    if rng.random() < 0.35:
        k, dyadic = float(rng.choice([2.0, 0.5, 10.0, 1e3, 3.7, 1e-3, 1.0 / 3.0])), False
        dyadic = k in (2.0, 0.5)
    else:
        k, dyadic = _wide_factor(rng)
    mag0 = _mag_of(data)
    # keep the product inside the range in which squares of the data cannot overflow/underflow
    if mag0 > 0 and not (1e-60 < mag0 * k < 1e60):
        k = 1.0 / k
    mag1 = mag0 * k
    case.note('rescale_factor_' + _bucket(k))
    case.note('rescaled_data_magnitude_' + _bucket(mag1))
    kw2 = dict(kw)
    if 'error' in kw and kw['error'] is not None and scale_error:
        emin = float(np.nanmin(kw['error'])) * k
        if 1e-28 < emin < 1e60:            # the library clips errors at the absolute value 1e-30 (documented nowhere)
            kw2['error'] = kw['error'] * k
        else:
            scale_error = False
    ms = dict(mech, rel='scale', pow2=bool(dyadic), err_scaled=bool(scale_error and 'error' in kw2),
              far_scale=bool(_far(mag0, kw.get('error')) or _far(mag1, kw2.get('error'))))
    try:
        obs = _call(func, np.asarray(data, float) * k, _log=log, **kw2)
    except _FitBlowUp as exc:
        # the fitter of the library blew up on the rescaled copy of an input it handled
        case.check(False, f'{fname}_invariant_under_positive_rescale', dict(ms, raised='ValueError'), k=k,
                   msg=str(exc)[:120], magnitude=mag1)
        return base, n + 1
    if log[0] or log[-1]:
        case.note('fit_not_converged_relation_not_judged')
        return base, n
    if scale_verdict:
        _absdev(case, f'{fname}_invariant_under_positive_rescale', obs, base)
        if fname.startswith('gauss') and np.all(np.isfinite(obs)) and np.all(np.isfinite(base)):
            case.dev(f'{fname}_rescale_abs_px_' + ('far_scale' if ms['far_scale'] else 'moderate_scale'),
                     float(np.max(np.abs(obs - base))))
        case.close(obs, base, f'{fname}_invariant_under_positive_rescale', atol=tol if scale_tol is None else scale_tol,
                   mech=ms, k=k, magnitude_base=mag0, magnitude_scaled=mag1)
        n += 1
    else:
        ok = bool(np.all(np.isfinite(obs) == np.isfinite(base)))
        if ok and np.all(np.isfinite(obs)):
            case.dev(f'{fname}_rescale_noisy_source_not_judged_' + ('far_scale' if ms['far_scale'] else 'moderate_scale'),
                     float(np.max(np.abs(obs - base))))
        case.note('rescale_on_noisy_gauss_fit_recorded_only')
    return base, n


def _masked_irrelevant(case, func, fname, data, mask, kw, mech, base=None):
    rng = case.rng
    if mask is None or not mask.any():
        return 0
    if base is None:
        base = _call(func, data, mask=mask, **kw)
    g = _garbage(rng, data, mask)
    kw2 = dict(kw)
    if kw.get('error') is not None and rng.random() < 0.5:
        kw2['error'] = _garbage(rng, kw['error'], mask)
        mech = dict(mech, err_garbage=True)
    obs = _call(func, g, mask=mask, **kw2)
    case.close(obs, base, f'{fname}_ignores_masked_values', mech=mech, base=base)
    return 1


def _run_com_rel(case):
    from photutils.centroids import centroid_com
    rng = case.rng
    shape = (int(rng.integers(3, 26)), int(rng.integers(3, 26)))
    kind = str(rng.choice(['pos', 'source', 'mixed']))
    if kind == 'pos':
        data = rng.uniform(0, 10, size=shape)
    elif kind == 'mixed':
        data = rng.normal(3.0, 2.0, size=shape)
    else:
        data, _ = _peaked(rng, shape, rng.uniform(0, shape[1] - 1), rng.uniform(0, shape[0] - 1))
    mag_ = _magnitude(case)
    data = _maybe_counts(case, data * mag_, mag_)
    case.note('data_magnitude_' + _bucket(_mag_of(data)))
    mask = _rand_mask(rng, shape, float(rng.choice([0.05, 0.3]))) if rng.random() < 0.7 else None
    if rng.random() < 0.3:
        bad = rng.random(shape) < 0.05
        data[bad] = np.nan
    case.params = dict(fn='centroid_com', shape=list(shape), kind=kind, masked=mask is not None,
                       magnitude=_mag_of(data))
    case.digest = core.arr_digest(data, mask) + 'cr'
    mech = {'cls': case.cls, 'fn': 'centroid_com'}
    _, cond = ref.com_reference(data, mask)
    if not np.isfinite(cond) or cond > 1e6:
        case.skip('ill-conditioned total')
    kw = {} if mask is None else {'mask': mask}
    base, n = _relations(case, centroid_com, 'com', data, kw, _com_tol(cond, shape), mech)
    if mask is not None:
        n += _masked_irrelevant(case, centroid_com, 'com', data, mask, {}, mech, base)
    case.nontrivial = n > 0


# ----------------------------------------------------------------------
# centroid_quadratic on exactly quadratic data
# ----------------------------------------------------------------------
def _pick_boxsize(rng, shape, lo=3):
    ny, nx = shape
    odd = [s for s in (3, 5, 7) if s >= lo]
    if rng.random() < 0.6:
        c = [s for s in odd if s <= min(ny, nx)]
        return int(rng.choice(c)) if c else 3
    cy = [s for s in odd if s <= ny]
    cx = [s for s in odd if s <= nx]
    return (int(rng.choice(cy)), int(rng.choice(cx)))


def _as_pair(v):
    return (v, v) if np.isscalar(v) else tuple(v)


def _run_quad_exact(case):
    from photutils.centroids import centroid_quadratic
    rng = case.rng
    shape = (int(rng.integers(5, 26)), int(rng.integers(5, 26)))
    ny, nx = shape
    surf = str(rng.choice(['max'] * 8 + ['saddle', 'min']))
    # vertex: mostly inside, sometimes on exact halves (ties), sometimes outside the image
    def coord(n):
        r = rng.random()
        if r < 0.1:
            return float(rng.choice([-1.3, -0.4, n - 0.6, n + 0.3]))
        if r < 0.25:
            return float(rng.integers(0, 2 * n - 1)) / 2.0
        return float(rng.uniform(0.0, n - 1.0))
    x0, y0 = coord(nx), coord(ny)
    lam1, lam2 = float(rng.uniform(0.05, 2.0)), float(rng.uniform(0.05, 2.0))
    if surf == 'saddle':
        lam2 = -lam2
    elif surf == 'min':
        lam1, lam2 = -lam1, -lam2
    amp = float(rng.uniform(-10, 1000))
    mag = _magnitude(case)
    amp, lam1, lam2 = amp * mag, lam1 * mag, lam2 * mag        # the whole surface scaled; the vertex stays
    data = ref.quadratic_surface(shape, x0, y0, amp, lam1, lam2, float(rng.uniform(0, np.pi)))
    case.note('data_magnitude_' + _bucket(_mag_of(data)))
    mask = None
    if rng.random() < 0.5:
        mask = _rand_mask(rng, shape, float(rng.choice([0.05, 0.15, 0.35])))
    if rng.random() < 0.25:
        bad = rng.random(shape) < 0.08
        data[bad] = rng.choice([np.nan, np.inf, -np.inf], size=int(bad.sum()))
    fit = _pick_boxsize(rng, shape)
    kw = {'fit_boxsize': fit}
    use_peak = rng.random() < 0.45
    if use_peak:
        xpk = float(np.clip(x0 + rng.uniform(-2.5, 2.5), 0, nx - 1))
        ypk = float(np.clip(y0 + rng.uniform(-2.5, 2.5), 0, ny - 1))
        if rng.random() < 0.3:
            xpk, ypk = float(round(xpk)), float(round(ypk))
        if rng.random() < 0.15:
            xpk = float(min(nx - 1, math.floor(xpk) + 0.5))          # exact half: rounding rule
        kw.update(xpeak=xpk, ypeak=ypk)
        if rng.random() < 0.5:
            kw['search_boxsize'] = _pick_boxsize(rng, shape)
    if mask is not None:
        kw['mask'] = mask
    good = np.isfinite(data) & (~mask if mask is not None else True)
    if not good.any():
        case.skip('no usable pixel')
    case.params = dict(fn='centroid_quadratic', shape=list(shape), surf=surf, vertex=[x0, y0], magnitude=_mag_of(data),
                       kw={k: v for k, v in kw.items() if k != 'mask'}, masked=mask is not None)
    case.digest = core.arr_digest(data, mask) + core.digest(['qe', sorted((k, str(v)) for k, v in kw.items() if k != 'mask')])[:6]
    mech = {'cls': case.cls, 'fn': 'centroid_quadratic', 'surf': surf, 'peak_kw': use_peak,
            'search': 'search_boxsize' in kw, 'masked': mask is not None}

    start, gap = ref.quad_start_pixel(data, mask, kw.get('xpeak'), kw.get('ypeak'), kw.get('search_boxsize'))
    if start is None:
        case.skip('no usable pixel in the search box')
    obs = _call(centroid_quadratic, data, **kw)
    case.check(obs.shape == (2,), 'quad_shape', mech)
    vertex = np.array([x0, y0])
    with np.errstate(invalid='ignore'):
        at_vertex = bool(np.all(np.abs(obs - vertex) <= max(TOL_QUAD, 2e-12 * float(np.max(np.abs(data[good])))
                                                            / min(abs(lam1), abs(lam2)))))
    is_nan = bool(np.all(np.isnan(obs)))

    def weak(extra_ok=False):
        """Outcome left open by the documentation: still, the answer may only be the
        vertex, NaN or (where stated) the start pixel - never another number."""
        ok = at_vertex or is_nan or extra_ok
        case.check(ok, 'quad_exact_open_outcome_is_vertex_or_nan', mech, obs=obs, vertex=vertex)

    if gap <= 1e-9 * _mag_of(data):
        case.note('quad_start_tie')
        pix_ok = bool(np.all(obs == np.round(obs))) and (obs[0] in (0, nx - 1) or obs[1] in (0, ny - 1))
        weak(extra_ok=pix_ok)
        return
    sy, sx = start
    on_edge = sx in (0, nx - 1) or sy in (0, ny - 1)
    if on_edge:
        pix = np.array([float(sx), float(sy)])
        if not use_peak:
            # documented: maximum at the edge -> position of the maximum pixel, no fit
            case.nontrivial = True
            case.close(obs, pix, 'quad_edge_maximum_returns_pixel', mech=mech, start=[sx, sy])
        else:
            case.note('quad_edge_start_from_peak_kw')
            weak(extra_ok=bool(np.all(obs == pix)))
        return
    fp = _as_pair(fit)
    box = ref.trim_box(shape, fp, (sy, sx))
    clipped = (box[1] - box[0]) < fp[0] or (box[3] - box[2]) < fp[1]
    nuse = int(good[box[0]:box[1], box[2]:box[3]].sum())
    if nuse < 6:
        if clipped:
            case.note('quad_clipped_box_few_points')
            weak()
        else:
            case.nontrivial = True
            case.check(is_nan, 'quad_fewer_than_6_points_gives_nan', mech, obs=obs, nuse=nuse)
        return
    if ref.box_rank(data, mask, box) < 6:
        case.note('quad_rank_deficient_box')
        return
    if surf != 'max':
        case.nontrivial = True
        case.check(is_nan, 'quad_no_maximum_gives_nan', mech, obs=obs)
        return
    margin = 1e-6
    inside_img = (margin < x0 < nx - 1 - margin) and (margin < y0 < ny - 1 - margin)
    outside_img = (x0 < -margin or x0 > nx - 1 + margin or y0 < -margin or y0 > ny - 1 + margin)
    in_box = (box[2] - 0.5 <= x0 <= box[3] - 0.5) and (box[0] - 0.5 <= y0 <= box[1] - 0.5)
    if outside_img:
        case.nontrivial = True
        case.check(is_nan, 'quad_vertex_outside_image_gives_nan', mech, obs=obs, vertex=vertex)
    elif inside_img and in_box:
        case.nontrivial = True
        # rounding of the least-squares solution grows with |data| / curvature (measured: <= 8e-15 of that ratio)
        ratio = float(np.max(np.abs(data[good]))) / min(abs(lam1), abs(lam2))
        tolv = max(TOL_QUAD, 2e-12 * ratio)
        _absdev(case, 'quad_exact_vertex', obs, vertex)
        if np.all(np.isfinite(obs)):
            case.dev('quad_exact_vertex_abs_over_data_to_curvature_ratio', float(np.max(np.abs(obs - vertex))) / ratio)
        case.close(obs, vertex, 'quad_exact_vertex', atol=tolv, mech=mech, start=[sx, sy], box=list(box))
    else:
        case.note('quad_vertex_outside_fit_box')
        weak()


# ----------------------------------------------------------------------
# centroid_quadratic relations
# ----------------------------------------------------------------------
def _quad_guard(case, data, mask, kw):
    """Inputs on which the relations are well defined: unique start pixel, full-rank fit box."""
    start, gap = ref.quad_start_pixel(data, mask, kw.get('xpeak'), kw.get('ypeak'), kw.get('search_boxsize'))
    if start is None or gap <= 1e-7 * float(np.nanmax(np.abs(np.where(np.isfinite(data), data, 0)))):
        case.skip('quadratic start pixel tie')
    sy, sx = start
    ny, nx = data.shape
    if sx in (0, nx - 1) or sy in (0, ny - 1):
        return 'edge'
    fp = _as_pair(kw.get('fit_boxsize', 5))
    fp = (min(fp[0], ny), min(fp[1], nx))
    box = ref.trim_box(data.shape, fp, (sy, sx))
    if ref.box_rank(data, mask, box) < 6:
        case.skip('rank deficient fit box')
    return 'fit'


def _run_quad_rel(case):
    from photutils.centroids import centroid_quadratic
    rng = case.rng
    shape = (int(rng.integers(5, 26)), int(rng.integers(5, 26)))
    ny, nx = shape
    x0, y0 = float(rng.uniform(0.5, nx - 1.5)), float(rng.uniform(0.5, ny - 1.5))
    r = rng.random()
    if r < 0.1:
        x0 = float(rng.choice([0.1, nx - 1.1]))                 # maximum on the edge: no fit
    elif r < 0.35:
        # maximum one pixel from an edge: a 5- or 7-pixel fit box is clipped there
        x0 = float(rng.choice([1.0, nx - 2.0]) + rng.uniform(-0.3, 0.3))
        if rng.random() < 0.5:
            y0 = float(rng.choice([1.0, ny - 2.0]) + rng.uniform(-0.3, 0.3))
    data, amp = _peaked(rng, shape, x0, y0, noise=float(rng.choice([0.0, 0.01, 0.05])))
    mag_ = _magnitude(case)
    data = _maybe_counts(case, data * mag_, mag_)
    case.note('data_magnitude_' + _bucket(_mag_of(data)))
    mask = None
    if rng.random() < 0.6:
        mask = _rand_mask(rng, shape, float(rng.choice([0.03, 0.1, 0.25])))
    if rng.random() < 0.2:
        data[rng.random(shape) < 0.04] = np.nan
    kw = {'fit_boxsize': _pick_boxsize(rng, shape)}
    if rng.random() < 0.4:
        # not on exact halves: the documented rounding is not mirror symmetric there
        kw['xpeak'] = float(np.clip(round(x0 + rng.uniform(-1.5, 1.5)) + rng.choice([-0.3, 0.0, 0.2, 0.4]), 0, nx - 1))
        kw['ypeak'] = float(np.clip(round(y0 + rng.uniform(-1.5, 1.5)) + rng.choice([-0.3, 0.0, 0.2, 0.4]), 0, ny - 1))
        if rng.random() < 0.5:
            kw['search_boxsize'] = _pick_boxsize(rng, shape)
    case.params = dict(fn='centroid_quadratic', shape=list(shape), kw=dict(kw), masked=mask is not None)
    case.digest = core.arr_digest(data, mask) + core.digest(['qr', sorted((k, str(v)) for k, v in kw.items())])[:6]
    mech = {'cls': case.cls, 'fn': 'centroid_quadratic', 'peak_kw': 'xpeak' in kw, 'search': 'search_boxsize' in kw}
    mode = _quad_guard(case, data, mask, kw)
    # the transformed inputs have the mirrored start pixel; a search box that is clipped by the
    # edge stays a mirror image, so no further guard is needed
    kwm = dict(kw)
    if mask is not None:
        kwm['mask'] = mask
    base, n = _relations(case, centroid_quadratic, 'quadratic', data, kwm, TOL_QUAD_REL, dict(mech, mode=mode))
    if mask is not None:
        n += _masked_irrelevant(case, centroid_quadratic, 'quadratic', data, mask, kw, mech, base)
    # documented start of the fit: the maximum of the data (no peak keywords), the maximum inside the search
    # box around (xpeak, ypeak), or the pixel of (xpeak, ypeak): equal to giving that pixel explicitly
    start, _ = ref.quad_start_pixel(data, mask, kw.get('xpeak'), kw.get('ypeak'), kw.get('search_boxsize'))
    kwe = {'fit_boxsize': kw['fit_boxsize'], 'xpeak': float(start[1]), 'ypeak': float(start[0])}
    if mask is not None:
        kwe['mask'] = mask
    obs = _call(centroid_quadratic, data, **kwe)
    case.close(obs, base, 'quadratic_start_pixel_as_documented', mech=dict(mech, mode=mode), start=[start[1], start[0]])
    # count-like arguments as numpy signed / unsigned integer scalars: equal to the Python-int call
    for arg in ('fit_boxsize', 'search_boxsize'):
        if isinstance(kw.get(arg), int):
            form = str(rng.choice(['uint8', 'uint16', 'uint64', 'int16', 'intp']))
            case.note('axis3_count_form_' + arg + '_' + form)
            kwc = dict(kw, **{arg: getattr(np, form)(kw[arg])})
            if mask is not None:
                kwc['mask'] = mask
            mc = dict(mech, arg=arg, count_form='unsigned' if form.startswith('u') else 'signed')
            try:
                obs = _call(centroid_quadratic, data, **kwc)
                case.close(obs, base, 'quadratic_count_like_numpy_scalar_equals_int', mech=mc)
            except ValueError as exc:
                if 'must have integer values' not in str(exc):
                    raise
                case.check(False, 'quadratic_count_like_numpy_scalar_equals_int', dict(mc, raised='ValueError'),
                           msg=str(exc)[:100])
    case.nontrivial = n > 0 and mode == 'fit'


# ----------------------------------------------------------------------
# point-symmetric sources, every function
# ----------------------------------------------------------------------
def _run_sym(case):
    from photutils.centroids import centroid_1dg, centroid_2dg, centroid_com, centroid_quadratic
    rng = case.rng
    fname = str(rng.choice(['com'] * 4 + ['quadratic'] * 4 + ['1dg', '2dg']))
    if case.tier == 'thorough':
        fname = str(rng.choice(['com', 'quadratic', '1dg', '2dg']))
    func = {'com': centroid_com, 'quadratic': centroid_quadratic, '1dg': centroid_1dg, '2dg': centroid_2dg}[fname]
    lo = 7 if fname in ('1dg', '2dg') else 3
    shape = (int(rng.integers(lo, 26)), int(rng.integers(lo, 26)))
    ny, nx = shape
    whole = rng.random() < 0.4
    if fname == 'quadratic':
        fit = _pick_boxsize(rng, shape)
        fp = _as_pair(fit)
        hy, hx = fp[0] // 2, fp[1] // 2
        if ny < 2 * hy + 1 or nx < 2 * hx + 1 or ny - 1 - hy < hy or nx - 1 - hx < hx:
            case.skip('box does not fit')
        lo_y, hi_y = max(1, hy), min(ny - 2, ny - 1 - hy)
        lo_x, hi_x = max(1, hx), min(nx - 2, nx - 1 - hx)
        if hi_y < lo_y or hi_x < lo_x:
            case.skip('box does not fit')
        cy, cx = float(rng.integers(lo_y, hi_y + 1)), float(rng.integers(lo_x, hi_x + 1))
    elif whole:
        cx, cy = (nx - 1) / 2.0, (ny - 1) / 2.0
    else:
        # centre on a pixel centre or a pixel corner/edge, inside the central part
        cx = float(rng.integers(2 * (nx // 3), 2 * (nx - nx // 3) - 1)) / 2.0
        cy = float(rng.integers(2 * (ny // 3), 2 * (ny - ny // 3) - 1)) / 2.0
    kind = str(rng.choice(['gauss', 'moffat']))
    data = ref.symmetric_source(rng, shape, cx, cy, kind=kind, perturb=float(rng.choice([0.0, 0.05])))
    mag = _magnitude(case)
    data = data * mag                              # exact symmetry is kept (every pixel times the same number)
    case.note('data_magnitude_' + _bucket(_mag_of(data)))
    _, _, has = ref.mirror_index(shape, cx, cy)
    if fname != 'quadratic':
        data = np.where(has, data, 0.0)            # a source whose every pixel has its mirror image
    if rng.random() < 0.3 and fname in ('com', 'quadratic'):
        data = data + float(rng.uniform(0, 5)) * mag * has   # symmetric pedestal
    mask = None
    if rng.random() < 0.5:
        mask = ref.symmetrize_mask(_rand_mask(rng, shape, float(rng.choice([0.03, 0.1]))), cx, cy)
        if fname == 'quadratic':
            mask[int(cy), int(cx)] = False
        if fname != 'quadratic':
            mask = mask & has          # pixels without mirror image hold 0 anyway
    kw = {}
    if fname in ('1dg', '2dg') and rng.random() < 0.5:
        kw['error'] = ref.symmetrize_field(1.0 + rng.uniform(0, 1, size=shape) + 0.05 * np.abs(np.arange(nx) - cx)[None, :], cx, cy)
        if rng.random() < 0.5:
            kw['error'] = kw['error'] * mag
    if fname == 'quadratic':
        kw['fit_boxsize'] = fit
    if fname != 'quadratic' and not whole and (fname in ('1dg', '2dg') or rng.random() < 0.5):
        # pixels without mirror image carry no flux, but for a FIT the zero-valued pixels (and their
        # error values) are data: the input is point-symmetric only if they are masked
        mask = ~has if mask is None else (mask | ~has)
    if mask is not None:
        kw['mask'] = mask
    case.params = dict(fn=fname, shape=list(shape), centre=[cx, cy], kind=kind, masked=mask is not None,
                       error='error' in kw, magnitude=_mag_of(data))
    case.digest = core.arr_digest(data, mask, kw.get('error')) + 'sy' + fname
    mech = {'cls': case.cls, 'fn': fname, 'half_pixel_centre': bool((2 * cx) % 2 or (2 * cy) % 2)}
    good = np.isfinite(data) & (~mask if mask is not None else True)
    centre = np.array([cx, cy])
    if fname == 'com':
        _, cond = ref.com_reference(data, mask)
        if not np.isfinite(cond) or cond > 1e3:
            case.skip('ill-conditioned total')
        obs = _call(func, data, **kw)
        case.nontrivial = True
        _absdev(case, 'com_symmetric_source_centre', obs, centre)
        case.close(obs, centre, 'com_symmetric_source_centre', atol=TOL_SYM_COM * cond, mech=mech)
    elif fname == 'quadratic':
        start, gap = ref.quad_start_pixel(data, mask)
        if start != (int(cy), int(cx)) or gap <= 0:
            case.skip('maximum not unique at the centre')
        box = ref.trim_box(shape, fp, (int(cy), int(cx)))
        if ref.box_rank(data, mask, box) < 6:
            case.skip('rank deficient fit box')
        # the symmetry of the source only has to hold inside the documented fit box
        obs = _call(func, data, **kw)
        partial = not bool(good[box[0]:box[1], box[2]:box[3]].all())
        if partial and bool(np.all(np.isnan(obs))):
            # documented failure ("quadratic fit does not have a maximum"): possible when only part of the
            # box is usable
            case.note('quadratic_symmetric_partial_box_nan')
            return
        case.nontrivial = True
        _absdev(case, 'quadratic_symmetric_source_centre', obs, centre)
        case.close(obs, centre, 'quadratic_symmetric_source_centre', atol=TOL_QUAD, mech=dict(mech, partial_box=partial),
                   box=list(box))
    else:
        if int(good.sum()) < 12:
            case.skip('too few pixels')
        log = []
        obs = _call(func, data, _log=log, **kw)
        if log[0]:
            case.note('fit_not_converged_symmetry_not_judged')
            return
        case.nontrivial = True
        far = _far(_mag_of(data), kw.get('error'))
        if not far:
            _absdev(case, f'gauss{fname}_symmetric_source_centre_moderate_scale', obs, centre)
        _absdev(case, f'gauss{fname}_symmetric_source_centre', obs, centre)
        case.close(obs, centre, f'gauss{fname}_symmetric_source_centre', atol=TOL_SYM_GAUSS,
                   mech=dict(mech, error='error' in kw, masked=mask is not None, far_scale=far))


# ----------------------------------------------------------------------
# Gaussian-fit centroids: relations
# ----------------------------------------------------------------------
def _run_gauss_rel(case):
    from photutils.centroids import centroid_1dg, centroid_2dg
    rng = case.rng
    fname = str(rng.choice(['1dg', '2dg']))
    func = centroid_1dg if fname == '1dg' else centroid_2dg
    shape = (int(rng.integers(7, 22)), int(rng.integers(7, 22)))
    ny, nx = shape
    x0 = float(rng.uniform(nx * 0.3, nx * 0.7))
    y0 = float(rng.uniform(ny * 0.3, ny * 0.7))
    noise = float(rng.choice([0.0, 0.0, 0.01, 0.03]))
    data, amp = _peaked(rng, shape, x0, y0, noise=noise)
    mag = _magnitude(case, p_unit=0.6)
    data = _maybe_counts(case, data * mag, mag)
    case.note('data_magnitude_' + _bucket(_mag_of(data)))
    which = int(rng.integers(0, 3)) if case.tier == 'quick' else 3
    mask = _rand_mask(rng, shape, float(rng.choice([0.03, 0.1]))) if (rng.random() < 0.6 or which in (1, 2)) else None
    kw = {}
    if rng.random() < 0.5:
        yy, xx = np.mgrid[0:ny, 0:nx]
        kw['error'] = (1.0 + 0.1 * xx + 0.05 * yy + rng.uniform(0, 0.5, size=shape)) * (mag if rng.random() < 0.7 else 1.0)
    case.params = dict(fn=fname, shape=list(shape), masked=mask is not None, error='error' in kw,
                       magnitude=_mag_of(data))
    case.digest = core.arr_digest(data, mask, kw.get('error')) + 'gr' + fname
    mech = {'cls': case.cls, 'fn': fname, 'error': 'error' in kw, 'masked': mask is not None}
    kwm = dict(kw)
    if mask is not None:
        kwm['mask'] = mask
    n = 0
    base = None
    if which in (0, 3):
        base, n = _relations(case, func, 'gauss' + fname, data, kwm, TOL_REL_GAUSS, dict(mech, noise_free=noise == 0.0),
                             scale_error=bool(rng.random() < 0.5), scale_tol=TOL_SCALE_GAUSS,
                             scale_verdict=noise == 0.0)
    if mask is not None and which in (1, 3):
        n += _masked_irrelevant(case, func, 'gauss' + fname, data, mask, kw, mech, base)
    if which in (2, 3):
        # MaskedArray input with the same mask == mask keyword (the functions accept masked arrays)
        if mask is not None:
            b = base if base is not None else _call(func, data, **kwm)
            with warnings.catch_warnings():
                warnings.simplefilter('ignore')
                kw2 = {k: _layout(v) for k, v in kw.items()}
                marr = np.ma.MaskedArray(_layout(data), _layout(mask))
                m_before = np.ma.getmaskarray(marr).copy()
                obs = np.asarray(func(marr, **kw2))
                obs2 = np.asarray(func(marr, **kw2))          # (x) the same object asked a second time
            case.close(obs, b, f'gauss{fname}_maskedarray_equals_mask_kw', mech=mech)
            case.close(obs2, obs, f'gauss{fname}_same_maskedarray_second_call_identical', mech=mech)
            case.check(bool(np.array_equal(np.ma.getmaskarray(marr), m_before)),
                       f'gauss{fname}_maskedarray_mask_unmodified', mech)
            case.note('axis2_provenance_maskedarray_reused')
            n += 1
    case.nontrivial = n > 0
    if n == 0:
        case.skip('no relation applicable')


# ----------------------------------------------------------------------
# centroid_sources
# ----------------------------------------------------------------------
def _scene(rng):
    ny, nx = int(rng.integers(30, 61)), int(rng.integers(30, 71))
    yy, xx = np.mgrid[0:ny, 0:nx].astype(float)
    n = int(rng.choice([1, 2, 2, 3, 3, 4, 5, 6]))
    data = np.zeros((ny, nx))
    xs, ys = [], []
    for i in range(n):
        r = rng.random()
        if i > 0 and r < 0.35:
            # close neighbour of an earlier source: overlapping cutouts
            j = int(rng.integers(0, i))
            x0 = float(np.clip(xs[j] + rng.uniform(-4, 4), 0, nx - 1))
            y0 = float(np.clip(ys[j] + rng.uniform(-4, 4), 0, ny - 1))
        elif r < 0.55:
            # near an image edge / corner
            x0 = float(rng.choice([rng.uniform(0, 3), rng.uniform(nx - 4, nx - 1), rng.uniform(0, nx - 1)]))
            y0 = float(rng.choice([rng.uniform(0, 3), rng.uniform(ny - 4, ny - 1), rng.uniform(0, ny - 1)]))
        else:
            x0, y0 = float(rng.uniform(0, nx - 1)), float(rng.uniform(0, ny - 1))
        s = float(rng.uniform(1.0, 2.5))
        a = float(rng.uniform(50, 500))
        data += a * np.exp(-((xx - x0) ** 2 + (yy - y0) ** 2) / (2 * s * s))
        xs.append(x0)
        ys.append(y0)
    data += rng.normal(0, 1.0, size=data.shape)
    return data, np.array(xs), np.array(ys)


def _positions(rng, xs, ys, shape):
    ny, nx = shape
    xp = xs + rng.uniform(-1.0, 1.0, size=xs.size)
    yp = ys + rng.uniform(-1.0, 1.0, size=ys.size)
    form = str(rng.choice(['float', 'int', 'half', 'edge']))
    if form == 'int':
        xp, yp = np.round(xp), np.round(yp)
    elif form == 'half':
        xp, yp = np.floor(xp) + 0.5, np.floor(yp) + 0.5
    elif form == 'edge' and xp.size:
        k = int(rng.integers(0, min(xp.size, xs.size)))
        xp[k] = float(rng.choice([0.0, nx - 1.0]))
        if rng.random() < 0.5:
            yp[k] = float(rng.choice([0.0, ny - 1.0]))
    xp = np.clip(xp, 0, nx - 1)
    yp = np.clip(yp, 0, ny - 1)
    if form == 'int' and rng.random() < 0.5:
        xp, yp = xp.astype(int), yp.astype(int)
    return xp, yp, form


def _footprint(rng):
    r = rng.random()
    if r < 0.55:
        if rng.random() < 0.6:
            b = int(rng.choice([3, 5, 7, 9, 11, 13, 15]))
            return dict(box_size=b), np.ones((b, b), bool), f'box{b}'
        b = (int(rng.choice([3, 5, 7, 9, 11])), int(rng.choice([3, 5, 7, 9, 11])))
        return dict(box_size=b), np.ones(b, bool), f'box{b[0]}x{b[1]}'
    fy, fx = int(rng.integers(3, 14)), int(rng.integers(3, 14))
    kind = str(rng.choice(['disk', 'cross', 'random', 'ones']))
    yy, xx = np.mgrid[0:fy, 0:fx]
    if kind == 'disk':
        fp = ((yy - (fy - 1) / 2) / (fy / 2)) ** 2 + ((xx - (fx - 1) / 2) / (fx / 2)) ** 2 <= 1.0
    elif kind == 'cross':
        fp = (yy == fy // 2) | (xx == fx // 2) | (np.abs(yy - fy // 2) + np.abs(xx - fx // 2) <= 2)
    elif kind == 'random':
        fp = rng.random((fy, fx)) < 0.7
    else:
        fp = np.ones((fy, fx), bool)
    if rng.random() < 0.3:
        fp_in = fp.astype(int)                      # "bool ndarray" given as 0/1
    else:
        fp_in = fp.copy()
    kw = dict(footprint=fp_in)
    if rng.random() < 0.5:
        kw['box_size'] = int(rng.choice([3, 7, 4]))    # overridden by footprint (even value must not matter)
    return kw, fp, f'fp_{kind}{fy}x{fx}'


def _direct(func, data, slc, mcut, call_kw):
    """What the documentation says source i is: centroid_func on the cutout + origin.
    ValueError/TypeError of the centroid function -> NaN (documented: NaN where the centroid failed)."""
    try:
        with warnings.catch_warnings():
            warnings.simplefilter('ignore')
            xc, yc = func(data[slc], mask=mcut, **call_kw)
    except (ValueError, TypeError):
        xc, yc = np.nan, np.nan
    return np.array([xc + slc[1].start, yc + slc[0].start], dtype=float)


def _run_sources(case):
    import inspect
    from photutils.centroids import (centroid_1dg, centroid_2dg, centroid_com, centroid_quadratic,
                                     centroid_sources)
    rng = case.rng
    data, xs, ys = _scene(rng)
    ny, nx = data.shape
    yy, xx = np.mgrid[0:ny, 0:nx].astype(float)
    xp, yp, pform = _positions(rng, xs, ys, data.shape)
    if xp.size >= 1 and rng.random() < 0.2:
        # (xi) set-like argument: a position listed twice is a position like any other
        k_ = int(rng.integers(0, xp.size))
        xp, yp = np.append(xp, xp[k_]), np.append(yp, yp[k_])
        case.note('axis2_setlike_positions_duplicate')
    for nm, sel in (('left', xp <= 3), ('right', xp >= nx - 4), ('bottom', yp <= 3), ('top', yp >= ny - 4)):
        if np.any(sel):
            case.note('axis2_edge_position_near_' + nm)
    if np.any(np.mod(xp, 1) == 0.5) or np.any(np.mod(yp, 1) == 0.5):
        case.note('axis2_parity_half_integer_positions')
    fkw, fp, fpname = _footprint(rng)
    mask = None
    if rng.random() < 0.6:
        mask = _rand_mask(rng, data.shape, float(rng.choice([0.02, 0.1, 0.3])))
    mag = _magnitude(case)
    data = _maybe_counts(case, data * mag, mag)
    case.note('data_magnitude_' + _bucket(_mag_of(data)))
    if rng.random() < 0.2:
        data[rng.random(data.shape) < 0.01] = np.nan
    # error map with gradients and structure: a wrong error cutout changes the answer
    error = (1.0 + rng.uniform(0.02, 0.3) * xx + rng.uniform(0.02, 0.3) * yy
             + rng.uniform(0, 2.0, size=data.shape)) * (mag if rng.random() < 0.6 else 1.0)
    data, error, mask = _layout(data), _layout(error), _layout(mask)
    extra = {}
    cls = case.cls
    if cls == 'src_com':
        func, fname = centroid_com, 'centroid_com'
        if rng.random() < 0.3:
            extra['error'] = error          # not accepted by centroid_com: documented to be dropped
    elif cls == 'src_quad':
        func, fname = centroid_quadratic, 'centroid_quadratic'
        if rng.random() < 0.7:
            extra['fit_boxsize'] = int(rng.choice([3, 5]))
        if rng.random() < 0.5:
            k = int(rng.integers(0, xs.size))
            extra['xpeak'] = float(np.round(xs[k]) + rng.choice([0.0, 0.0, 1.0, -1.0, 0.3]))
            extra['ypeak'] = float(np.round(ys[k]) + rng.choice([0.0, 0.0, 1.0, -1.0, 0.3]))
            if rng.random() < 0.1:
                extra['ypeak'] = None       # documented: only used if both are given
            if rng.random() < 0.4:
                extra['search_boxsize'] = 3
    elif cls == 'src_gauss':
        fname = str(rng.choice(['centroid_1dg', 'centroid_2dg']))
        func = centroid_1dg if fname == 'centroid_1dg' else centroid_2dg
        if rng.random() < 0.6:
            extra['error'] = error
        # keep the fits affordable: at most 3 sources, moderate cutouts
        keep = rng.permutation(xp.size)[:3]
        xp, yp = xp[keep], yp[keep]
        if fp.shape[0] * fp.shape[1] > 121:
            fkw, fp, fpname = dict(box_size=9), np.ones((9, 9), bool), 'box9'
    else:
        which = str(rng.choice(['wcom', 'wcom', 'peakshift', 'picky']))
        if which == 'wcom':
            func, fname = wcom, 'user_wcom'
            if rng.random() < 0.8:
                extra['error'] = error
            if rng.random() < 0.5:
                extra['power'] = float(rng.choice([0.5, 2.0]))
        elif which == 'peakshift':
            func, fname = peakshift, 'user_peakshift'
            if rng.random() < 0.85:
                k = int(rng.integers(0, min(xp.size, xs.size)))
                extra['xpeak'] = float(np.round(xs[k]))
                extra['ypeak'] = float(np.round(ys[k]))
        else:
            func, fname = PickyCom(float(rng.uniform(100, 3000)) * mag), 'user_picky_callable'
            if rng.random() < 0.5:
                extra['error'] = error
    # drop positions whose cutout is completely masked (documented ValueError)
    keep = []
    cuts = []
    for i in range(xp.size):
        slc, mcut = ref.cutout_reference(data.shape, fp, float(xp[i]), float(yp[i]), mask)
        if not mcut.all():
            keep.append(i)
            cuts.append((slc, mcut))
    if not keep:
        case.skip('all cutouts fully masked')
    xp, yp = xp[keep], yp[keep]
    n = xp.size
    spec = inspect.signature(func).parameters
    error_kw = 'error' in extra and 'error' in spec
    xypeak_kw = (extra.get('xpeak') is not None and extra.get('ypeak') is not None and 'xpeak' in spec)
    case.params = dict(fn=fname, shape=[ny, nx], npos=int(n), pos=pform, region=fpname, masked=mask is not None,
                       kw=sorted(k for k in extra), error_kw=error_kw, xypeak_kw=xypeak_kw)
    case.digest = core.arr_digest(data, mask, xp, yp, fp) + core.digest([cls, fname, sorted(
        (k, None if isinstance(v, np.ndarray) else str(v)) for k, v in extra.items())])[:6]
    base_mech = {'cls': cls, 'fn': fname, 'error_kw': bool(error_kw), 'xypeak_kw': bool(xypeak_kw)}
    case.nontrivial = n >= 2

    def run(xpos, ypos, factor=None):
        kw = dict(fkw)
        kw.update({k: (_layout(v) if isinstance(v, np.ndarray) else v) for k, v in extra.items()})
        d_in = _layout(data) if factor is None else _layout(data * factor)
        # call forms of the positions and the box
        if np.ndim(xpos) == 1:
            xpos, ypos = pos_form(xpos), pos_form(ypos)
        if 'box_size' in kw and not isinstance(kw['box_size'], (int, np.integer)):
            kw['box_size'] = box_form(kw['box_size'])
        elif 'box_size' in kw and forms['box'] == 'np.int64':
            kw['box_size'] = np.int64(kw['box_size'])
        if forms['scalars'] == 'numpy':
            for k_ in ('xpeak', 'ypeak'):
                if kw.get(k_) is not None:
                    kw[k_] = np.float64(kw[k_])
            for k_ in ('fit_boxsize', 'search_boxsize'):
                if isinstance(kw.get(k_), int):
                    kw[k_] = np.int64(kw[k_])
        with warnings.catch_warnings():
            warnings.simplefilter('ignore')
            xo, yo = centroid_sources(d_in, xpos, ypos, mask=_layout(mask),
                                      centroid_func=func, **kw)
        return np.asarray(xo, float), np.asarray(yo, float)

    forms = {'pos': str(rng.choice(['array', 'array', 'list', 'tuple'])),
             'box': str(rng.choice(['tuple', 'list', 'array', 'np.int64'])),
             'scalars': str(rng.choice(['python', 'python', 'numpy']))}
    for k_, v_ in forms.items():
        case.note(f'axis_form_{k_}_{v_}')

    def pos_form(v):
        return v.tolist() if forms['pos'] == 'list' else (tuple(v.tolist()) if forms['pos'] == 'tuple' else v)

    def box_form(b):
        return list(b) if forms['box'] == 'list' else (np.array(b) if forms['box'] == 'array' else tuple(b))

    def cut_of(xv, yv):
        return ref.cutout_reference(data.shape, fp, float(xv), float(yv), mask)

    def direct_kw(slc):
        call_kw = {k: v for k, v in extra.items() if k in spec and k not in ('error', 'xpeak', 'ypeak')}
        if error_kw:
            call_kw['error'] = error[slc]
        if xypeak_kw:
            call_kw['xpeak'] = extra['xpeak'] - slc[1].start
            call_kw['ypeak'] = extra['ypeak'] - slc[0].start
        return call_kw

    def reuse_model(xpos, ypos, obs):
        """Classification only (never a verdict): does the observed output equal what ONE keyword
        dictionary carried from source to source would produce (error / xpeak / ypeak entries of
        the previous source's cutout fed to the next)?  Goes into the mechanism key."""
        state = {k: v for k, v in extra.items() if k in spec}
        out = []
        for xv, yv in zip(np.atleast_1d(xpos), np.atleast_1d(ypos)):
            slc, mcut = cut_of(xv, yv)
            err = state.get('error')
            if err is not None:
                state['error'] = err[slc]
            xpk, ypk = state.pop('xpeak', None), state.pop('ypeak', None)
            if xpk is not None and ypk is not None:
                state['xpeak'] = xpk - slc[1].start
                state['ypeak'] = ypk - slc[0].start
            out.append(_direct(func, data, slc, mcut, dict(state)))
        out = np.array(out).T
        return bool(core.exact(np.array(obs), out))

    def judged(obs, exp, what, mech, runs, **detail):
        """case.close with the carried-dictionary classification added on failure."""
        ok, _, _ = core.same(obs, exp)
        if not ok and (error_kw or xypeak_kw):
            mech = dict(mech, explained_by_carried_kwargs=all(reuse_model(x, y, o) for x, y, o in runs))
        return case.close(obs, exp, what, mech=mech, **detail)

    if n == 1 and rng.random() < 0.5:
        xo, yo = run(float(xp[0]), float(yp[0]))        # scalar positions are documented
    else:
        xo, yo = run(xp.copy(), yp.copy())
    case.check(xo.shape == (n,) and yo.shape == (n,), 'sources_output_shape', base_mech, shape=list(xo.shape))
    if xo.shape != (n,):
        return
    run0 = (xp, yp, (xo, yo))
    # (1) each source vs the direct call on its documented cutout
    for i in range(n):
        slc, mcut = cuts[i]
        exp = _direct(func, data, slc, mcut, direct_kw(slc))
        mech = dict(base_mech, first=bool(i == 0))
        judged(np.array([xo[i], yo[i]]), exp, 'sources_vs_direct_call_on_cutout', mech, [run0],
               index=i, npos=int(n), pos=[float(xp[i]), float(yp[i])],
               cutout=[slc[0].start, slc[0].stop, slc[1].start, slc[1].stop])
    if n >= 2:
        mech = dict(base_mech, multi=True)
        # (2) permutation
        perm = rng.permutation(n)
        if np.array_equal(perm, np.arange(n)):
            perm = perm[::-1]
        xq, yq = run(xp[perm], yp[perm])
        judged(np.array([xq, yq]), np.array([xo[perm], yo[perm]]), 'sources_permutation_invariant', mech,
               [run0, (xp[perm], yp[perm], (xq, yq))], perm=perm.tolist())
        # (3) sub-list (keeps the order), incl. single positions
        size = int(rng.integers(1, n))
        sub = np.sort(rng.choice(n, size=size, replace=False))
        xs_, ys_ = run(xp[sub], yp[sub])
        judged(np.array([xs_, ys_]), np.array([xo[sub], yo[sub]]), 'sources_sublist_invariant', mech,
               [run0, (xp[sub], yp[sub], (xs_, ys_))], sub=sub.tolist())
        # (4) one at a time, a source that is not the first
        k = int(rng.integers(1, n))
        x1, y1 = run(float(xp[k]), float(yp[k]))
        judged(np.array([x1[0], y1[0]]), np.array([xo[k], yo[k]]), 'sources_single_equals_batched', mech,
               [run0, (xp[k:k + 1], yp[k:k + 1], (x1, y1))], index=k)
    # (7) count-like box_size as numpy signed / unsigned integer scalar: equal to the Python-int call
    if isinstance(fkw.get('box_size'), int) and 'footprint' not in fkw:
        form = str(rng.choice(['uint8', 'uint16', 'uint64', 'int16', 'intp']))
        case.note('axis3_count_form_box_size_' + form)
        mc = dict(base_mech, arg='box_size', count_form='unsigned' if form.startswith('u') else 'signed')
        fkw_keep = fkw
        fkw = dict(fkw_keep, box_size=getattr(np, form)(fkw_keep['box_size']))
        try:
            xb, yb = run(xp.copy(), yp.copy())
            case.close(np.array([xb, yb]), np.array([xo, yo]), 'sources_count_like_numpy_scalar_equals_int', mech=mc)
        except ValueError as exc:
            if 'must have integer values' not in str(exc):
                raise
            case.check(False, 'sources_count_like_numpy_scalar_equals_int', dict(mc, raised='ValueError'),
                       msg=str(exc)[:100])
        finally:
            fkw = fkw_keep
    # (6) (vii) the same numbers in a narrow / unsigned image dtype
    feas = _feasible_dtypes(data)
    if feas and fname not in ('centroid_1dg', 'centroid_2dg'):     # Gaussian fits: judged in gauss_rel (convergence guard)
        dt = str(rng.choice(feas))
        case.note('axis2_dtype_image_' + dt)
        data_f = data
        data = np.asarray(data_f).astype(dt)
        try:
            xd, yd = run(xp.copy(), yp.copy())
        finally:
            data = data_f
        tol_d = {'centroid_com': 1e-9, 'centroid_quadratic': TOL_QUAD_REL, 'centroid_1dg': TOL_REL_GAUSS,
                 'centroid_2dg': TOL_REL_GAUSS}.get(fname, 1e-9)
        if dt in ('float16', 'float32'):
            tol_d = max(tol_d, 64 * float(np.finfo(dt).eps))
        unconv = fname in ('centroid_1dg', 'centroid_2dg') and not np.array_equal(np.isfinite(xd), np.isfinite(xo))
        if unconv:
            case.note('narrow_dtype_gauss_fit_failure_pattern_differs_not_judged')
        else:
            case.close(np.array([xd, yd]), np.array([xo, yo]), 'sources_same_result_for_narrow_dtype', atol=tol_d,
                       mech=dict(base_mech, dtype=dt))
    # (5) positive rescaling of the image by a power of two (the rescaling is exact, so are centre-of-mass and
    # least-squares results; the error map, where given, keeps its scale: weights only change by a common factor
    # for 1/error-weighted functions - judged for the functions that do not use `error`)
    if fname in ('centroid_com', 'centroid_quadratic', 'user_peakshift') or (fname == 'user_wcom' and not error_kw):
        kf = float(2.0 ** int(rng.integers(-80, 81)))
        mag0 = _mag_of(data)
        if mag0 > 0 and not (1e-60 < mag0 * kf < 1e60):
            kf = 1.0 / kf
        case.note('rescale_factor_' + _bucket(kf))
        case.note('rescaled_data_magnitude_' + _bucket(mag0 * kf))
        xk, yk = run(xp.copy(), yp.copy(), factor=kf)
        case.close(np.array([xk, yk]), np.array([xo, yo]), 'sources_invariant_under_power_of_two_rescale',
                   atol=TOL_QUAD_REL if fname == 'centroid_quadratic' else 0.0,     # LAPACK lstsq: not bit-identical
                   mech=dict(base_mech, rel='scale'), k=kf, magnitude_base=mag0)


def run_case(case):
    _LAY['kind'] = str(case.rng.choice(LAYOUTS))
    case.note('axis_layout_' + _LAY['kind'])
    try:
        _dispatch(case)
    except _FitBlowUp as exc:
        case.check(False, 'gauss_fit_raises_on_finite_input',
                   {'cls': case.cls, 'fn': exc.fn.replace('centroid_', ''), 'raised': 'ValueError',
                    'far_scale': _far(exc.mag)}, msg=str(exc)[:120], magnitude=exc.mag)


def _dispatch(case):
    cls = case.cls
    if cls == 'com_def':
        _run_com_def(case)
    elif cls == 'com_rel':
        _run_com_rel(case)
    elif cls == 'quad_exact':
        _run_quad_exact(case)
    elif cls == 'quad_rel':
        _run_quad_rel(case)
    elif cls == 'sym':
        _run_sym(case)
    elif cls == 'gauss_rel':
        _run_gauss_rel(case)
    else:
        _run_sources(case)
