"""Worker process: runs the cases of one shard of one check.

usage: python -m pv.worker ID tier seed shard ncases budget_s out.jsonl [idx]
(with idx: run only that case - replay mode)
"""
from __future__ import annotations

import importlib
import json
import os
import sys
import time
import traceback
import warnings


def main(argv):
    pid, tier, seed, shard, ncases, budget, out = argv[:7]
    seed, shard, ncases, budget = int(seed), int(shard), int(ncases), float(budget)
    only = int(argv[7]) if len(argv) > 7 else None

    # a runaway allocation must surface as a MemoryError with a traceback in this case's record, not take the
    # machine (and every other shard) down: address-space limit per worker (PV_WORKER_MEM_GB, default 16)
    try:
        import resource
        lim = int(float(os.environ.get('PV_WORKER_MEM_GB', '16')) * (1 << 30))
        resource.setrlimit(resource.RLIMIT_AS, (lim, lim))
    except Exception:  # noqa: BLE001
        pass
    from pv import core, reach
    mod = importlib.import_module('pv.checks.' + pid.lower())
    if os.environ.get('PV_REACH', '1') == '1':
        reach.start()
    warnings.simplefilter('ignore')
    import numpy as np
    np.seterr(all='ignore')

    t0 = time.time()
    f = open(out, 'w')
    meta = {'kind': 'meta', 'shard': shard, 'pid': pid}
    try:
        if hasattr(mod, 'setup'):
            meta['setup'] = mod.setup(tier) or {}
    except Exception:  # noqa: BLE001
        meta['setup_error'] = traceback.format_exc()
        f.write(json.dumps(meta) + '\n')
        f.close()
        return 3
    # M6 runtime contracts ride along on every workload (after setup(): the
    # kernel overlay / bottleneck configuration must precede photutils imports)
    if os.environ.get('PV_CONTRACTS', '1') == '1' and not getattr(mod, 'NO_CONTRACTS', False):
        try:
            from pv import contracts
            meta['contracts_installed'] = contracts.install()
        except Exception:  # noqa: BLE001
            meta['contracts_error'] = traceback.format_exc()[-800:]
    f.write(json.dumps(meta) + '\n')

    classes = mod.CLASSES
    idxs = range(ncases) if only is None else [only]
    ran = 0
    # The wall budget is a soft limit for the load of the machine, never a verdict: on an oversubscribed machine the
    # shard keeps going past it until every generator class had its turn in some shard (classes are dealt round-robin
    # with the shard number as offset), bounded by 4x the budget (the driver's hard timeout is beyond that).
    nshards = max(1, int(os.environ.get('PV_NSHARDS', '1')))
    min_cases = min(ncases, -(-len(classes) // nshards) + 1)
    for k in idxs:
        el = time.time() - t0
        if only is None and el > budget and (k >= min_cases or el > 4 * budget):
            break
        cls = classes[(k + shard) % len(classes)]
        case = core.Case(pid, tier, seed, shard, k, cls)
        try:
            with warnings.catch_warnings():
                warnings.simplefilter('ignore')
                mod.run_case(case)
        except core.Skip as s:
            case.skipped = str(s) or 'skip'
        except MemoryError:
            # the per-worker address-space limit was hit (e.g. an aperture mask sized by the second moments of a
            # degenerate segment): a resource matter, counted as a skipped case, never a verdict
            case.skipped = 'memory_limit'
        except Exception as exc:  # noqa: BLE001
            loc = core.exc_location(exc)
            tb = traceback.format_exc()
            if (loc is not None and not isinstance(exc, core.HarnessError)
                    and not getattr(mod, 'LIB_EXC_IS_ERROR', False)):
                # the library raised on an input the generator deems valid
                case.nchecks += 1
                case.violations.append({
                    'what': 'raised', 'mech': core.exc_mech(exc),
                    'detail': {'msg': str(exc)[:300], 'tb': tb[-1500:]}})
            else:
                case.error = tb[-2500:]
        rec = case.to_record()
        rec['kind'] = 'case'
        f.write(json.dumps(rec) + '\n')
        f.flush()     # a shard killed by the driver's timeout must show which case it was on
        ran += 1
    tail = {'kind': 'tail', 'shard': shard, 'ran': ran, 'wall_s': time.time() - t0,
            'reach': reach.counts()}
    if 'contracts_installed' in meta:
        from pv import contracts
        tail['contracts'] = contracts.report()
    if hasattr(mod, 'teardown'):
        try:
            tail['teardown'] = mod.teardown() or {}
        except Exception:  # noqa: BLE001
            tail['teardown_error'] = traceback.format_exc()
    f.write(json.dumps(tail) + '\n')
    f.close()
    return 0


if __name__ == '__main__':
    sys.exit(main(sys.argv[1:]))
