"""M6 runtime contracts (icontract) on pure helper functions of photutils.

The contracts ride along on every workload of every check (and on the
repository's test-suite in the C10 thorough leg). Conditions *record and return
True*: a broken contract never raises into the execution it observes; it is
logged with the owner property and turned into a violation record by the
aggregator of the check that owns that property (foreign ones are only shown
in the evidence of the run that happened to see them).

Conditions are named functions whose parameter names match the decorated
function (icontract requirement); `error=` is irrelevant because conditions
never return False. Evaluation counts are kept per contract; a contract with
zero evaluations in its owner's run is reported as not reached.
"""
from __future__ import annotations

import math
import threading

import numpy as np

_lock = threading.Lock()
EVALS = {}          # contract name -> evaluations
BROKEN = []         # list of dicts {contract, owner, detail}
_installed = False


def _rec(name, owner, ok, **detail):
    with _lock:
        EVALS[name] = EVALS.get(name, 0) + 1
        if not ok and len(BROKEN) < 200:
            BROKEN.append({'contract': name, 'owner': owner,
                           'detail': {k: repr(v)[:200] for k, v in detail.items()}})
    return True


# ----------------------------------------------------------------------
# conditions
# ----------------------------------------------------------------------
def _from_float_is_smallest_box(cls, xmin, xmax, ymin, ymax, result):
    """Smallest integer pixel box containing [xmin,xmax]x[ymin,ymax] under the
    pixel-centre convention (pixel i spans [i-0.5, i+0.5]); ties within 1e-9
    of a pixel edge are accepted either way."""
    eps = 1e-9
    ok = True
    try:
        vals = [float(xmin), float(xmax), float(ymin), float(ymax)]
        if not all(math.isfinite(v) for v in vals):
            return _rec('BoundingBox.from_float:smallest_box', 'C01', True)
        for lo, hi, ilo, ihi in ((vals[0], vals[1], result.ixmin, result.ixmax),
                                 (vals[2], vals[3], result.iymin, result.iymax)):
            # contains: ilo - 0.5 <= lo and hi <= ihi - 0.5  (ihi exclusive)
            ok &= (ilo - 0.5 <= lo + eps) and (hi - eps <= ihi - 0.5)
            # minimal: first pixel really needed, last pixel really needed
            ok &= (lo - eps < ilo + 0.5) and (ihi - 1 - 0.5 < hi + eps)
    except Exception:  # noqa: BLE001
        return _rec('BoundingBox.from_float:smallest_box', 'C01', True)
    return _rec('BoundingBox.from_float:smallest_box', 'C01', bool(ok),
                args=(xmin, xmax, ymin, ymax), result=result)


def _overlap_slices_select_common_pixels(self, shape, result):
    name = 'BoundingBox.get_overlap_slices:common_pixels'
    try:
        ny, nx = int(shape[0]), int(shape[1])
        if ny < 1 or nx < 1:   # zero-size images: documentation silent, not judged
            return _rec(name + ':zero_size_image_not_judged', 'C01', True)
        ys = range(max(self.iymin, 0), min(self.iymax, ny))
        xs = range(max(self.ixmin, 0), min(self.ixmax, nx))
        empty = len(ys) == 0 or len(xs) == 0
        lg, sm = result
        if empty:
            ok = lg is None and sm is None
        else:
            ok = (lg is not None and sm is not None
                  and lg[0] == slice(ys.start, ys.stop) and lg[1] == slice(xs.start, xs.stop)
                  and sm[0] == slice(ys.start - self.iymin, ys.stop - self.iymin)
                  and sm[1] == slice(xs.start - self.ixmin, xs.stop - self.ixmin))
    except Exception:  # noqa: BLE001
        return _rec(name, 'C01', True)
    return _rec(name, 'C01', bool(ok), box=self, shape=shape, result=result)


def _py2intround_rounds_half_away(a, result):
    name = 'py2intround:half_away_from_zero'
    try:
        x = np.atleast_1d(np.asarray(a, dtype=float))
        r = np.atleast_1d(np.asarray(result))
        fin = np.isfinite(x)
        exp = np.sign(x[fin]) * np.floor(np.abs(x[fin]) + 0.5)
        ok = r.shape == x.shape and np.array_equal(r[fin].astype(float), exp)
    except Exception:  # noqa: BLE001
        return _rec(name, 'C17', True)
    return _rec(name, 'C17', bool(ok), a=a, result=result)


def _grouper_labels_are_partition(self, x, y, result):
    name = 'SourceGrouper.__call__:labels'
    try:
        g = np.atleast_1d(np.asarray(result))
        n = np.atleast_1d(np.asarray(x)).size
        ok = (g.shape == (n,) and g.dtype.kind in 'iu' and (n == 0 or g.min() >= 1)
              and (n == 0 or set(np.unique(g).tolist()) == set(range(1, int(g.max()) + 1))))
        if ok and 0 < n <= 60:
            # single linkage: two sources closer than min_separation share a group
            xx = np.atleast_1d(np.asarray(x, float))
            yy = np.atleast_1d(np.asarray(y, float))
            d = np.hypot(xx[:, None] - xx[None, :], yy[:, None] - yy[None, :])
            close = d < float(self.min_separation) * (1 - 1e-12)
            ok = bool(np.all(g[:, None][close.any(axis=1)] == g[:, None][close.any(axis=1)]))
            ii, jj = np.nonzero(close)
            ok = bool(np.all(g[ii] == g[jj]))
    except Exception:  # noqa: BLE001
        return _rec(name, 'C12', True)
    return _rec(name, 'C12', bool(ok), n=n, result=result)


def _total_error_not_below_bkg_error(data, bkg_error, effective_gain, result):
    name = 'calc_total_error:ge_bkg_error'
    try:
        r = np.asarray(getattr(result, 'value', result), float)
        b = np.asarray(getattr(bkg_error, 'value', bkg_error), float)
        d = np.asarray(getattr(data, 'value', data))
        fin = np.isfinite(r) & np.isfinite(b)
        ok = r.shape == d.shape and bool(np.all(r[fin] >= np.abs(b[fin]) * (1 - 1e-12)))
    except Exception:  # noqa: BLE001
        return _rec(name, 'C15', True)
    return _rec(name, 'C15', bool(ok), shape=getattr(result, 'shape', None))


def _threshold_has_data_shape(data, nsigma, background, error, mask, sigma_clip, result):
    name = 'detect_threshold:shape'
    try:
        ok = tuple(np.shape(result)) == tuple(np.shape(data))
    except Exception:  # noqa: BLE001
        return _rec(name, 'C04', True)
    return _rec(name, 'C04', bool(ok), shape=np.shape(result))


def _mirrored_value_definition(data, replace_mask, xycenter, mask, result):
    """`_mask_to_mirrored_value` (SourceCatalog apermask_method='correct'): a pixel of replace_mask takes the value of
    the pixel mirrored through the centre pixel; 0 when that pixel is outside the array (on ANY side: a negative
    index must not wrap around), is itself to be replaced, or is in `mask`; every other pixel is unchanged."""
    name = '_mask_to_mirrored_value:definition'
    try:
        d = np.asarray(data)
        rm = np.asarray(replace_mask, bool)
        ny, nx = d.shape
        exp = np.array(d, copy=True)
        cx, cy = int(xycenter[0] + 0.5), int(xycenter[1] + 0.5)
        ys, xs = np.nonzero(rm)
        if len(ys) > 20000:
            return _rec(name + ':too_large_not_judged', 'C07', True)
        for y, x in zip(ys.tolist(), xs.tolist()):
            xm, ym = 2 * cx - x, 2 * cy - y
            if xm < 0 or ym < 0 or xm >= nx or ym >= ny or rm[ym, xm] or (mask is not None and mask[ym, xm]):
                exp[y, x] = 0
            else:
                exp[y, x] = d[ym, xm]
        r = np.asarray(result)
        ok = r.shape == exp.shape and bool(np.array_equal(r, exp, equal_nan=(exp.dtype.kind == 'f')))
    except Exception:  # noqa: BLE001
        return _rec(name, 'C07', True)
    return _rec(name, 'C07', ok, shape=d.shape, center=(cx, cy), n_replaced=len(ys))


def _overlap_slices_definition(large_array_shape, small_array_shape, position, mode, result):
    """`utils.cutouts._overlap_slices` when it returns: along each axis the window is the n indices starting at
    ceil(pos - n/2); the large-array slice is its part inside [0, L) and must not be empty; the small-array slice
    is that part in window coordinates ('partial', 'strict') or starts at 0 ('trim')."""
    name = '_overlap_slices:definition'
    try:
        lg, sm = result
        ok = True
        for ax in range(len(large_array_shape)):
            L, n, pos = int(large_array_shape[ax]), int(small_array_shape[ax]), float(position[ax])
            first = int(math.ceil(pos - n / 2.0))
            a, b = max(0, first), min(L, first + n)
            ok &= b > a and (lg[ax].start, lg[ax].stop) == (a, b)
            if mode == 'trim':
                ok &= (sm[ax].start, sm[ax].stop) == (0, b - a)
            else:
                ok &= (sm[ax].start, sm[ax].stop) == (a - first, b - first)
    except Exception as exc:  # noqa: BLE001
        return _rec(name + ':condition_error:' + type(exc).__name__, 'C18', True)
    return _rec(name, 'C18', bool(ok), large=tuple(large_array_shape), small=tuple(small_array_shape),
                position=tuple(position), mode=mode, result=result)


# ----------------------------------------------------------------------
def _patch_importers(old, new, name):
    """Replace references bound by `from x import name [as alias]` in photutils modules."""
    import sys
    n = 0
    for modname, mod in list(sys.modules.items()):
        if mod is None or not modname.startswith('photutils'):
            continue
        for attr, val in list(vars(mod).items()):
            if val is old:
                setattr(mod, attr, new)
                n += 1
    return n


def install():
    """Install all contracts; returns {contract target: import sites patched}."""
    global _installed
    if _installed:
        return {}
    import icontract
    import photutils.aperture  # noqa: F401
    import photutils.psf  # noqa: F401
    import photutils.segmentation  # noqa: F401
    import photutils.centroids  # noqa: F401
    import photutils.utils  # noqa: F401
    from photutils.aperture.bounding_box import BoundingBox
    from photutils.psf import groupers
    from photutils.segmentation import detect
    from photutils.utils import _round, errors
    out = {}

    BoundingBox.from_float = classmethod(
        icontract.ensure(_from_float_is_smallest_box)(BoundingBox.from_float.__func__))
    BoundingBox.get_overlap_slices = icontract.ensure(_overlap_slices_select_common_pixels)(
        BoundingBox.get_overlap_slices)
    groupers.SourceGrouper.__call__ = icontract.ensure(_grouper_labels_are_partition)(
        groupers.SourceGrouper.__call__)
    out['BoundingBox'] = 1

    old = _round.py2intround
    new = icontract.ensure(_py2intround_rounds_half_away)(old)
    out['py2intround'] = _patch_importers(old, new, 'py2intround')

    old = errors.calc_total_error
    new = icontract.ensure(_total_error_not_below_bkg_error)(old)
    out['calc_total_error'] = _patch_importers(old, new, 'calc_total_error')

    old = detect.detect_threshold
    new = icontract.ensure(_threshold_has_data_shape)(old)
    out['detect_threshold'] = _patch_importers(old, new, 'detect_threshold')

    from photutils.segmentation import utils as segutils
    old = segutils._mask_to_mirrored_value
    new = icontract.ensure(_mirrored_value_definition)(old)
    out['_mask_to_mirrored_value'] = _patch_importers(old, new, '_mask_to_mirrored_value')
    import photutils.datasets  # noqa: F401
    import photutils.detection  # noqa: F401
    from photutils.utils import cutouts
    old = cutouts._overlap_slices
    new = icontract.ensure(_overlap_slices_definition)(old)
    out['_overlap_slices'] = _patch_importers(old, new, '_overlap_slices')
    _installed = True
    return out


def report():
    with _lock:
        return {'evaluations': dict(EVALS), 'broken': list(BROKEN)}
