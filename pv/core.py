"""Core helpers shared by all checks: per-case RNG, Case records, comparison.

A check module (pv/checks/cNN.py) defines

    ID        = 'C04'
    RULE      = '...'              # how cases are generated, what non-trivial means
    CLASSES   = ['ties', ...]      # generator classes; case idx -> CLASSES[idx % n]
    MUST_REACH = ['photutils.segmentation.detect:detect_sources', ...]
    def plan(tier) -> dict(shards=int, cases=int (per shard), timeout=seconds)
    def selftest() -> None         # oracle vs facts independent of photutils
    def run_case(case) -> None     # drives the real code, calls case.check(...)

`case` is a :class:`Case`; it carries the per-case RNG (a function of
(ID, seed, shard, idx) only, so any case can be replayed alone).
"""
from __future__ import annotations

import hashlib
import json
import traceback
import zlib

import numpy as np

REPO = '/repo'


def case_rng(pid, seed, shard, idx):
    return np.random.default_rng([zlib.crc32(pid.encode()), int(seed),
                                  int(shard), int(idx)])


def _jsonable(x, depth=0):
    if depth > 6:
        return repr(x)[:80]
    if isinstance(x, (str, bool, type(None))):
        return x
    if isinstance(x, (int, np.integer)):
        return int(x)
    if isinstance(x, (float, np.floating)):
        f = float(x)
        if f != f or f in (float('inf'), float('-inf')):
            return repr(f)
        return f
    if isinstance(x, np.ndarray):
        if x.size <= 64:
            return _jsonable(x.tolist(), depth + 1)
        return {'ndarray': list(x.shape), 'dtype': str(x.dtype),
                'crc': zlib.crc32(np.ascontiguousarray(x).tobytes())}
    if isinstance(x, dict):
        return {str(k): _jsonable(v, depth + 1) for k, v in x.items()}
    if isinstance(x, (list, tuple, set, frozenset)):
        return [_jsonable(v, depth + 1) for v in x]
    return repr(x)[:200]


def digest(obj):
    """Stable digest of a (jsonable) description of a case."""
    s = json.dumps(_jsonable(obj), sort_keys=True, default=repr)
    return hashlib.sha1(s.encode()).hexdigest()[:16]


def arr_digest(*arrays):
    h = hashlib.sha1()
    for a in arrays:
        if a is None:
            h.update(b'None')
            continue
        a = np.asarray(a)
        h.update(str(a.dtype).encode() + str(a.shape).encode())
        h.update(np.ascontiguousarray(a).tobytes())
    return h.hexdigest()[:16]


class Skip(Exception):
    """Raised by a check to abandon a case (reason counted in evidence)."""


class HarnessError(Exception):
    """Raised by a check for a problem of the harness itself: always an
    *error* (inconclusive), never attributed to the library even if photutils
    frames are on the traceback."""


class Case:
    """One generated case and everything the monitors observed on it."""

    def __init__(self, pid, tier, seed, shard, idx, cls):
        self.pid, self.tier, self.seed, self.shard, self.idx = pid, tier, seed, shard, idx
        self.cls = cls
        self.rng = case_rng(pid, seed, shard, idx)
        self.params = {}        # human-readable description (goes to samples/replay)
        self.nontrivial = False
        self.digest = None      # set by the check (digest of inputs); else from params
        self.nchecks = 0        # oracle comparisons evaluated
        self.violations = []    # list of dicts {what, mech, detail}
        self._vkeys = {}
        self.skipped = None     # reason
        self.maxdev = {}        # name -> largest deviation observed
        self.notes = {}         # counters (e.g. schedules applied)
        self.error = None

    # -- verdict helpers ------------------------------------------------
    def check(self, ok, what, mech=None, **detail):
        """Record one oracle evaluation. `what` names the comparison;
        `mech` (dict) holds the structured mechanism key used for matching
        known findings (never random values)."""
        self.nchecks += 1
        if not ok:
            # ration records per distinct (what, mech) so that a defect that
            # re-fires at every step never crowds out a new mechanism
            key = what + '|' + json.dumps(_jsonable(mech or {}), sort_keys=True)
            n = self._vkeys.get(key, 0)
            self._vkeys[key] = n + 1
            if n < 2 and len(self.violations) < 80:
                self.violations.append({'what': what, 'mech': dict(mech or {}),
                                        'detail': _jsonable(detail)})
        return bool(ok)

    def dev(self, name, value):
        try:
            v = float(value)
        except Exception:
            return
        if v == v and v > self.maxdev.get(name, -1.0):
            self.maxdev[name] = v

    def close(self, obs, exp, what, rtol=0.0, atol=0.0, mech=None, **detail):
        """same(obs, exp) as a recorded check; tracks the max deviation."""
        ok, d, why = same(obs, exp, rtol=rtol, atol=atol)
        self.dev(what, d)
        if not ok:
            detail = dict(detail)
            detail.update(why=why, obs=_short(obs), exp=_short(exp), dev=d)
        return self.check(ok, what, mech, **detail)

    def note(self, key, n=1):
        self.notes[key] = self.notes.get(key, 0) + n

    def skip(self, reason):
        raise Skip(reason)

    def lib(self, fn, *args, **kwargs):
        """Call library code; an exception is a recorded violation
        ('raised') with the innermost photutils frame as mechanism."""
        try:
            return True, fn(*args, **kwargs)
        except Skip:
            raise
        except Exception as exc:  # noqa: BLE001
            return False, exc

    def to_record(self):
        return {
            'pid': self.pid, 'tier': self.tier, 'seed': self.seed,
            'shard': self.shard, 'idx': self.idx, 'cls': self.cls,
            'params': _jsonable(self.params),
            'digest': self.digest or digest(self.params),
            'nontrivial': bool(self.nontrivial),
            'nchecks': self.nchecks, 'violations': self.violations,
            'skipped': self.skipped, 'maxdev': self.maxdev,
            'notes': self.notes, 'error': self.error,
        }


def _short(x):
    try:
        if hasattr(x, 'unit') and hasattr(x, 'value'):
            return {'value': _short(x.value), 'unit': str(x.unit)}
        a = np.asarray(x)
        if a.dtype == object:
            return repr(x)[:300]
        if a.size <= 24:
            return _jsonable(a)
        return {'shape': list(a.shape), 'dtype': str(a.dtype),
                'head': _jsonable(a.ravel()[:8])}
    except Exception:  # noqa: BLE001
        return repr(x)[:300]


def exc_location(exc):
    """Innermost frame inside /repo/photutils of an exception: 'file:func'."""
    tb = traceback.extract_tb(exc.__traceback__)
    loc = None
    for fr in tb:
        if '/photutils/' in fr.filename and '/verif/' not in fr.filename:
            loc = f"{fr.filename.split('/photutils/', 1)[1]}:{fr.name}"
    return loc


def exc_mech(exc):
    return {'exc': type(exc).__name__, 'at': exc_location(exc)}


# ----------------------------------------------------------------------
# comparison
# ----------------------------------------------------------------------
def _unit_of(x):
    u = getattr(x, 'unit', None)
    return None if u is None else str(u)


def same(a, b, rtol=0.0, atol=0.0):
    """Structural numeric equality.

    Returns (ok, deviation, why). NaN equals NaN, inf equals same-signed inf;
    shapes must agree; units must agree (both unit-less or equal units);
    |a-b| <= atol + rtol*max(|a|,|b|). deviation is the largest
    |a-b|/(atol/rtol-scaled) excess measure: we report max |a-b| / max(1,|b|)
    style relative deviation for auditing.
    """
    if a is None or b is None:
        return (a is None and b is None), 0.0, 'None mismatch'
    if isinstance(a, (list, tuple)) and isinstance(b, (list, tuple)) and (
            len(a) == 0 or not np.isscalar(a[0]) or len(a) != len(b)):
        if len(a) != len(b):
            return False, float('inf'), f'len {len(a)} != {len(b)}'
        worst = 0.0
        for i, (x, y) in enumerate(zip(a, b)):
            ok, d, why = same(x, y, rtol, atol)
            worst = max(worst, d)
            if not ok:
                return False, d, f'[{i}] {why}'
        return True, worst, ''
    ua, ub = _unit_of(a), _unit_of(b)
    if ua != ub:
        return False, float('inf'), f'unit {ua} != {ub}'
    if ua is not None:
        a, b = a.value, b.value
    ma = np.ma.getmaskarray(a) if isinstance(a, np.ma.MaskedArray) else None
    mb = np.ma.getmaskarray(b) if isinstance(b, np.ma.MaskedArray) else None
    if (ma is None) != (mb is None):
        # compare a masked array with a plain one only through its data+mask
        if ma is not None and not ma.any():
            ma = None
            a = np.ma.getdata(a)
        elif mb is not None and not mb.any():
            mb = None
            b = np.ma.getdata(b)
        else:
            return False, float('inf'), 'masked vs plain'
    if ma is not None:
        if ma.shape != mb.shape or not np.array_equal(ma, mb):
            return False, float('inf'), 'mask differs'
        a = np.ma.getdata(a)[~ma]
        b = np.ma.getdata(b)[~mb]
    a = np.asarray(a)
    b = np.asarray(b)
    if a.shape != b.shape:
        return False, float('inf'), f'shape {a.shape} != {b.shape}'
    if a.dtype == object or b.dtype == object or a.dtype.kind in 'USO' or b.dtype.kind in 'USO':
        ok = bool(np.all(a == b))
        return ok, 0.0 if ok else float('inf'), 'object/str differs'
    if a.dtype.kind == 'b' or b.dtype.kind == 'b':
        ok = bool(np.array_equal(a, b))
        return ok, 0.0 if ok else 1.0, 'bool differs'
    if a.size == 0:
        return True, 0.0, ''
    with np.errstate(all='ignore'):
        af = a.astype(np.float64) if a.dtype.kind != 'c' else a
        bf = b.astype(np.float64) if b.dtype.kind != 'c' else b
        nan_a, nan_b = np.isnan(af), np.isnan(bf)
        if not np.array_equal(nan_a, nan_b):
            n = int(np.sum(nan_a != nan_b))
            return False, float('inf'), f'NaN pattern differs at {n} places'
        inf_a, inf_b = np.isinf(af), np.isinf(bf)
        if not np.array_equal(inf_a, inf_b) or np.any(af[inf_a] != bf[inf_b]):
            return False, float('inf'), 'inf pattern differs'
        fin = ~(nan_a | inf_a)
        if not fin.any():
            return True, 0.0, ''
        x, y = af[fin], bf[fin]
        diff = np.abs(x - y)
        scale = np.maximum(np.abs(x), np.abs(y))
        tol = atol + rtol * scale
        reldev = float(np.max(diff / np.maximum(scale, 1e-300) * (scale > 0)))
        absdev = float(np.max(diff))
        dev = min(reldev, absdev) if atol > 0 else (reldev if rtol > 0 else absdev)
        bad = diff > tol
        if bad.any():
            i = int(np.argmax(diff - tol))
            return False, dev, (f'{int(bad.sum())}/{x.size} differ; worst '
                                f'obs={x[i]!r} exp={y[i]!r} diff={diff[i]:.3e} tol={tol if np.isscalar(tol) else tol[i]:.3e}')
        return True, dev, ''


def exact(a, b):
    return same(a, b, 0.0, 0.0)[0]
