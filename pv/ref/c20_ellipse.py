"""C20 reference: analytic elliptical light distributions and ellipse coordinates.

Nothing in here imports photutils.  Conventions (from the photutils docstrings):
eps = 1 - b/a;  pa = angle of the semimajor axis from +x towards +y (radians);
a point at polar radius r and polar angle phi (measured from the semimajor
axis) has image coordinates  x = x0 + r cos(phi + pa),  y = y0 + r sin(phi + pa).
"""
from __future__ import annotations

import math

import numpy as np
from scipy.special import gammaincinv

TWO_PI = 2.0 * math.pi


def sersic_bn(n):
    """b_n such that the effective radius encloses half of the light."""
    return float(gammaincinv(2.0 * n, 0.5))


def radial_law(kind, amp, scale, n=None):
    """Return f(r) (vectorised), strictly decreasing in r >= 0.

    kind 'sersic':  amp * exp(-b_n ((r/scale)**(1/n) - 1))   (amp = intensity at r = scale)
    kind 'gauss' :  amp * exp(-r**2 / (2 scale**2))
    """
    if kind == 'sersic':
        bn = sersic_bn(n)

        def f(r):
            r = np.asarray(r, dtype=float)
            return amp * np.exp(-bn * ((r / scale) ** (1.0 / n) - 1.0))
        return f
    if kind == 'gauss':
        def f(r):
            r = np.asarray(r, dtype=float)
            return amp * np.exp(-0.5 * (r / scale) ** 2)
        return f
    raise ValueError(kind)


def elliptical_radius(x, y, x0, y0, eps, pa):
    """Semimajor axis of the ellipse (x0, y0, eps, pa) that passes through (x, y)."""
    dx = np.asarray(x, dtype=float) - x0
    dy = np.asarray(y, dtype=float) - y0
    c, s = math.cos(pa), math.sin(pa)
    xr = dx * c + dy * s
    yr = -dx * s + dy * c
    return np.sqrt(xr * xr + (yr / (1.0 - eps)) ** 2)


def render(shape, x0, y0, eps, pa, f, background=0.0):
    """Point-sampled image I[j, i] = f(elliptical radius of pixel centre (i, j))."""
    yy, xx = np.mgrid[0:shape[0], 0:shape[1]]
    return f(elliptical_radius(xx, yy, x0, y0, eps, pa)) + background


def ellipse_polar_radius(sma, eps, phi):
    """Distance centre -> ellipse along the direction phi (from the semimajor axis)."""
    q = 1.0 - eps
    return sma * q / np.sqrt((q * np.cos(phi)) ** 2 + np.sin(phi) ** 2)


def to_polar_ref(x, y, x0, y0, pa):
    """(radius, angle in [0, 2 pi)) of image point (x, y) in the ellipse system.

    angle is undefined at the centre (radius 0); NaN is returned there.
    """
    dx = np.asarray(x, dtype=float) - x0
    dy = np.asarray(y, dtype=float) - y0
    r = np.hypot(dx, dy)
    ang = np.mod(np.arctan2(dy, dx) - pa, TWO_PI)
    ang = np.where(r > 0, ang, np.nan)
    return r, ang


def from_polar_ref(r, phi, x0, y0, pa):
    return x0 + r * np.cos(phi + pa), y0 + r * np.sin(phi + pa)


def ang_diff(a, b, period):
    """Smallest absolute difference between angles modulo `period`."""
    d = np.mod(np.asarray(a, dtype=float) - b, period)
    return np.minimum(d, period - d)


def pa_diff(a, b):
    """Position angles are axes: difference modulo pi, in [0, pi/2]."""
    return ang_diff(a, b, math.pi)


def selftest():
    # Sersic constants known from the literature
    assert abs(sersic_bn(4.0) - 7.669) < 1e-3
    assert abs(sersic_bn(1.0) - 1.678) < 1e-3
    f = radial_law('sersic', 3.0, 10.0, 2.5)
    assert abs(float(f(10.0)) - 3.0) < 1e-12
    assert np.all(np.diff(f(np.linspace(0, 50, 200))) < 0)
    g = radial_law('gauss', 2.0, 5.0)
    assert abs(float(g(5.0)) - 2.0 * math.exp(-0.5)) < 1e-15
    # points on a rotated ellipse have elliptical radius = sma
    rng = np.random.default_rng(1)
    for _ in range(50):
        x0, y0 = rng.uniform(-5, 5, 2)
        a = rng.uniform(0.5, 30)
        eps = rng.uniform(0, 0.9)
        pa = rng.uniform(-math.pi, math.pi)
        t = rng.uniform(0, TWO_PI, 20)
        xe, ye = a * np.cos(t), a * (1 - eps) * np.sin(t)
        x = x0 + xe * math.cos(pa) - ye * math.sin(pa)
        y = y0 + xe * math.sin(pa) + ye * math.cos(pa)
        assert np.allclose(elliptical_radius(x, y, x0, y0, eps, pa), a, rtol=1e-12)
        # polar form: same points through (r, phi)
        r, phi = to_polar_ref(x, y, x0, y0, pa)
        assert np.allclose(r, ellipse_polar_radius(a, eps, phi), rtol=1e-11)
        xb, yb = from_polar_ref(r, phi, x0, y0, pa)
        assert np.allclose(xb, x, atol=1e-11) and np.allclose(yb, y, atol=1e-11)
        assert np.all((phi >= 0) & (phi < TWO_PI))
    # hand cases: pa = 0, centre origin
    r, phi = to_polar_ref(np.array([1.0, 0.0, -2.0, 0.0]), np.array([0.0, 3.0, 0.0, -1.0]), 0.0, 0.0, 0.0)
    assert np.allclose(r, [1, 3, 2, 1]) and np.allclose(phi, [0, math.pi / 2, math.pi, 1.5 * math.pi])
    r, phi = to_polar_ref(1.0, 1.0, 0.0, 0.0, math.pi / 4)
    assert abs(float(phi)) < 1e-15 or abs(float(phi) - TWO_PI) < 1e-15
    assert abs(float(pa_diff(0.01, math.pi - 0.01)) - 0.02) < 1e-12
    assert abs(float(pa_diff(1.0, 1.0 + math.pi))) < 1e-12
    assert abs(float(pa_diff(0.0, math.pi / 2)) - math.pi / 2) < 1e-12
    # rendered image: for a round profile the maximum is at the pixel nearest to the centre; for a
    # flattened one the major axis is brighter than the minor axis at equal distance
    img = render((41, 41), 20.3, 19.6, 0.0, 0.3, radial_law('gauss', 1.0, 6.0))
    j, i = np.unravel_index(np.argmax(img), img.shape)
    assert (i, j) == (20, 20)
    img = render((41, 41), 20.3, 19.6, 0.5, math.radians(30), radial_law('gauss', 1.0, 6.0))
    xa, ya = from_polar_ref(8.0, 0.0, 20.3, 19.6, math.radians(30))
    xb, yb = from_polar_ref(8.0, math.pi / 2, 20.3, 19.6, math.radians(30))
    assert img[int(round(ya)), int(round(xa))] > img[int(round(yb)), int(round(xb))]
