"""C01 reference geometry (independent of photutils).

* exact overlap of the unit pixel squares of a grid with a circle / rotated
  ellipse: area(polygon ∩ unit disk) by the edge-wise Green formula.  Every
  directed polygon edge is split at its crossings with the unit circle; the
  piece inside the disk contributes 1/2 cross(A, B) (it is part of the boundary
  of the intersection), the pieces outside contribute 1/2 (signed angle swept as
  seen from the origin) because radially they project onto the arcs that
  replace them.  Circle: coordinates / r, result * r^2; ellipse: rotate by
  -theta, scale by (1/a, 1/b), result * a b.  No quadrant or sorted-vertex case
  analysis, i.e. not the library's algorithm.
* (sub)pixel-centre sampling with a tie band: per pixel the interval
  [lo, hi] of admissible counts of sample points inside the shape when the
  boundary is moved by -/+ eps.
* exact pixel/rotated-rectangle overlap by shapely (trusted base) and the
  per-pixel error bound of the 32x32 sub-sampling.
* bounding-box extents, brute-force index sets for overlap slices.

Conventions: pixel (iy, ix) covers [ix-0.5, ix+0.5] x [iy-0.5, iy+0.5].
"""
from __future__ import annotations

import math

import numpy as np

HALF_DIAG = math.sqrt(0.5)


# ----------------------------------------------------------------------
# polygon ∩ unit disk
# ----------------------------------------------------------------------
def _angle(ux, uy, vx, vy):
    return np.arctan2(ux * vy - uy * vx, ux * vx + uy * vy)


def poly_disk_area(vx, vy):
    """Area of (polygon ∩ unit disk) for N polygons given by vertex arrays
    vx, vy of shape (N, K), counter-clockwise.  Returns (area, state) with
    state = +1 where every vertex is inside or on the circle (polygon ⊂ disk,
    by convexity of the disk; area is then the polygon area), -1 where no
    edge has a piece inside and the origin is not enclosed (disjoint; area is
    exactly 0), 0 otherwise."""
    vx = np.asarray(vx, float)
    vy = np.asarray(vy, float)
    n, k = vx.shape
    total = np.zeros(n)
    any_inside_piece = np.zeros(n, bool)
    wind = np.zeros(n)
    for e in range(k):
        p0x, p0y = vx[:, e], vy[:, e]
        p1x, p1y = vx[:, (e + 1) % k], vy[:, (e + 1) % k]
        dx, dy = p1x - p0x, p1y - p0y
        a = dx * dx + dy * dy
        b = p0x * dx + p0y * dy
        c = p0x * p0x + p0y * p0y - 1.0
        disc = b * b - a * c
        has = (disc > 0) & (a > 0)
        sq = np.sqrt(np.where(has, disc, 0.0))
        q = -(b + np.copysign(sq, b))
        with np.errstate(divide='ignore', invalid='ignore'):
            ta_ = np.where(has & (q != 0), q / np.where(a > 0, a, 1.0), 0.0)
            tb_ = np.where(has & (q != 0), c / np.where(q != 0, q, 1.0), 0.0)
        t1 = np.minimum(ta_, tb_)
        t2 = np.maximum(ta_, tb_)
        ta = np.clip(t1, 0.0, 1.0)
        tb = np.clip(t2, 0.0, 1.0)
        piece = has & (q != 0) & (tb > ta)
        ta = np.where(piece, ta, 0.0)
        tb = np.where(piece, tb, 0.0)
        ax, ay = p0x + ta * dx, p0y + ta * dy
        bx, by = p0x + tb * dx, p0y + tb * dy
        # snap to the end points when the parameter was clipped (no rounding)
        ax = np.where(ta == 0.0, p0x, ax)
        ay = np.where(ta == 0.0, p0y, ay)
        end = piece & (tb == 1.0)
        bx = np.where(end, p1x, bx)
        by = np.where(end, p1y, by)
        contrib = (_angle(p0x, p0y, ax, ay) + (ax * by - ay * bx)
                   + _angle(bx, by, p1x, p1y))
        total += contrib
        any_inside_piece |= piece
        wind += _angle(p0x, p0y, p1x, p1y)
    area = 0.5 * total
    d2 = vx * vx + vy * vy
    inside_all = np.all(d2 <= 1.0, axis=1)
    encl = np.abs(wind) > math.pi          # origin enclosed by the polygon (|winding| = 2 pi)
    state = np.zeros(n, int)
    state[inside_all] = 1
    outside = ~any_inside_piece & ~encl & ~inside_all
    state[outside] = -1
    # polygon area for the contained case (shoelace), exact 0 for the disjoint case
    if inside_all.any():
        sh = np.zeros(n)
        for e in range(k):
            sh += vx[:, e] * vy[:, (e + 1) % k] - vy[:, e] * vx[:, (e + 1) % k]
        area = np.where(inside_all, 0.5 * sh, area)
    area = np.where(outside, 0.0, area)
    return area, state


def _pixel_corners(ixmin, ixmax, iymin, iymax, xc, yc):
    """Corner coordinates (relative to the centre) of every pixel of the box,
    counter-clockwise: shape (ny*nx, 4)."""
    ix = np.arange(ixmin, ixmax, dtype=float)
    iy = np.arange(iymin, iymax, dtype=float)
    x0 = (ix - 0.5) - xc
    x1 = (ix + 0.5) - xc
    y0 = (iy - 0.5) - yc
    y1 = (iy + 0.5) - yc
    X0, Y0 = np.meshgrid(x0, y0)
    X1, Y1 = np.meshgrid(x1, y1)
    cx = np.stack([X0.ravel(), X1.ravel(), X1.ravel(), X0.ravel()], axis=1)
    cy = np.stack([Y0.ravel(), Y0.ravel(), Y1.ravel(), Y1.ravel()], axis=1)
    return cx, cy


def _to_unit(cx, cy, a, b, theta):
    ct, st = math.cos(theta), math.sin(theta)
    ux = (cx * ct + cy * st) / a
    uy = (-cx * st + cy * ct) / b
    return ux, uy


def exact_fractions_full(box, xc, yc, a, b=None, theta=0.0):
    """Fraction of every pixel of box=(ixmin, ixmax, iymin, iymax) covered by
    the circle of radius a (b is None) or the ellipse (a, b, theta) centred on
    (xc, yc).  Returns (frac[ny, nx], state[ny, nx]).  Every pixel goes through
    the edge algorithm."""
    ixmin, ixmax, iymin, iymax = box
    ny, nx = iymax - iymin, ixmax - ixmin
    cx, cy = _pixel_corners(ixmin, ixmax, iymin, iymax, xc, yc)
    if b is None:
        ux, uy = cx / a, cy / a
        scale = a * a
    else:
        ux, uy = _to_unit(cx, cy, a, b, theta)
        scale = a * b
    area, state = poly_disk_area(ux, uy)
    frac = area * scale
    frac = np.where(state == 1, 1.0, frac)
    return frac.reshape(ny, nx), state.reshape(ny, nx)


def exact_fractions(box, xc, yc, a, b=None, theta=0.0):
    """Same result as exact_fractions_full, but pixels that are certainly inside
    or outside are classified first by a rigorous bound (distance of the pixel
    centre in the unit-disk frame -/+ the circum-radius of the pixel's image),
    only the remaining band goes through the edge algorithm."""
    ixmin, ixmax, iymin, iymax = box
    ny, nx = iymax - iymin, ixmax - ixmin
    if nx * ny < 400:
        return exact_fractions_full(box, xc, yc, a, b, theta)
    ix = np.arange(ixmin, ixmax, dtype=float) - xc
    iy = np.arange(iymin, iymax, dtype=float) - yc
    X, Y = np.meshgrid(ix, iy)
    if b is None:
        ux, uy = X / a, Y / a
        rho = HALF_DIAG / a
        scale = a * a
    else:
        ux, uy = _to_unit(X, Y, a, b, theta)
        h1 = _to_unit(np.array([0.5]), np.array([0.5]), a, b, theta)
        h2 = _to_unit(np.array([0.5]), np.array([-0.5]), a, b, theta)
        rho = max(math.hypot(float(h1[0][0]), float(h1[1][0])), math.hypot(float(h2[0][0]), float(h2[1][0])))
        scale = a * b
    rho *= (1 + 1e-12)
    d = np.hypot(ux, uy)
    inside = d + rho <= 1.0 - 1e-12
    outside = d - rho >= 1.0 + 1e-12
    frac = np.zeros((ny, nx))
    state = np.zeros((ny, nx), int)
    frac[inside] = 1.0
    state[inside] = 1
    state[outside] = -1
    jj, ii = np.nonzero(~inside & ~outside)
    if len(jj):
        x0 = (ii + ixmin - 0.5) - xc
        x1 = (ii + ixmin + 0.5) - xc
        y0 = (jj + iymin - 0.5) - yc
        y1 = (jj + iymin + 0.5) - yc
        cx = np.stack([x0, x1, x1, x0], axis=1)
        cy = np.stack([y0, y0, y1, y1], axis=1)
        if b is None:
            vx, vy = cx / a, cy / a
        else:
            vx, vy = _to_unit(cx, cy, a, b, theta)
        area, st = poly_disk_area(vx, vy)
        fr = np.where(st == 1, 1.0, area * scale)
        frac[jj, ii] = fr
        state[jj, ii] = st
    return frac, state


# ----------------------------------------------------------------------
# rectangles: exact overlap by shapely, separating-axis classification
# ----------------------------------------------------------------------
def rect_corners(w, h, theta):
    ct, st = math.cos(theta), math.sin(theta)
    pts = []
    for sx, sy in ((-1, -1), (1, -1), (1, 1), (-1, 1)):
        x, y = sx * w / 2.0, sy * h / 2.0
        pts.append((x * ct - y * st, x * st + y * ct))
    return pts


def rect_exact_fractions(box, xc, yc, w, h, theta):
    """True fraction of every pixel covered by the rotated rectangle (shapely for
    the pixels that the separating-axis test cannot decide)."""
    import shapely
    ixmin, ixmax, iymin, iymax = box
    ny, nx = iymax - iymin, ixmax - ixmin
    st = rect_state(box, xc, yc, w, h, theta, 1e-12)
    out = np.zeros((ny, nx))
    out[st == 1] = 1.0
    jj, ii = np.nonzero(st == 0)
    if len(jj):
        X = (ii + ixmin).astype(float) - xc
        Y = (jj + iymin).astype(float) - yc
        boxes = shapely.box(X - 0.5, Y - 0.5, X + 0.5, Y + 0.5)
        rect = shapely.Polygon(rect_corners(w, h, theta))
        out[jj, ii] = shapely.area(shapely.intersection(boxes, rect))
    return out


def rect_state(box, xc, yc, w, h, theta, eps):
    """+1 pixel ⊂ rectangle (all corners inside by > eps), -1 disjoint by > eps
    (separating axis among the 4 axes of the two rectangles), else 0."""
    ixmin, ixmax, iymin, iymax = box
    ny, nx = iymax - iymin, ixmax - ixmin
    cx, cy = _pixel_corners(ixmin, ixmax, iymin, iymax, xc, yc)
    ct, st = math.cos(theta), math.sin(theta)
    tx = cx * ct + cy * st
    ty = -cx * st + cy * ct
    hw, hh = w / 2.0, h / 2.0
    inside = np.all((np.abs(tx) < hw - eps) & (np.abs(ty) < hh - eps), axis=1)
    sep = ((tx.min(1) > hw + eps) | (tx.max(1) < -hw - eps)
           | (ty.min(1) > hh + eps) | (ty.max(1) < -hh - eps))
    rc = np.array(rect_corners(w, h, theta))
    rx0, rx1, ry0, ry1 = rc[:, 0].min(), rc[:, 0].max(), rc[:, 1].min(), rc[:, 1].max()
    sep |= ((cx.min(1) > rx1 + eps) | (cx.max(1) < rx0 - eps)
            | (cy.min(1) > ry1 + eps) | (cy.max(1) < ry0 - eps))
    state = np.zeros(len(cx), int)
    state[inside] = 1
    state[sep & ~inside] = -1
    return state.reshape(ny, nx)


# ----------------------------------------------------------------------
# (sub)pixel-centre sampling with a tie band
# ----------------------------------------------------------------------
def _margin_circle(x, y, r):
    """signed distance to the boundary (negative inside)."""
    return np.hypot(x, y) - r


def _margin_ellipse(x, y, a, b, theta):
    """first-order signed distance to the ellipse boundary (negative inside):
    f / |grad f| with f = (x'/a)^2 + (y'/b)^2 - 1; near the boundary this is the
    distance a point must move to change sides, which is what the tie band
    needs; far from the boundary only its sign matters."""
    ct, st = math.cos(theta), math.sin(theta)
    xt = x * ct + y * st
    yt = -x * st + y * ct
    f = (xt / a) ** 2 + (yt / b) ** 2 - 1.0
    g = 2.0 * np.sqrt((xt / (a * a)) ** 2 + (yt / (b * b)) ** 2)
    g = np.maximum(g, 1e-300)
    return f / g, f


def _margin_rect(x, y, w, h, theta):
    """signed distance to the rectangle boundary (negative inside)."""
    ct, st = math.cos(theta), math.sin(theta)
    xt = x * ct + y * st
    yt = -x * st + y * ct
    dx = np.abs(xt) - w / 2.0
    dy = np.abs(yt) - h / 2.0
    return np.hypot(np.maximum(dx, 0.0), np.maximum(dy, 0.0)) + np.minimum(np.maximum(dx, dy), 0.0)


def shape_margin(kind, prm, x, y):
    """signed boundary margin in pixel units (negative inside) of sample points
    relative to the centre.  kind in circle/ellipse/rect."""
    if kind == 'circle':
        return _margin_circle(x, y, prm['r'])
    if kind == 'ellipse':
        m, f = _margin_ellipse(x, y, prm['a'], prm['b'], prm['theta'])
        # the first-order distance under-estimates far inside a needle; it is only
        # used against eps (1e-9), where first order is exact to O(eps^2/size)
        return m
    if kind == 'rect':
        return _margin_rect(x, y, prm['w'], prm['h'], prm['theta'])
    raise ValueError(kind)


def sample_points(ixs, iys, xc, yc, s):
    """Sample coordinates relative to the centre for pixels (iys[k], ixs[k]):
    arrays of shape (K, s, s): x varies along the last axis."""
    off = (np.arange(s) + 0.5) / s - 0.5
    x = ((np.asarray(ixs, float) - xc)[:, None, None] + off[None, None, :])
    y = ((np.asarray(iys, float) - yc)[:, None, None] + off[None, :, None])
    x, y = np.broadcast_arrays(x, y)
    return x, y


def sampled_bounds(box, xc, yc, s, outer, inner=None, eps=1e-9, state=None, max_points=4_000_000):
    """Admissible interval of the sampled weight of every pixel of the box.

    outer / inner = (kind, params) of the shape and (for an annulus) of the
    hole.  A sample point counts for `lo` when it is inside the outer shape
    and outside the hole by more than eps, for `hi` when it is so up to eps.
    `state` (optional, [ny, nx] of +1/-1/0) marks pixels known to lie entirely
    inside the shape (+1) or entirely outside of it or entirely in the hole
    (-1); they get lo=hi=1 resp. 0 without sampling.  Returns
    (lo, hi, n_tie) as weight arrays (counts / s^2) and the number of sample
    points inside a tie band; None if the number of points would exceed
    max_points."""
    ixmin, ixmax, iymin, iymax = box
    ny, nx = iymax - iymin, ixmax - ixmin
    lo = np.zeros((ny, nx))
    hi = np.zeros((ny, nx))
    if state is None:
        state = np.zeros((ny, nx), int)
    lo[state == 1] = 1.0
    hi[state == 1] = 1.0
    jj, ii = np.nonzero(state == 0)
    if len(jj) * s * s > max_points:
        return None
    ntie = 0
    chunk = max(1, 1_000_000 // (s * s))
    for k0 in range(0, len(jj), chunk):
        j, i = jj[k0:k0 + chunk], ii[k0:k0 + chunk]
        x, y = sample_points(i + ixmin, j + iymin, xc, yc, s)
        mo = shape_margin(outer[0], outer[1], x, y)
        sure = mo < -eps
        poss = mo < eps
        if inner is not None:
            mi = shape_margin(inner[0], inner[1], x, y)
            sure &= mi > eps
            poss &= mi > -eps
        ntie += int(np.sum(poss & ~sure))
        lo[j, i] = sure.sum(axis=(1, 2)) / float(s * s)
        hi[j, i] = poss.sum(axis=(1, 2)) / float(s * s)
    return lo, hi, ntie


def rect_subsample_uncertain(box, xc, yc, w, h, theta, s=32, state=None):
    """Per pixel: number of s x s sub-cells whose centre lies within half a
    sub-cell diagonal of the rectangle boundary (only those cells can be cut
    by the boundary, each contributes an error of at most one cell)."""
    ixmin, ixmax, iymin, iymax = box
    ny, nx = iymax - iymin, ixmax - ixmin
    out = np.zeros((ny, nx))
    if state is None:
        state = np.zeros((ny, nx), int)
    jj, ii = np.nonzero(state == 0)
    hd = HALF_DIAG / s * (1 + 1e-9) + 1e-9
    chunk = max(1, 1_000_000 // (s * s))
    for k0 in range(0, len(jj), chunk):
        j, i = jj[k0:k0 + chunk], ii[k0:k0 + chunk]
        x, y = sample_points(i + ixmin, j + iymin, xc, yc, s)
        m = _margin_rect(x, y, w, h, theta)
        out[j, i] = (np.abs(m) <= hd).sum(axis=(1, 2))
    return out


# ----------------------------------------------------------------------
# extents, bounding boxes
# ----------------------------------------------------------------------
def extents(kind, prm):
    """True half-extents (ex, ey) of the shape's axis-aligned bounding
    rectangle."""
    if kind == 'circle':
        return prm['r'], prm['r']
    t = prm['theta']
    ct, st = math.cos(t), math.sin(t)
    if kind == 'ellipse':
        a, b = prm['a'], prm['b']
        return math.hypot(a * ct, b * st), math.hypot(a * st, b * ct)
    if kind == 'rect':
        hw, hh = prm['w'] / 2.0, prm['h'] / 2.0
        return abs(hw * ct) + abs(hh * st), abs(hw * st) + abs(hh * ct)
    raise ValueError(kind)


def _ulp(x):
    return math.ulp(abs(x)) if x != 0 else 0.0


def bbox_admissible(xc, yc, ex, ey, eps):
    """Sets of admissible (ixmin, ixmax, iymin, iymax) values of the smallest
    integer pixel box containing [xc-ex, xc+ex] x [yc-ey, yc+ey]:
    ixmin = floor(xmin + 0.5), ixmax = ceil(xmax + 0.5) (exclusive), with the
    edges moved by -/+ eps.  eps = 0 gives singletons (exact arithmetic)."""
    out = []
    for c, e in ((xc, ex), (yc, ey)):
        lo, hi = c - e, c + e
        mins = {math.floor(lo + 0.5 - eps), math.floor(lo + 0.5 + eps), math.floor(lo + 0.5)}
        maxs = {math.ceil(hi + 0.5 - eps), math.ceil(hi + 0.5 + eps), math.ceil(hi + 0.5)}
        out += [mins, maxs]
    return out


def is_dyadic(v, bits=20, limit=2.0 ** 30):
    """v is a multiple of 2^-bits of moderate size: sums/differences of such
    numbers are exact in float64."""
    if not math.isfinite(v) or abs(v) > limit:
        return False
    return (v * (1 << bits)) == math.floor(v * (1 << bits))


# ----------------------------------------------------------------------
# brute-force index sets for overlap slices
# ----------------------------------------------------------------------
def common_pixels(box, shape):
    """(ys, xs) image indices common to the box and an image of `shape`."""
    ixmin, ixmax, iymin, iymax = box
    ys = [y for y in range(shape[0]) if iymin <= y < iymax]
    xs = [x for x in range(shape[1]) if ixmin <= x < ixmax]
    return ys, xs


# ----------------------------------------------------------------------
# self-test (facts independent of photutils)
# ----------------------------------------------------------------------
def _covering_box(xc, yc, ex, ey):
    return (math.floor(xc - ex) - 1, math.ceil(xc + ex) + 2,
            math.floor(yc - ey) - 1, math.ceil(yc + ey) + 2)


def selftest():
    rng = np.random.default_rng(12345)
    # 1. total area over a covering grid
    worst = 0.0
    for r in (0.03, 0.3, 0.5, 1.0, 2.5, 7.3, 31.0, 120.0, 300.0):
        for _ in range(3):
            xc, yc = rng.uniform(-3, 3, 2)
            box = _covering_box(xc, yc, r, r)
            f, st = exact_fractions(box, xc, yc, r)
            rel = abs(f.sum() - math.pi * r * r) / (math.pi * r * r)
            worst = max(worst, rel)
            assert rel < 1e-10, ('circle total area', r, rel)
            assert f.min() >= 0 and f.max() <= 1 + 1e-12, ('circle range', r, f.min(), f.max())
    for a, q in ((0.05, 0.6), (0.8, 0.02), (3.0, 0.3), (10.0, 0.02), (57.0, 0.5), (300.0, 0.11)):
        for th in (0.0, 0.3, math.pi / 4, math.pi / 2, 2.5, -1.1, 1e-12, math.pi):
            b = a * q
            xc, yc = rng.uniform(-3, 3, 2)
            ex, ey = extents('ellipse', dict(a=a, b=b, theta=th))
            box = _covering_box(xc, yc, ex, ey)
            f, st = exact_fractions(box, xc, yc, a, b, th)
            rel = abs(f.sum() - math.pi * a * b) / (math.pi * a * b)
            worst = max(worst, rel)
            assert rel < 1e-10, ('ellipse total area', a, b, th, rel)
            assert f.min() >= -1e-13 and f.max() <= 1 + 1e-12, ('ellipse range', a, b, th, f.min(), f.max())
    # 2. hand-computed pixels
    f, _ = exact_fractions((1, 2, 1, 2), 0.5, 0.5, 1.0)          # pixel [0,1]^2 vs unit circle at the corner
    assert abs(f[0, 0] - math.pi / 4) < 1e-14, f
    f, _ = exact_fractions((0, 1, 0, 1), 0.0, 0.0, 0.5)          # inscribed circle
    assert abs(f[0, 0] - math.pi / 4) < 1e-14, f
    f, st = exact_fractions((0, 1, 0, 1), 0.0, 0.0, HALF_DIAG)   # circle through the 4 corners
    assert abs(f[0, 0] - 1.0) < 1e-14, f
    f, _ = exact_fractions((1, 2, 0, 1), 0.0, 0.0, 1.0)          # pixel [0.5,1.5]x[-0.5,0.5] vs unit circle
    hand = (0.5 * math.sqrt(0.75) + math.asin(0.5)) - 0.5
    assert abs(f[0, 0] - hand) < 1e-14, (f, hand)
    f, _ = exact_fractions((1, 2, 1, 2), 0.5, 0.5, 2.0, 1.0, 0.0)  # pixel [0,1]^2 vs ellipse a=2 b=1
    hand = 0.5 * math.sqrt(0.75) + math.asin(0.5)
    assert abs(f[0, 0] - hand) < 1e-14, (f, hand)
    f2, _ = exact_fractions((1, 2, 1, 2), 0.5, 0.5, 1.0, 2.0, math.pi / 2)  # same ellipse via rotation
    assert abs(f2[0, 0] - hand) < 1e-13, (f2, hand)
    f3, _ = exact_fractions((5, 6, 5, 6), 0.0, 0.0, 2.0)         # far outside: exactly 0
    assert f3[0, 0] == 0.0
    # 3. supersampling agreement (256^2 samples per pixel)
    for _ in range(12):
        a = float(rng.uniform(0.3, 4.0))
        b = float(a * rng.uniform(0.05, 1.0))
        th = float(rng.uniform(-math.pi, math.pi))
        xc, yc = rng.uniform(-0.5, 0.5, 2)
        ex, ey = extents('ellipse', dict(a=a, b=b, theta=th))
        box = (math.floor(xc - ex + 0.5), math.ceil(xc + ex + 0.5),
               math.floor(yc - ey + 0.5), math.ceil(yc + ey + 0.5))
        f, st = exact_fractions(box, xc, yc, a, b, th)
        lo, hi, _n = sampled_bounds(box, xc, yc, 256, ('ellipse', dict(a=a, b=b, theta=th)), max_points=10**9)
        d = np.abs(f - 0.5 * (lo + hi)).max()
        assert d < 1e-3 / 2, ('supersampling', a, b, th, d)
        # classification is consistent with the sampled values
        assert np.all(lo[st == 1] == 1.0) and np.all(hi[st == -1] == 0.0)
        # circle as a special ellipse: two code paths of the reference agree
        fc, _ = exact_fractions(box, xc, yc, a)
        fe, _ = exact_fractions(box, xc, yc, a, a, th)
        assert np.abs(fc - fe).max() < 1e-12
    # 3b. pre-classified evaluation == full evaluation
    for _ in range(6):
        a = float(rng.uniform(8.0, 40.0))
        b = float(a * rng.uniform(0.03, 1.0))
        th = float(rng.uniform(-math.pi, math.pi))
        xc, yc = rng.uniform(-0.5, 0.5, 2)
        ex, ey = extents('ellipse', dict(a=a, b=b, theta=th))
        box = _covering_box(xc, yc, ex, ey)
        f1, s1 = exact_fractions(box, xc, yc, a, b, th)
        f2, s2 = exact_fractions_full(box, xc, yc, a, b, th)
        assert np.abs(f1 - f2).max() < 1e-15, 'pre-classified path differs from the full evaluation'
        assert np.all(f2[s1 == 1] == 1.0) and np.all(f2[s1 == -1] == 0.0)
        f1, s1 = exact_fractions(box, xc, yc, a)
        f2, s2 = exact_fractions_full(box, xc, yc, a)
        assert np.abs(f1 - f2).max() < 1e-15 and np.all(f2[s1 == -1] == 0.0) and np.all(f2[s1 == 1] == 1.0)
    # 4. rectangle: shapely exact vs the sampling bound; SAT classification
    for _ in range(10):
        w, h = rng.uniform(0.2, 6.0, 2)
        th = float(rng.choice([0.0, math.pi / 4, float(rng.uniform(-3, 3))]))
        xc, yc = rng.uniform(-0.5, 0.5, 2)
        prm = dict(w=float(w), h=float(h), theta=th)
        ex, ey = extents('rect', prm)
        box = (math.floor(xc - ex + 0.5) - 1, math.ceil(xc + ex + 0.5) + 1,
               math.floor(yc - ey + 0.5) - 1, math.ceil(yc + ey + 0.5) + 1)
        tf = rect_exact_fractions(box, xc, yc, w, h, th)
        assert abs(tf.sum() - w * h) < 1e-12 * max(1, w * h), ('rect total', tf.sum(), w * h)
        st = rect_state(box, xc, yc, w, h, th, 1e-9)
        assert np.all(np.abs(tf[st == 1] - 1) < 1e-12) and np.all(tf[st == -1] == 0)
        lo, hi, _n = sampled_bounds(box, xc, yc, 32, ('rect', prm), state=st)
        unc = rect_subsample_uncertain(box, xc, yc, w, h, th, 32, state=st)
        assert np.all(np.abs(0.5 * (lo + hi) - tf) <= unc / 1024.0 + 1e-12), 'rect sampling bound'
    # 5. bbox formula: hand cases from the pixel convention
    assert [min(s) for s in bbox_admissible(10.0, 20.0, 2.5, 2.5, 0.0)] == [8, 13, 18, 23]
    assert [min(s) for s in bbox_admissible(1.0 + 4.5, 2.0 + 9.0, 4.5, 9.0, 0.0)] == [1, 11, 2, 21]
    ex, ey = extents('rect', dict(w=4.0, h=2.0, theta=math.pi / 2))
    assert abs(ex - 1.0) < 1e-15 and abs(ey - 2.0) < 1e-15
    ex, ey = extents('ellipse', dict(a=4.0, b=2.0, theta=math.pi / 2))
    assert abs(ex - 2.0) < 1e-15 and abs(ey - 4.0) < 1e-15
    # 6. index sets
    assert common_pixels((-2, 3, 4, 9), (6, 10)) == ([4, 5], [0, 1, 2])
    assert common_pixels((10, 12, 0, 2), (6, 10)) == ([0, 1], [])
    return worst


if __name__ == '__main__':
    import time
    t = time.time()
    print('selftest ok, worst total-area rel dev', selftest(), f'{time.time() - t:.2f}s')
