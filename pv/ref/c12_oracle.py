"""C12 bookkeeping oracles, independent of photutils (numpy only).

* single-linkage clusters by union-find over pairwise Euclidean distance, numbered by first appearance
* fit-window pixel bookkeeping: npixfit, centre pixel, masked/trimmed predicates
* documented flag bits from their definitions
"""
from __future__ import annotations

import numpy as np


# ----------------------------------------------------------------------------------------
def single_linkage(x, y, sep, eps=0.0):
    """Group labels (1..K, first appearance order) of the graph linking i~j when dist(i,j) < sep
    (documented: 'separated by less than this distance'); `eps` widens/narrows the threshold for tie bands."""
    x = np.asarray(x, float)
    y = np.asarray(y, float)
    n = len(x)
    parent = list(range(n))

    def find(a):
        while parent[a] != a:
            parent[a] = parent[parent[a]]
            a = parent[a]
        return a

    for i in range(n):
        for j in range(i + 1, n):
            if np.hypot(x[i] - x[j], y[i] - y[j]) < sep + eps:
                ri, rj = find(i), find(j)
                if ri != rj:
                    parent[max(ri, rj)] = min(ri, rj)
    labels = {}
    out = []
    for i in range(n):
        r = find(i)
        if r not in labels:
            labels[r] = len(labels) + 1
        out.append(labels[r])
    return np.array(out, dtype=int)


def same_partition(a, b):
    """True when two label vectors induce the same partition."""
    a = list(a)
    b = list(b)
    if len(a) != len(b):
        return False
    fa, fb = {}, {}
    for u, v in zip(a, b):
        if fa.setdefault(u, v) != v or fb.setdefault(v, u) != u:
            return False
    return True


def first_appearance(labels):
    """Relabel to 1..K in order of first appearance."""
    m = {}
    return np.array([m.setdefault(v, len(m) + 1) for v in labels], dtype=int)


def group_sizes(labels):
    labels = list(labels)
    return np.array([labels.count(v) for v in labels], dtype=int)


def tie_free(x, y, sep, band=1e-9):
    """No pairwise distance within `band` of the threshold (otherwise < vs <= is undecidable)."""
    x = np.asarray(x, float)
    y = np.asarray(y, float)
    d = np.hypot(x[:, None] - x[None, :], y[:, None] - y[None, :])
    iu = np.triu_indices(len(x), 1)
    return bool(np.all(np.abs(d[iu] - sep) > band)) if len(x) > 1 else True


# ----------------------------------------------------------------------------------------
def fit_window(shape, fit_shape, x, y):
    """(rows, cols, cx, cy): in-image pixel index arrays of the odd-sized window centred on the pixel containing
    (x, y) [pixel i covers i-0.5 .. i+0.5], and that centre pixel."""
    fy, fx = int(fit_shape[0]), int(fit_shape[1])
    cx, cy = int(np.floor(x + 0.5)), int(np.floor(y + 0.5))
    cols = np.arange(cx - (fx - 1) // 2, cx + (fx - 1) // 2 + 1)
    rows = np.arange(cy - (fy - 1) // 2, cy + (fy - 1) // 2 + 1)
    cols = cols[(cols >= 0) & (cols < shape[1])]
    rows = rows[(rows >= 0) & (rows < shape[0])]
    return rows, cols, cx, cy


def any_window(shape, wshape, x, y):
    """(rows, cols) of the window of any (odd or even) size wshape=(h, w) 'around' (x, y), trimmed to the image:
    the n indices starting at ceil(pos - n/2) (for odd n: centred on the pixel containing the position). The window
    always has exactly n pixels before trimming: taking the upper end as ceil(pos + n/2) instead loses a pixel when
    pos + n/2 rounds down to an integer (seen: x = 29.000000000000004, n = 10 -> 25..33, nine columns; a false alarm
    of `model_image_default_window_is_model_bounding_box` in a vp check run with VERIF_SEED=1)."""
    h, w = int(wshape[0]), int(wshape[1])
    r0 = int(np.ceil(y - h / 2.0))
    c0 = int(np.ceil(x - w / 2.0))
    r1, c1 = r0 + h, c0 + w
    rows = np.arange(max(r0, 0), min(r1, shape[0]))
    cols = np.arange(max(c0, 0), min(c1, shape[1]))
    return rows, cols


def window_facts(data, mask, fit_shape, x, y, centre=None):
    """Facts about one source's fit window.

    Returns dict: npix (unmasked finite in-image pixels), nmasked (in-image window pixels that are masked or
    non-finite), trimmed (window sticks out of the image), centre_ok (the centre pixel is in the image and usable),
    full (= fy*fx), good (bool window array), rows, cols.
    """
    shape = data.shape
    rows, cols, cx, cy = fit_window(shape, fit_shape, x, y)
    if centre is not None:
        # explicit centre pixel (a position exactly on a pixel boundary belongs to either neighbour)
        rows, cols, cx, cy = fit_window(shape, fit_shape, float(centre[0]), float(centre[1]))
    full = int(fit_shape[0]) * int(fit_shape[1])
    sub = data[np.ix_(rows, cols)]
    good = np.isfinite(sub)
    if mask is not None:
        good &= ~mask[np.ix_(rows, cols)]
    centre_ok = bool(0 <= cx < shape[1] and 0 <= cy < shape[0] and np.isfinite(data[cy, cx])
                     and (mask is None or not mask[cy, cx]))
    return dict(npix=int(good.sum()), nmasked=int(good.size - good.sum()), trimmed=good.size < full,
                centre_ok=centre_ok, full=full, good=good, rows=rows, cols=cols, cx=cx, cy=cy)


def half_integer_free(v, band=1e-9):
    """Positions not within `band` of a pixel boundary (x.5): the centre pixel is then unambiguous."""
    v = np.asarray(v, float)
    return bool(np.all(np.abs((v + 0.5) - np.round(v + 0.5)) > band))


# ----------------------------------------------------------------------------------------
def flag_expectations(facts, xfit, yfit, fluxfit, shape, bounds_hit, not_converged, cov_missing):
    """Three-valued expectation per documented bit: dict bit -> True (must be set) / False (must be clear) /
    None (either is defensible)."""
    exp = {}
    # 1: one or more pixels in the fit_shape region were masked
    if facts['nmasked'] > 0:
        exp[1] = True
    elif not facts['trimmed']:
        exp[1] = False
    else:
        exp[1] = None          # window only trimmed by the image edge: off-image pixels 'masked' or not
    # 2: fit position outside the input data. Pixel-edge convention: [-0.5, n-0.5]; pixel-centre convention
    # [0, n-1]; array-extent convention [0, n]. Must be set when outside under all, clear when inside under all.
    ny, nx = shape
    out_all = (xfit < -0.5 or yfit < -0.5 or xfit > nx or yfit > ny)
    in_all = (0 <= xfit <= nx - 1) and (0 <= yfit <= ny - 1)
    exp[2] = True if out_all else (False if in_all else None)
    # 4: fit flux <= 0
    exp[4] = bool(fluxfit <= 0)
    exp[8] = bool(not_converged)
    exp[16] = None if cov_missing is None else bool(cov_missing)
    exp[32] = None if bounds_hit is None else bool(bounds_hit)
    return exp


def selftest():
    # two clusters + a singleton, interleaved input order
    x = [0.0, 50.0, 1.0, 51.0, 100.0, 2.0]
    y = [0.0, 0.0, 0.0, 0.0, 0.0, 0.0]
    g = single_linkage(x, y, 1.5)
    assert list(g) == [1, 2, 1, 2, 3, 1], g
    assert list(group_sizes(g)) == [3, 2, 3, 2, 1, 3]
    # chain: 0-1-2 linked through the middle one only
    assert list(single_linkage([0, 1, 2], [0, 0, 0], 1.2)) == [1, 1, 1]
    assert list(single_linkage([0, 1, 2], [0, 0, 0], 0.9)) == [1, 2, 3]
    # strictness at an exact tie (3-4-5 triangle: distance exactly 5)
    assert list(single_linkage([0, 3], [0, 4], 5.0)) == [1, 2]
    assert list(single_linkage([0, 3], [0, 4], 5.0, eps=1e-9)) == [1, 1]
    assert not tie_free(np.array([0., 3.]), np.array([0., 4.]), 5.0)
    assert same_partition([1, 2, 1], [7, 3, 7]) and not same_partition([1, 2, 1], [7, 7, 3])
    assert list(first_appearance([7, 3, 7, 5])) == [1, 2, 1, 3]
    # windows
    data = np.zeros((10, 12))
    f = window_facts(data, None, (5, 7), 5.3, 4.6)
    assert (f['npix'], f['trimmed'], f['cx'], f['cy']) == (35, False, 5, 5)
    assert list(f['cols']) == [2, 3, 4, 5, 6, 7, 8] and list(f['rows']) == [3, 4, 5, 6, 7]
    f = window_facts(data, None, (5, 7), 0.4, 9.2)
    assert f['npix'] == 3 * 4 and f['trimmed'] and f['centre_ok']
    m = np.zeros((10, 12), bool)
    m[5, 5] = True
    d2 = data.copy()
    d2[4, 4] = np.nan
    f = window_facts(d2, m, (5, 7), 5.3, 4.6)
    assert f['npix'] == 33 and f['nmasked'] == 2 and not f['centre_ok']
    f = window_facts(data, None, (5, 5), -0.7, 3.0)
    assert f['cx'] == -1 and not f['centre_ok'] and f['npix'] == 5 * 2
    e = flag_expectations(dict(nmasked=0, trimmed=True), -0.7, 3.0, 5.0, (10, 12), False, False, False)
    assert e[1] is None and e[2] is True and e[4] is False
    e = flag_expectations(dict(nmasked=1, trimmed=False), 11.3, 3.0, -1.0, (10, 12), True, True, True)
    assert e[1] is True and e[2] is None and e[4] and e[8] and e[16] and e[32]
    assert half_integer_free([1.2, 3.49]) and not half_integer_free([2.5])
    for (xx_, yy_) in ((5.3, 4.6), (0.4, 9.2), (-0.7, 3.0), (11.49, 0.2)):
        r1, c1, _, _ = fit_window((10, 12), (5, 7), xx_, yy_)
        r2, c2 = any_window((10, 12), (5, 7), xx_, yy_)
        assert list(r1) == list(r2) and list(c1) == list(c2)
    r, c = any_window((10, 12), (4, 6), 5.3, 4.6)      # even sizes: ceil(4.6-2)=3..6, ceil(5.3-3)=3..8
    assert list(r) == [3, 4, 5, 6] and list(c) == [3, 4, 5, 6, 7, 8]
