"""Structural exact comparison of catalogue property values (used by C08 and by the C07 relations).

struct_same(a, b) -> (ok, why).  Exact: same container length, same shapes, same dtype kind (numeric / bool / string), same units,
bitwise-equal numbers with NaN == NaN.  Understands Quantity, SkyCoord (frame name + lon/lat), masked arrays
(mask and unmasked data), photutils apertures (class + positions + shape parameters), BoundingBox, slices,
None, and treats list / tuple / object-ndarray as the same kind of sequence.

index_value(v, pos) applies an already resolved position (int or 1-D int array) to a parent value.
"""
from __future__ import annotations

import numpy as np


def _is_seq(x):
    return isinstance(x, (list, tuple)) or (isinstance(x, np.ndarray) and x.dtype == object)


def _kind(dt):
    # integer and floating values are compared by value (5 == 5.0: an index array becomes float as soon as one
    # source is fully masked and carries NaN); booleans, strings and objects stay distinct kinds
    k = np.dtype(dt).kind
    return 'n' if k in 'iuf' else k


def _num_same(a, b, path):
    a = np.asarray(a)
    b = np.asarray(b)
    if a.shape != b.shape:
        return False, f'{path}: shape {a.shape} != {b.shape}'
    if _kind(a.dtype) != _kind(b.dtype):
        return False, f'{path}: dtype kind {a.dtype} != {b.dtype}'
    if a.dtype.kind in 'fc' or b.dtype.kind in 'fc':
        ok = np.array_equal(a, b, equal_nan=True)
    else:
        ok = np.array_equal(a, b)
    if not ok:
        with np.errstate(all='ignore'):
            try:
                bad = ~((a == b) | ((a != a) & (b != b)))
                k = int(np.argmax(bad.ravel()))
                return False, (f'{path}: {int(bad.sum())}/{a.size} elements differ; first '
                               f'{a.ravel()[k]!r} != {b.ravel()[k]!r}')
            except Exception:  # noqa: BLE001
                return False, f'{path}: values differ'
    return True, ''


def struct_same(a, b, path='value'):
    from astropy.coordinates import SkyCoord
    from astropy.units import Quantity
    if a is None or b is None:
        if a is None and b is None:
            return True, ''
        return False, f'{path}: None vs {type(b if a is None else a).__name__}'
    if isinstance(a, SkyCoord) or isinstance(b, SkyCoord):
        if not (isinstance(a, SkyCoord) and isinstance(b, SkyCoord)):
            return False, f'{path}: SkyCoord vs {type(a).__name__}/{type(b).__name__}'
        if a.frame.name != b.frame.name:
            return False, f'{path}: frame {a.frame.name} != {b.frame.name}'
        if a.shape != b.shape:
            return False, f'{path}: SkyCoord shape {a.shape} != {b.shape}'
        ok, why = _num_same(a.spherical.lon.deg, b.spherical.lon.deg, path + '.lon')
        if not ok:
            return ok, why
        return _num_same(a.spherical.lat.deg, b.spherical.lat.deg, path + '.lat')
    if isinstance(a, Quantity) or isinstance(b, Quantity):
        if not (isinstance(a, Quantity) and isinstance(b, Quantity)):
            return False, f'{path}: Quantity vs plain ({type(a).__name__}/{type(b).__name__})'
        if a.unit != b.unit or str(a.unit) != str(b.unit):
            return False, f'{path}: unit {a.unit} != {b.unit}'
        return _num_same(a.value, b.value, path)
    if isinstance(a, np.ma.MaskedArray) or isinstance(b, np.ma.MaskedArray):
        if not (isinstance(a, np.ma.MaskedArray) and isinstance(b, np.ma.MaskedArray)):
            return False, f'{path}: masked vs plain array'
        ma, mb = np.ma.getmaskarray(a), np.ma.getmaskarray(b)
        if ma.shape != mb.shape or not np.array_equal(ma, mb):
            return False, f'{path}: masks differ'
        return _num_same(np.ma.getdata(a), np.ma.getdata(b), path + '.data')
    if type(a).__name__ == 'BoundingBox' or type(b).__name__ == 'BoundingBox':
        if type(a) is not type(b):
            return False, f'{path}: {type(a).__name__} vs {type(b).__name__}'
        ta = (a.ixmin, a.ixmax, a.iymin, a.iymax)
        tb = (b.ixmin, b.ixmax, b.iymin, b.iymax)
        return ta == tb, f'{path}: bbox {ta} != {tb}'
    if hasattr(a, '_params') and hasattr(a, 'positions') or hasattr(b, '_params') and hasattr(b, 'positions'):
        if type(a) is not type(b):
            return False, f'{path}: aperture class {type(a).__name__} vs {type(b).__name__}'
        pa, pb = a.positions, b.positions
        if isinstance(pa, SkyCoord):
            ok, why = struct_same(pa, pb, path + '.positions')
        else:
            ok, why = _num_same(pa, pb, path + '.positions')
        if not ok:
            return ok, why
        for prm in a._params:
            ok, why = struct_same(getattr(a, prm), getattr(b, prm), f'{path}.{prm}')
            if not ok:
                return ok, why
        return True, ''
    if isinstance(a, slice) or isinstance(b, slice):
        return a == b, f'{path}: slice {a} != {b}'
    if isinstance(a, str) or isinstance(b, str):
        return a == b, f'{path}: {a!r} != {b!r}'
    if type(a).__name__ == 'CutoutImage' or type(b).__name__ == 'CutoutImage':
        if type(a) is not type(b):
            return False, f'{path}: CutoutImage vs {type(b).__name__}'
        return struct_same(a.data, b.data, path + '.data')
    if type(a).__name__ == 'ApertureMask' or type(b).__name__ == 'ApertureMask':
        if type(a) is not type(b):
            return False, f'{path}: ApertureMask vs other'
        ok, why = struct_same(a.bbox, b.bbox, path + '.bbox')
        if not ok:
            return ok, why
        return _num_same(a.data, b.data, path + '.data')
    if _is_seq(a) or _is_seq(b):
        if not (_is_seq(a) and _is_seq(b)):
            # a numeric ndarray against a list of numbers: compare as numbers
            try:
                return _num_same(np.asarray(a, dtype=float), np.asarray(b, dtype=float), path)
            except Exception:  # noqa: BLE001
                return False, f'{path}: sequence vs {type(a).__name__}/{type(b).__name__}'
        if len(a) != len(b):
            return False, f'{path}: len {len(a)} != {len(b)}'
        for i, (x, y) in enumerate(zip(a, b)):
            ok, why = struct_same(x, y, f'{path}[{i}]')
            if not ok:
                return ok, why
        return True, ''
    try:
        return _num_same(a, b, path)
    except Exception as exc:  # noqa: BLE001
        return False, f'{path}: cannot compare {type(a).__name__} and {type(b).__name__}: {exc}'


def resolve_positions(n, idx):
    """Positions selected by idx in a length-n catalogue: int (scalar child) or 1-D int array."""
    pos = np.arange(n)[idx]
    if np.ndim(pos) == 0:
        return int(pos)
    return np.asarray(pos, dtype=int)


def index_value(v, pos):
    """Apply resolved positions to a per-source value of a non-scalar parent."""
    from astropy.coordinates import SkyCoord
    from astropy.units import Quantity
    scalar = isinstance(pos, int)
    if isinstance(v, (SkyCoord, Quantity, np.ma.MaskedArray)) or (
            isinstance(v, np.ndarray) and v.dtype != object):
        return v[pos]
    if _is_seq(v):
        if scalar:
            return v[pos]
        return [v[int(i)] for i in pos]
    if hasattr(v, '_params') and hasattr(v, 'positions'):      # multi-position aperture
        return v[pos]
    raise TypeError(f'cannot index {type(v).__name__}')


def selftest():
    import astropy.units as u
    from astropy.coordinates import SkyCoord
    assert struct_same(None, None)[0] and not struct_same(None, 1.0)[0]
    assert struct_same(np.array([1.0, np.nan]), np.array([1.0, np.nan]))[0]
    assert not struct_same(np.array([1.0, 2.0]), np.array([1.0, 2.0000000000000004]))[0]
    assert struct_same(np.array([1, 2]), np.array([1.0, 2.0]))[0]                # equal by value
    assert not struct_same(np.array([True, False]), np.array([1.0, 0.0]))[0]     # bool is not a number here
    assert not struct_same(np.array([1.0]), np.float64(1.0))[0]                  # shape (1,) vs ()
    assert struct_same(np.float64(1.0), 1.0)[0]
    assert not struct_same(1.0 * u.pix, 1.0)[0] and not struct_same(1.0 * u.pix, 1.0 * u.deg)[0]
    assert struct_same([np.ones(3), None], (np.ones(3), None))[0]
    assert not struct_same([np.ones(3), None], [np.ones(3), np.ones(1)])[0]
    a = np.ma.masked_array([1.0, 2.0], [False, True])
    assert struct_same(a, a.copy())[0] and not struct_same(a, np.ma.masked_array([1.0, 2.0], [True, False]))[0]
    s = SkyCoord([1.0, 2.0], [3.0, 4.0], unit='deg')
    assert struct_same(s, s[:])[0] and not struct_same(s, s[::-1])[0] and not struct_same(s[0], s[:1])[0]
    assert struct_same((slice(1, 2), slice(3, 4)), (slice(1, 2), slice(3, 4)))[0]
    assert resolve_positions(5, -1) == 4 and list(resolve_positions(5, slice(None, None, -2))) == [4, 2, 0]
    assert list(resolve_positions(3, np.array([True, False, True]))) == [0, 2]
    assert index_value([10, 20, 30], np.array([2, 2, 0])) == [30, 30, 10]
    assert index_value(np.arange(3.0), 1) == 1.0
