"""Table of public entry-point adapters shared by C03 (covariance) and C15 (representation).

Every adapter is an `EP`:

    name           stable name used in mechanism keys
    prepare(rng, scene) -> options (nested dict with pv.gen.c03_scenes markers on geometric leaves); drawn
                   ONCE on the baseline scene, then transformed together with the scene
    run(s, o)      s = unwrapped scene, o = unwrapped options; drives the real photutils API and returns
                   (outputs: dict name -> value, rows: None or (n, 4) array [xlo, xhi, ylo, yhi] = measurement
                   footprint of every row in continuous pixel coordinates of the array it was run on)
    spec           dict name -> K(kind, partner, per_row, rtol, atol) classifying every output
    relations      subset of {'translate', 'transpose', 'repr'}

Kinds (value v on the baseline; translation by integer (dx, dy); transposition):

    free      position-free                 v                         v (of the partner if one is named)
    x / y     float position                v + dx / v + dy           partner's v
    ix / iy   integer index                 exact v + dx / v + dy     partner's v (exact)
    xy        (..., 2) float (x, y)         v + (dx, dy)              v[..., ::-1]
    iyx       (..., 2) int (y, x)           exact v + (dy, dx)        v[..., ::-1]
    cxy       cutout-relative (x, y)        v                         v[..., ::-1]
    ciyx      cutout-relative int (y, x)    exact v                   v[..., ::-1]
    theta_deg orientation in degrees        v                         90 - v      (compared modulo 180)
    theta_rad orientation in radians        v                         pi/2 - v    (compared modulo pi)
    mat2      2x2 matrix over (x, y)        v                         v[..., ::-1, ::-1]
    mom       moment matrix [y-order, x-order]  v                     swapaxes(-1, -2)
    img       list of 2-D cutouts           v                         each .T
    frame     full-frame array              embedded (fill 0)         .T
    bbox      BoundingBox(es)               exact shift               x<->y
    slices    (slice_y, slice_x) tuples     exact shift               x<->y
    aper      aperture object(s)            positions shift           positions swap, theta -> pi/2 - theta
    skip      not compared (None / names / sky quantities without a WCS)

The adapters never judge anything themselves; they only drive the library and name what came out.
"""
from __future__ import annotations

import warnings

import numpy as np

from pv.gen.c03_scenes import XY, Frame, Img, Pair, Theta, ThetaDeg  # noqa: F401

COND_MAX = 1e3
INT_KINDS = {'ix', 'iy', 'iyx', 'ciyx', 'bbox', 'slices'}
POS_KINDS = {'x', 'y', 'xy'}


class K:
    __slots__ = ('kind', 'partner', 'per_row', 'rtol', 'atol', 'unit', 'aamp', 'md', 'tie', 'scale')

    def __init__(self, kind, partner=None, per_row=True, rtol=None, atol=None, unit=None, aamp=None, md=False,
                 tie=None, scale=None):
        self.scale = scale if scale is not None else unit   # how the output scales with the data magnitude
        #                        ('data': linearly, 'data2': quadratically, None: not at all) -> absolute tolerance
        self.tie = tie         # masked cutouts: a pixel may be masked on one side only if |value| <= tie*max|data| on
        #                        both sides (tie band of the `weight == 0` predicate on rounded weights)
        self.kind, self.partner, self.per_row = kind, partner, per_row
        self.md = md           # moment-derived ratio (normalised by the zeroth moment): compared only on rows whose
        #                        zeroth moment is well conditioned (sum|v| / |sum v| <= COND_MAX)
        self.rtol, self.atol = rtol, atol
        self.aamp = aamp       # absolute tolerance as a multiple of max|data| of the scene (fitted images)
        self.unit = unit       # C15 quantity variant: 'data' = must carry the data unit, 'data2' = unit**2


class EP:
    def __init__(self, name, prepare, run, spec, relations, must_reach=(), arrays=('data',),
                 nddata=False, quantity=True, flavour='general', discrete=False, mech_fn=None):
        self.name, self.prepare, self.run, self.spec = name, prepare, run, spec
        self.relations = set(relations)
        self.must_reach = list(must_reach)
        self.arrays = arrays          # scene arrays this entry point consumes as numeric inputs (C15)
        self.nddata = nddata          # accepts NDData as `data`
        self.quantity = quantity      # accepts Quantity inputs
        self.flavour = flavour
        self.discrete = discrete      # has threshold decisions (C15 precision variants need a gap check)
        self.mech_fn = mech_fn        # (options, output name, baseline outputs) -> extra structural facts for the mechanism key


# ----------------------------------------------------------------------
# canonical forms, expected values under a relation, comparison
# ----------------------------------------------------------------------
def split_unit(v):
    u = getattr(v, 'unit', None)
    if u is not None and hasattr(v, 'value'):
        return v.value, str(u)
    return v, None


def _bbox_tuple(b):
    if b is None:
        return (np.nan,) * 4
    return (b.ixmin, b.ixmax, b.iymin, b.iymax)


def _slice_tuple(s):
    if s is None:
        return (np.nan,) * 4
    return (s[1].start, s[1].stop, s[0].start, s[0].stop)


def _aper_canon(a):
    if a is None:
        return None
    pos = np.asarray(a.positions, dtype=float)
    names = [p for p in a._params if p not in ('theta', 'positions')]
    vals = []
    for p in names:
        v = getattr(a, p)
        vals.append(float(getattr(v, 'value', v)))
    theta = None
    if 'theta' in a._params:
        th = a.theta
        theta = float(th.to_value('rad')) if hasattr(th, 'to_value') else float(th)
    return {'cls': type(a).__name__, 'xy': pos, 'p': np.array(vals), 'theta': theta, 'names': tuple(names)}


_SWAP = {'w': 'h', 'h': 'w', 'a': 'b', 'b': 'a', 'w_in': 'h_in', 'h_in': 'w_in', 'w_out': 'h_out',
         'h_out': 'w_out', 'a_in': 'b_in', 'b_in': 'a_in', 'a_out': 'b_out', 'b_out': 'a_out'}


def _aper_forms(a):
    """The same point set written with the two axes exchanged: (w, h, theta) == (h, w, theta + pi/2)."""
    forms = [a]
    if a['theta'] is not None and all(n in _SWAP for n in a['names']):
        d = dict(zip(a['names'], a['p']))
        forms.append(dict(a, p=np.array([d[_SWAP[n]] for n in a['names']]), theta=a['theta'] + np.pi / 2.0))
    return forms


def _aslist(v):
    if isinstance(v, (list, tuple)):
        return list(v)
    if isinstance(v, np.ndarray) and v.dtype == object:
        return list(v.ravel())
    return [v]


def canon(kind, v):
    """(canonical value, unit string or None). Lists stay lists (ragged cutouts)."""
    if kind == 'skip':
        return None, None
    if kind == 'bbox':
        return np.array([_bbox_tuple(b) for b in _aslist(v)], dtype=float), None
    if kind == 'slices':
        if isinstance(v, tuple) and len(v) == 2 and isinstance(v[0], slice):
            v = [v]
        return np.array([_slice_tuple(s) for s in v], dtype=float), None
    if kind == 'aper':
        return [_aper_canon(a) for a in _aslist(v)], None
    if kind == 'img':
        out, unit = [], None
        for a in _aslist(v):
            if a is None:
                out.append(None)
                continue
            a, un = split_unit(a)
            unit = unit or un
            out.append(a if isinstance(a, np.ma.MaskedArray) else np.asarray(a))
        return out, unit
    v, unit = split_unit(v)
    if isinstance(v, np.ma.MaskedArray):
        return v, unit
    return np.asarray(v), unit


def take_rows(kind, cv, keep):
    if cv is None:
        return None
    if isinstance(cv, list):
        return [c for c, k in zip(cv, keep) if k]
    return cv[np.asarray(keep, bool)]


def expected(kind, cv, rel, dx=0, dy=0):
    """Expected canonical value of the related run, from the baseline's canonical value."""
    if cv is None:
        return None
    if rel == 'same':
        return cv
    if rel == 'translate':
        if kind in ('x', 'ix'):
            return cv + dx
        if kind in ('y', 'iy'):
            return cv + dy
        if kind == 'xy':
            return cv + np.array([dx, dy], dtype=cv.dtype if cv.dtype.kind == 'f' else float)
        if kind == 'iyx':
            return cv + np.array([dy, dx])
        if kind in ('bbox', 'slices'):
            return cv + np.array([dx, dx, dy, dy], dtype=float)
        if kind == 'aper':
            return [None if a is None else dict(a, xy=a['xy'] + np.array([dx, dy], dtype=float)) for a in cv]
        if kind == 'frame':
            raise AssertionError('frame kinds are handled by the caller (embedding needs the pads)')
        return cv
    if rel == 'transpose':
        if kind in ('xy', 'iyx', 'cxy', 'ciyx'):
            return cv[..., ::-1]
        if kind == 'theta_deg':
            return 90.0 - cv
        if kind == 'theta_rad':
            return np.pi / 2.0 - cv
        if kind == 'mat2':
            return cv[..., ::-1, ::-1]
        if kind == 'mom':
            return np.swapaxes(cv, -1, -2)
        if kind == 'img':
            return [None if a is None else a.T for a in cv]
        if kind == 'frame':
            return cv.T
        if kind in ('bbox', 'slices'):
            return cv[..., [2, 3, 0, 1]]
        if kind == 'aper':
            return [None if a is None else dict(a, xy=a['xy'][..., ::-1],
                                                theta=None if a['theta'] is None else np.pi / 2.0 - a['theta'])
                    for a in cv]
        return cv
    raise ValueError(rel)


def _circ(a, b, period):
    d = np.abs((np.asarray(a, float) - np.asarray(b, float) + period / 2.0) % period - period / 2.0)
    return d


def tol_fraction(obs, exp, rtol, atol, fallback):
    """max |obs-exp| / (atol + rtol*max(|obs|,|exp|)): the fraction of the tolerance that was used (exact
    comparisons: the absolute difference). This is what the evidence reports per '<entry>:<output>:<relation>'."""
    try:
        a = np.asarray(split_unit(obs)[0], dtype=float)
        b = np.asarray(split_unit(exp)[0], dtype=float)
        if a.shape != b.shape or a.size == 0:
            return fallback
        fin = np.isfinite(a) & np.isfinite(b)
        if not fin.any():
            return 0.0
        diff = np.abs(a[fin] - b[fin])
        if rtol == 0 and atol == 0:
            return float(diff.max())
        tol = atol + rtol * np.maximum(np.abs(a[fin]), np.abs(b[fin]))
        with np.errstate(all='ignore'):
            fr = np.where(diff == 0, 0.0, diff / tol)
        return float(np.nanmax(fr))
    except Exception:  # noqa: BLE001
        return fallback


class _DevCase:
    """Proxy that records deviations under '<entry>:<output>' instead of the comparison name."""

    def __init__(self, case, devname):
        self._c, self._n = case, devname

    def check(self, *a, **k):
        return self._c.check(*a, **k)

    def dev(self, name, value):
        self._c.dev(self._n + name[len('covariant'):] if name.startswith('covariant') else self._n, value)

    def close(self, obs, exp, what, rtol=0.0, atol=0.0, mech=None, **detail):
        from pv.core import _short, same
        ok, d, why = same(obs, exp, rtol=rtol, atol=atol)
        self._c.dev(self._n, tol_fraction(obs, exp, rtol, atol, d))
        if not ok:
            detail = dict(detail)
            detail.update(why=why, obs=_short(obs), exp=_short(exp), dev=d)
        return self._c.check(ok, what, mech, **detail)


def compare(case, what, mech, kind, obs, exp, rtol, atol, ang_atol, tie_atol=None):
    """One recorded comparison of canonical values. Returns True if it held."""
    from pv.core import same
    case = _DevCase(case, f"{mech.get('entry')}:{mech.get('output')}:{mech.get('relation')}")
    if obs is None and exp is None:
        return True
    if kind == 'aper':
        if len(obs) != len(exp):
            return case.check(False, what, mech, why=f'len {len(obs)} != {len(exp)}')
        ok_all = True
        for i, (a, b) in enumerate(zip(obs, exp)):
            if a is None or b is None:
                ok_all &= case.check(a is None and b is None, what, mech, row=i, why='None mismatch')
                continue
            ok = a['cls'] == b['cls']
            why = 'class' if not ok else ''
            if ok:
                for bf in _aper_forms(b):
                    o1, d1, w1 = same(a['xy'], bf['xy'], 0.0, 1e-9)
                    o2, d2, w2 = same(a['p'], bf['p'], rtol, atol)
                    ok = o1 and o2
                    why = w1 or w2
                    d3 = 0.0
                    if ok and (a['theta'] is not None or bf['theta'] is not None):
                        if a['theta'] is None or bf['theta'] is None:
                            ok, why = False, 'theta None mismatch'
                        else:
                            d3 = float(_circ(a['theta'], bf['theta'], np.pi))
                            ok, why = d3 <= np.deg2rad(ang_atol), f'theta differs by {d3:.3e} rad'
                    if ok:
                        case.dev(what + ':xy', d1)
                        case.dev(what + ':p', d2)
                        case.dev(what + ':theta', d3)
                        break
            ok_all &= case.check(ok, what, mech, row=i, why=why, obs=repr(a)[:300], exp=repr(b)[:300])
        return ok_all
    if kind in ('theta_deg', 'theta_rad'):
        period = 180.0 if kind == 'theta_deg' else np.pi
        tol = ang_atol if kind == 'theta_deg' else np.deg2rad(ang_atol)
        o, e = np.asarray(obs, float), np.asarray(exp, float)
        if o.shape != e.shape:
            return case.check(False, what, mech, why=f'shape {o.shape} != {e.shape}')
        nan_ok = np.array_equal(np.isnan(o), np.isnan(e))
        d = _circ(o, e, period)
        d = d[~np.isnan(d)]
        dmax = float(d.max()) if d.size else 0.0
        case.dev(what, dmax)
        return case.check(nan_ok and dmax <= tol, what, mech, dev=dmax, obs=o, exp=e)
    if kind in INT_KINDS:
        rtol, atol = 0.0, 0.0
    elif kind in POS_KINDS:
        rtol = 0.0
    if isinstance(obs, list) or isinstance(exp, list):
        if not (isinstance(obs, list) and isinstance(exp, list)) or len(obs) != len(exp):
            return case.check(False, what, mech, why='list length/type mismatch',
                              nobs=len(obs) if isinstance(obs, list) else None,
                              nexp=len(exp) if isinstance(exp, list) else None)
        ok_all = True
        for i, (a, b) in enumerate(zip(obs, exp)):
            if a is None or b is None:
                ok_all &= case.check(a is None and b is None, what, mech, row=i, why='None mismatch')
                continue
            if isinstance(a, np.ma.MaskedArray) and isinstance(b, np.ma.MaskedArray) and a.shape == b.shape \
                    and a.dtype.kind == 'f' and kind not in INT_KINDS:
                # tie band for mask predicates of the form `weight == 0` evaluated on rounded weights: a pixel may be
                # masked on one side only if its (weighted) value is zero within the absolute tolerance on both sides
                ma, mb = np.ma.getmaskarray(a), np.ma.getmaskarray(b)
                fa, fb = a.filled(0.0), b.filled(0.0)
                dm = ma != mb
                if dm.any():
                    case._c.note('mask_tie_band_pixels', int(dm.sum()))
                    ta = atol if tie_atol is None else tie_atol
                    tie_ok = bool(np.all(np.abs(fa[dm]) <= ta) and np.all(np.abs(fb[dm]) <= ta))
                    fa[dm] = fb[dm] = 0.0
                    if not case.check(tie_ok, what, mech, row=i, why='mask differs beyond the tie band',
                                      n=int(dm.sum())):
                        ok_all = False
                        continue
                ok_all &= case.close(fa, fb, what, rtol=rtol, atol=atol, mech=mech, row=i)
                continue
            ok_all &= case.close(a, b, what, rtol=rtol, atol=atol, mech=mech, row=i)
        return ok_all
    return case.close(obs, exp, what, rtol=rtol, atol=atol, mech=mech)


def rows_inside(rows, box, slack=0.0):
    """Which footprints [xlo, xhi, ylo, yhi] lie inside the original frame `box` = (ox, oy, nx, ny)."""
    ox, oy, nx, ny = box
    r = np.asarray(rows, float).reshape(-1, 4)
    with np.errstate(invalid='ignore'):
        return ((r[:, 0] >= ox - 0.5 + slack) & (r[:, 1] <= ox + nx - 0.5 - slack)
                & (r[:, 2] >= oy - 0.5 + slack) & (r[:, 3] <= oy + ny - 0.5 - slack))


# ----------------------------------------------------------------------
# helpers used by several adapters
# ----------------------------------------------------------------------
def _col(t, name):
    c = t[name]
    if hasattr(c, 'unit') and getattr(c, 'unit', None) is not None and hasattr(c, 'value'):
        return c            # Quantity column of a QTable
    return np.asarray(c)


def _opt(rng, *choices):
    return choices[int(rng.integers(0, len(choices)))]


APER_FORMS = ['plain', 'plain', 'plain', 'deg', 'arcmin', 'list', 'np0d']


def build_aperture(spec):
    """Call form of the arguments (generic axis ii): theta as a Quantity in deg / arcmin, positions as a list of
    tuples, shape parameters as numpy scalars - all equivalent to the plain float / ndarray form."""
    import astropy.units as u
    import photutils.aperture as pa
    kw = dict(spec['p'])
    form = spec.get('form', 'plain')
    pos = spec['pos']
    if spec.get('theta') is not None:
        th = spec['theta']
        if form == 'deg':
            th = (th * u.rad).to(u.deg)
        elif form == 'arcmin':
            th = (th * u.rad).to(u.arcmin)
        kw['theta'] = th
    if form == 'list':
        a = np.asarray(pos, float)
        pos = [tuple(float(v) for v in row) for row in a] if a.ndim == 2 else tuple(float(v) for v in a)
    elif form == 'np0d':
        # numpy scalars (0-d ARRAYS are rejected with the documented "must be a positive scalar" ValueError)
        kw = {k: (np.float64(v) if k != 'theta' else v) for k, v in kw.items()}
    return getattr(pa, spec['cls'])(pos, **kw)


def aper_extent(spec):
    c, p = spec['cls'], spec['p']
    if c == 'CircularAperture':
        return p['r']
    if c == 'CircularAnnulus':
        return p['r_out']
    if c == 'EllipticalAperture':
        return max(p['a'], p['b'])
    if c == 'EllipticalAnnulus':
        return max(p['a_out'], p['b_out'])
    if c == 'RectangularAperture':
        return 0.5 * np.hypot(p['w'], p['h'])
    if c == 'RectangularAnnulus':
        return 0.5 * np.hypot(p['w_out'], p['h_out'])
    raise ValueError(c)


APER_CLASSES = ['CircularAperture', 'CircularAnnulus', 'EllipticalAperture', 'EllipticalAnnulus',
                'RectangularAperture', 'RectangularAnnulus']


def draw_aperture(rng, cls, pos):
    """Aperture spec with asymmetric shape parameters; every extent <= 11 px."""
    d = _draw_aperture(rng, cls, pos)
    d['form'] = APER_FORMS[int(rng.integers(0, len(APER_FORMS)))]
    return d


def _draw_aperture(rng, cls, pos):
    th = float(rng.uniform(0, np.pi))
    if rng.random() < 0.15:
        th = float(_opt(rng, 0.0, np.pi / 4, np.pi / 2, 3 * np.pi / 4))
    if cls == 'CircularAperture':
        return dict(cls=cls, pos=XY(pos), p=dict(r=float(rng.uniform(1.2, 8.0))), theta=None)
    if cls == 'CircularAnnulus':
        r_in = float(rng.uniform(1.5, 6.0))
        return dict(cls=cls, pos=XY(pos), p=dict(r_in=r_in, r_out=r_in + float(rng.uniform(1.0, 4.0))), theta=None)
    if cls == 'EllipticalAperture':
        a = float(rng.uniform(2.0, 8.5))
        return dict(cls=cls, pos=XY(pos), p=dict(a=a, b=a * float(rng.uniform(0.3, 0.9))), theta=Theta(th))
    if cls == 'EllipticalAnnulus':
        a_in = float(rng.uniform(2.0, 6.0))
        a_out = a_in + float(rng.uniform(1.0, 4.0))
        b_out = a_out * float(rng.uniform(0.35, 0.9))
        return dict(cls=cls, pos=XY(pos), p=dict(a_in=a_in, a_out=a_out, b_out=b_out), theta=Theta(th))
    if cls == 'RectangularAperture':
        w = float(rng.uniform(2.0, 13.0))
        return dict(cls=cls, pos=XY(pos), p=dict(w=w, h=float(rng.uniform(2.0, 13.0))), theta=Theta(th))
    if cls == 'RectangularAnnulus':
        w_in = float(rng.uniform(2.0, 8.0))
        w_out = w_in + float(rng.uniform(1.5, 5.0))
        h_out = float(rng.uniform(3.0, 12.0))
        return dict(cls=cls, pos=XY(pos), p=dict(w_in=w_in, w_out=w_out, h_out=h_out), theta=Theta(th))
    raise ValueError(cls)


def draw_positions(rng, scene, n=None, spread=2.0, edge_prob=0.2):
    """Positions near the true sources (non-integer), plus some anywhere in the frame incl. near its edges."""
    src = scene['src'].v
    ox, oy, nx, ny = scene['frame'].v
    n = n or int(rng.integers(1, 6))
    out = []
    for _ in range(n):
        if len(src) and rng.random() > edge_prob:
            j = int(rng.integers(0, len(src)))
            out.append(src[j] + rng.normal(0, spread, 2))
        else:
            out.append([rng.uniform(ox - 2.0, ox + nx + 1.0), rng.uniform(oy - 2.0, oy + ny + 1.0)])
    out = np.array(out, dtype=float)
    if rng.random() < 0.15:
        out = np.rint(out * 2.0) / 2.0          # integer / half-integer centres
    return out


def _use(rng, p=0.6):
    return bool(rng.random() < p)


def _err(s, o):
    return s['error'] if o.get('use_error') else None


def _mask(s, o):
    return s['mask'] if o.get('use_mask') else None


# ----------------------------------------------------------------------
# 1. aperture_photometry
# ----------------------------------------------------------------------
def prep_apphot(rng, scene):
    pos = draw_positions(rng, scene)
    if rng.random() < 0.15:
        pos = pos[0]                                   # scalar-position aperture
    napers = int(rng.integers(1, 4))
    apers = [draw_aperture(rng, _opt(rng, *APER_CLASSES), pos) for _ in range(napers)]
    return dict(apers=apers, use_error=_use(rng), use_mask=_use(rng, 0.5), as_list=_use(rng, 0.5),
                nonfinite=bool(scene.get('nonfinite')), moved_draw=_opt(rng, None, None, *MOVE_MODES),
                method=_opt(rng, 'exact', 'exact', 'center', 'subpixel'), subpixels=int(rng.integers(1, 8)))


class Holder:
    """Shared by reference between the two legs of one case (options are copied, plain objects are not): carries
    the aperture OBJECTS of the first leg to the second one for the 'same object moved' form of the translation."""

    def __init__(self):
        self.objs = None


MOVE_MODES = ['iadd', 'isub', 'assign', 'assign_mutated', 'child_then_parent']


def moved_apertures(o, specs, holder):
    """First leg: build the apertures and remember them. Second leg: move the SAME objects to the new positions
    with the assignment form `o['moved']` and hand them back (their lazy caches were filled by the first leg)."""
    if holder is None or o.get('moved') is None:
        return [build_aperture(a) for a in specs], False
    if holder.objs is None:
        holder.objs = [build_aperture(a) for a in specs]
        return holder.objs, False
    apers = holder.objs
    for a, spec in zip(apers, specs):
        new = np.asarray(spec['pos'], float)
        shift = np.atleast_2d(new - np.asarray(a.positions, float))
        if not np.allclose(shift, shift[0], rtol=0, atol=1e-9):
            raise AssertionError('harness: moved-aperture mode needs a pure translation')
        d = tuple(float(v) for v in np.rint(shift[0]))
        mode = o['moved']
        if mode in ('iadd', 'child_then_parent'):
            a.positions += d
        elif mode == 'isub':
            a.positions -= (-d[0], -d[1])
        elif mode == 'assign':
            a.positions = np.asarray(a.positions) + np.array(d)
        elif mode == 'assign_mutated':
            arr = a.positions
            arr += np.array(d)
            a.positions = arr
        else:
            raise ValueError(mode)
    return apers, True


def run_apphot(s, o):
    from photutils.aperture import aperture_photometry
    apers, was_moved = moved_apertures(o, o['apers'], o.get('holder'))
    arg = apers if (len(apers) > 1 or o.get('as_list')) else apers[0]
    t = aperture_photometry(s['data'], arg, error=_err(s, o), mask=_mask(s, o),
                            method=o['method'], subpixels=o['subpixels'])
    out = {'id': _col(t, 'id'), 'xcenter': _col(t, 'xcenter'), 'ycenter': _col(t, 'ycenter')}
    for c in t.colnames:
        if c.startswith('aperture_sum'):
            out[c] = _col(t, c)
    pos = np.atleast_2d(o['apers'][0]['pos'])
    for i, a in enumerate(apers):
        d_ = s['data']
        if type(d_).__name__ == 'NDData':         # area_overlap is documented for arrays / Quantity only
            d_, m_ = d_.data, d_.mask
        else:
            m_ = _mask(s, o)
        ao = a.area_overlap(d_, mask=m_, method=o['method'], subpixels=o['subpixels'])
        out[f'area_overlap_{i}'] = np.atleast_1d(ao)
        out[f'bbox_{i}'] = _aslist(a.bbox)
        if i == 0:
            out['mask_0'] = [m.data for m in _aslist(a.to_mask(method=o['method'], subpixels=o['subpixels']))]
    if o.get('moved') == 'child_then_parent' and not was_moved and not apers[0].isscalar:
        # an indexed child must be independent of its parent: evaluate the child (fills its caches), move the PARENT
        # in place and back, evaluate the child again -> the two evaluations are handed to the check as an assertion
        parent = build_aperture(o['apers'][0])
        child = parent[0]
        raw = s['data']
        before = (child.do_photometry(raw, method=o['method'], subpixels=o['subpixels'])[0], _aslist(child.bbox),
                  np.array(child.positions, copy=True))
        parent.positions += (7.0, 3.0)
        after = (child.do_photometry(raw, method=o['method'], subpixels=o['subpixels'])[0], _aslist(child.bbox),
                 np.array(child.positions, copy=True))
        fresh = build_aperture(dict(o['apers'][0], pos=np.asarray(o['apers'][0]['pos'])[0]))
        out['_asserts'] = [('child_sum_after_parent_move', 'free', after[0], before[0]),
                           ('child_bbox_after_parent_move', 'bbox', after[1], before[1]),
                           ('child_positions_after_parent_move', 'free', after[2], before[2]),
                           ('child_sum_vs_fresh', 'free', before[0],
                            fresh.do_photometry(raw, method=o['method'], subpixels=o['subpixels'])[0])]
    ext = max(aper_extent(a) for a in o['apers']) + 1.5
    rows = np.column_stack([pos[:, 0] - ext, pos[:, 0] + ext, pos[:, 1] - ext, pos[:, 1] + ext])
    return out, rows


class _ApSpec(dict):
    """aperture_photometry has a variable number of columns: classify by name pattern."""

    def __missing__(self, k):
        if k.startswith('aperture_sum_err'):
            return K('free', unit='data')
        if k.startswith('aperture_sum'):
            return K('free', unit='data')
        if k.startswith('area_overlap'):
            return K('free')
        if k.startswith('bbox_'):
            return K('bbox')
        if k.startswith('mask_'):
            return K('img')
        if k == '_asserts':
            return K('skip')
        raise KeyError(k)


def mech_apphot(o, name, base=None):
    return {'method': o['method'], 'nonfinite_data': bool(o.get('nonfinite'))}


SPEC_APPHOT = _ApSpec(id=K('free'), xcenter=K('x', 'ycenter'), ycenter=K('y', 'xcenter'))


# ----------------------------------------------------------------------
# 2. ApertureStats
# ----------------------------------------------------------------------
SPEC_APSTATS = {
    'bbox': K('bbox'), 'bbox_xmax': K('ix', 'bbox_ymax'), 'bbox_xmin': K('ix', 'bbox_ymin'),
    'bbox_ymax': K('iy', 'bbox_xmax'), 'bbox_ymin': K('iy', 'bbox_xmin'),
    'biweight_location': K('free', unit='data'), 'biweight_midvariance': K('free', unit='data2'),
    'center_aper_area': K('free'),
    'centroid': K('xy', md=True), 'covar_sigx2': K('free', 'covar_sigy2', md=True), 'covar_sigxy': K('free', md=True),
    'covar_sigy2': K('free', 'covar_sigx2', md=True), 'covariance': K('mat2', md=True), 'covariance_eigvals': K('free', md=True),
    'cutout_centroid': K('cxy', md=True), 'cxx': K('free', 'cyy', md=True), 'cxy': K('free', md=True), 'cyy': K('free', 'cxx', md=True),
    'data_cutout': K('img', scale='data'), 'data_sumcutout': K('img', scale='data'), 'error_sumcutout': K('img', aamp=1e-7),   # sqrt(weight rounding ~1e-15) * error: honest error up to ~3e-8 * max(error)
   
    'eccentricity': K('free', md=True), 'ellipticity': K('free', md=True), 'elongation': K('free', md=True), 'fwhm': K('free', md=True),
    'gini': K('free'), 'id': K('free'), 'ids': K('free'), 'inertia_tensor': K('mat2', md=True, scale='data'),
    'isscalar': K('free', per_row=False), 'mad_std': K('free', unit='data'), 'max': K('free', unit='data'),
    'mean': K('free', unit='data'), 'median': K('free', unit='data'), 'min': K('free', unit='data'),
    'mode': K('free', unit='data'), 'moments': K('mom', aamp=1e-4), 'moments_central': K('mom', md=True, scale='data'),
    'n_apertures': K('free', per_row=False), 'orientation': K('theta_deg', md=True), 'properties': K('skip'),
    'semimajor_sigma': K('free', md=True), 'semiminor_sigma': K('free', md=True), 'sky_centroid': K('skip'),
    'sky_centroid_icrs': K('skip'), 'std': K('free', unit='data'), 'sum': K('free', unit='data'),
    'sum_aper_area': K('free'), 'sum_err': K('free', unit='data'), 'var': K('free', unit='data2'),
    'xcentroid': K('x', 'ycentroid', md=True), 'ycentroid': K('y', 'xcentroid', md=True), '_notes': K('skip'),
}


def prep_apstats(rng, scene):
    pos = draw_positions(rng, scene, edge_prob=0.15)
    scalar = rng.random() < 0.15
    if scalar:
        pos = pos[0]
    cls = _opt(rng, *APER_CLASSES)
    ap = draw_aperture(rng, cls, pos)
    use_mask = _use(rng, 0.5)
    special = _opt(rng, None, None, None, None, 'tiny', 'masked')
    if special == 'tiny':
        # sub-pixel aperture: zero or one pixel centre inside (single-pixel statistics, degenerate moments)
        ap = dict(cls='CircularAperture', pos=XY(pos), p=dict(r=float(rng.uniform(0.3, 0.95))), theta=None)
    elif special == 'masked' and scene['mask'].v.any():
        # small aperture centred on a masked pixel: fully (or almost fully) masked aperture -> NaN statistics
        ys, xs = np.nonzero(scene['mask'].v)
        j = int(rng.integers(0, len(ys)))
        p0 = np.array([float(xs[j]), float(ys[j])]) + rng.uniform(-0.2, 0.2, 2)
        pos = p0 if scalar else np.vstack([p0[None, :], np.atleast_2d(pos)[1:]])
        ap = dict(cls='CircularAperture', pos=XY(pos), p=dict(r=float(rng.uniform(0.4, 1.3))), theta=None)
        use_mask = True
    n = 1 if scalar else len(pos)
    lb = _opt(rng, None, None, 'scalar', 'array')
    local_bkg = None
    if lb == 'scalar':
        local_bkg = float(rng.normal(0, 1)) * scene['sigma']
    elif lb == 'array':
        local_bkg = rng.normal(0, 1, n) * scene['sigma']
    return dict(aper=ap, use_error=_use(rng), use_mask=use_mask, special=special,
                moved_draw=_opt(rng, None, None, 'iadd', 'isub', 'assign', 'assign_mutated'),
                clip=_opt(rng, None, None, 3.0, 2.5), sum_method=_opt(rng, 'exact', 'exact', 'center', 'subpixel'),
                subpixels=int(rng.integers(1, 8)), local_bkg=local_bkg, scalar=scalar)


def public_props(cls):
    from astropy.utils import lazyproperty
    out = []
    for n in dir(cls):
        if n.startswith('_'):
            continue
        a = getattr(cls, n)
        if isinstance(a, (property, lazyproperty)):
            out.append(n)
    return out


def _wrap_scalar(v, kind):
    """Outputs of a scalar catalogue get a leading axis of length 1 so that rows can be selected."""
    if kind == 'skip' or v is None:
        return v
    if kind in ('bbox', 'aper', 'img', 'slices'):
        return [v] if not isinstance(v, list) else v
    val, unit = split_unit(v)
    if isinstance(val, np.ma.MaskedArray):
        return [v]
    val = np.asarray(val)[np.newaxis]
    if unit is not None:
        import astropy.units as u
        return val * u.Unit(unit)
    return val


def run_apstats(s, o):
    from astropy.stats import SigmaClip
    from photutils.aperture import ApertureStats
    (aper,), _ = moved_apertures(o, [o['aper']], o.get('holder'))
    lb = o['local_bkg']
    if lb is not None and o.get('local_bkg_unit') is not None:
        lb = lb * o['local_bkg_unit']
    st = ApertureStats(s['data'], aper, error=_err(s, o), mask=_mask(s, o),
                       sigma_clip=None if o['clip'] is None else SigmaClip(sigma=o['clip'], maxiters=10),
                       sum_method=o['sum_method'], subpixels=o['subpixels'], local_bkg=lb)
    out = {}
    names = public_props(ApertureStats)
    missing = [n for n in names if n not in SPEC_APSTATS]
    if missing:
        raise AssertionError(f'harness: unclassified ApertureStats properties {missing}')
    for n in names:
        k = SPEC_APSTATS[n]
        if k.kind == 'skip':
            continue
        v = getattr(st, n)
        if st.isscalar and k.per_row:
            v = _wrap_scalar(v, k.kind)
        out[n] = v
    pos = np.atleast_2d(o['aper']['pos'])
    ext = aper_extent(o['aper']) + 1.5
    rows = np.column_stack([pos[:, 0] - ext, pos[:, 0] + ext, pos[:, 1] - ext, pos[:, 1] + ext])
    # conditioning of the zeroth moment (upper bound): sum|v| / |sum v| over the centre-masked cutout
    lbv = np.zeros(len(pos)) if o['local_bkg'] is None else np.broadcast_to(np.abs(o['local_bkg']), (len(pos),))
    cond = []
    for dc, m, lb_ in zip(_aslist(out['data_cutout']), np.asarray(split_unit(out['moments'])[0]), lbv):
        vals = np.ma.MaskedArray(dc).compressed()
        num = float(np.sum(np.abs(vals)) + lb_ * vals.size)
        den = abs(float(np.asarray(m)[0, 0]))
        cond.append(np.inf if not np.isfinite(den) or den == 0 else num / den)
    # tie band of the strict `det(covariance) < 0 -> NaN` test for collinear pixel centres (same as SourceCatalog):
    # det = 0 exactly, its computed sign is rounding; the moment-derived outputs of such rows are not compared
    mcen = np.asarray(split_unit(out['moments_central'])[0], float).reshape(-1, 4, 4)
    with np.errstate(all='ignore'):
        mn = mcen / mcen[:, 0:1, 0:1]
        det = mn[:, 0, 2] * mn[:, 2, 0] - mn[:, 1, 1] ** 2
        scale = np.abs(mn[:, 0, 2] * mn[:, 2, 0]) + mn[:, 1, 1] ** 2
        tie = np.isfinite(det) & (scale > 0) & (np.abs(det) <= 1e-9 * scale)
    cond = [np.inf if t else c_ for c_, t in zip(cond, tie)]
    sm = np.asarray(split_unit(out['sum'])[0], float).ravel()
    ca = np.asarray(split_unit(out['center_aper_area'])[0], float).ravel()
    out['_notes'] = {'rows': len(sm), 'rows_nan_sum(no unmasked pixel)': int(np.isnan(sm).sum()),
                     'rows_center_area<=1(single pixel or none)': int((ca <= 1).sum()),
                     'rows_collinear_pixels(det(cov)=0 tie, moments skipped)': int(tie.sum())}
    return out, rows, np.array(cond)


SUM_FAMILY = {'sum', 'sum_err', 'sum_aper_area', 'data_sumcutout', 'error_sumcutout'}


def mech_apstats(o, name, base=None):
    return {'sigma_clip': o['clip'] is not None, 'sum_method': o['sum_method'], 'sum_family': name in SUM_FAMILY}


# ----------------------------------------------------------------------
# 3. find_peaks
# ----------------------------------------------------------------------
SPEC_PEAKS = {'id': K('free'), 'x_peak': K('ix', 'y_peak'), 'y_peak': K('iy', 'x_peak'),
              'peak_value': K('free', unit='data'), 'x_centroid': K('x', 'y_centroid'),
              'y_centroid': K('y', 'x_centroid'), 'n': K('free', per_row=False)}


def prep_peaks(rng, scene):
    sig = scene['sigma']
    thr = float(rng.uniform(2.5, 6.0)) * sig + scene.get('offset', 0.0)
    thr_map = None
    if rng.random() < 0.3:
        ny, nx = scene['data'].v.shape
        yy, xx = np.mgrid[0:ny, 0:nx]
        thr_map = Frame(thr * (1.0 + 0.3 * np.sin(xx / 9.0 + yy / 13.0)))
    fp = None
    box = int(_opt(rng, 3, 5, 7, 9))
    box_size = box
    if rng.random() < 0.3:
        box_size = Pair((int(_opt(rng, 3, 5, 7)), int(_opt(rng, 5, 9, 11))))      # (ny, nx)
    if rng.random() < 0.25:
        fy, fx = int(_opt(rng, 3, 5)), int(_opt(rng, 5, 7))
        f = rng.random((fy, fx)) < 0.7
        f[fy // 2, fx // 2] = True
        fp = Img(f)
    bw = None
    if rng.random() < 0.4:
        bw = Pair((int(rng.integers(0, 12)), int(rng.integers(0, 12))))
        if rng.random() < 0.5:
            bw = int(rng.integers(0, 12))
    return dict(threshold=thr, thr_map=thr_map, box_size=box_size, footprint=fp, border_width=bw,
                npeaks=_opt(rng, None, None, 1, 3, 6), centroid=_opt(rng, None, 'com', 'quadratic', 'com'),
                use_mask=_use(rng, 0.5), use_error=False, on=_opt(rng, 'data', 'conv'))


def run_peaks(s, o):
    from photutils.centroids import centroid_com, centroid_quadratic
    from photutils.detection import find_peaks
    thr = o['thr_map'] if o.get('thr_map') is not None else o['threshold']
    if o.get('unit') is not None:
        thr = thr * o['unit']
    cf = {None: None, 'com': centroid_com, 'quadratic': centroid_quadratic}[o['centroid']]
    kw = {}
    if o['footprint'] is not None:
        kw['footprint'] = o['footprint']
    t = find_peaks(s[o['on']], thr, box_size=o['box_size'], mask=_mask(s, o),
                   border_width=o['border_width'], npeaks=np.inf if o['npeaks'] is None else o['npeaks'],
                   centroid_func=cf, **kw)
    if t is None:
        return {'n': 0}, np.zeros((0, 4))
    out = {'n': len(t)}
    for c in t.colnames:
        out[c] = _col(t, c)
    if o['footprint'] is not None:
        hy, hx = (int(v) for v in np.array(o['footprint'].shape) // 2)
    else:
        b = o['box_size']
        by, bx = (b, b) if np.isscalar(b) else b
        hy, hx = by // 2, bx // 2
    # documented footprint of a peak: its box / footprint, and the border strip when border_width is given
    bw = o['border_width']
    if bw is not None:
        bwy, bwx = (bw, bw) if np.isscalar(bw) else bw
        hy, hx = max(hy, int(bwy)), max(hx, int(bwx))
    x, y = np.asarray(t['x_peak'], float), np.asarray(t['y_peak'], float)
    rows = np.column_stack([x - hx, x + hx, y - hy, y + hy])
    return out, rows


# ----------------------------------------------------------------------
# 4-6. star finders
# ----------------------------------------------------------------------
class _TableSpec(dict):
    def __init__(self, free_unit=(), **kw):
        super().__init__(**kw)
        self._fu = set(free_unit)

    def __missing__(self, k):
        return K('free', unit='data' if k in self._fu else None)


SPEC_STARS = _TableSpec(free_unit=('peak', 'flux', 'max_value'),
                        id=K('free'), xcentroid=K('x', 'ycentroid'), ycentroid=K('y', 'xcentroid'),
                        n=K('free', per_row=False))


def _finder_common(rng, scene, wide):
    sig = scene['sigma']
    d = dict(threshold=float(rng.uniform(3.0, 8.0)) * sig, use_mask=_use(rng, 0.4),
             exclude_border=_use(rng, 0.3), brightest=_opt(rng, None, None, 2, 4),
             peakmax=None, on='data', wide=wide)
    if rng.random() < 0.2:
        d['peakmax'] = float(np.median(scene['src_amp'])) * 1.05
    return d


def prep_dao(rng, scene):
    d = _finder_common(rng, scene, wide=_use(rng, 0.5))
    d.update(fwhm=float(rng.uniform(2.5, 5.0)), ratio=float(_opt(rng, 1.0, rng.uniform(0.5, 1.0))),
             theta=float(rng.uniform(0, 180.0)), sigma_radius=float(_opt(rng, 1.5, 2.0)),
             min_separation=float(_opt(rng, 0.0, 0.0, rng.uniform(2.0, 6.0))), xycoords=None)
    if rng.random() < 0.15:
        d['xycoords'] = XY(np.rint(scene['src'].v))
    return d


def _table_out(t, hx, hy):
    if t is None:
        return {'n': 0}, np.zeros((0, 4))
    out = {'n': len(t)}
    for c in t.colnames:
        out[c] = _col(t, c)
    x, y = np.asarray(t['xcentroid'], float), np.asarray(t['ycentroid'], float)
    rows = np.column_stack([x - hx, x + hx, y - hy, y + hy])
    return out, rows


def _q(v, o):
    return v if (v is None or o.get('unit') is None) else v * o['unit']


def run_dao(s, o):
    from photutils.detection import DAOStarFinder
    kw = {}
    if o['wide']:
        kw = dict(sharplo=-50.0, sharphi=50.0, roundlo=-50.0, roundhi=50.0)
    f = DAOStarFinder(_q(o['threshold'], o), o['fwhm'], ratio=o['ratio'], theta=o['theta'],
                      sigma_radius=o['sigma_radius'], exclude_border=o['exclude_border'],
                      brightest=o['brightest'], peakmax=_q(o['peakmax'], o), xycoords=o['xycoords'],
                      min_separation=o['min_separation'], **kw)
    t = f(s[o['on']], mask=_mask(s, o))
    # documented footprint of a row = the kernel cutout around its PEAK pixel. The table only reports the centroid,
    # which DAOFIND lets sit up to one kernel half-size from the peak pixel (|dx| <= hsize; seen: 2.06 px with a
    # 5x5 kernel, cutout reaching one column beyond the frame while centroid +- (radius+1) was inside), so the
    # footprint around the centroid is twice the radius (+1 for rounding to the peak pixel)
    return _table_out(t, 2 * f.kernel.xradius + 1, 2 * f.kernel.yradius + 1)


def prep_iraf(rng, scene):
    d = _finder_common(rng, scene, wide=_use(rng, 0.6))
    d.update(fwhm=float(rng.uniform(2.5, 5.0)), sigma_radius=float(_opt(rng, 1.5, 2.0)),
             minsep_fwhm=float(_opt(rng, 2.5, 1.5)), min_separation=_opt(rng, None, None, float(rng.uniform(3.0, 8.0))),
             xycoords=None)
    if rng.random() < 0.15:
        d['xycoords'] = XY(np.rint(scene['src'].v))
    return d


def run_iraf(s, o):
    from photutils.detection import IRAFStarFinder
    kw = {}
    if o['wide']:
        kw = dict(sharplo=-50.0, sharphi=50.0, roundlo=-50.0, roundhi=50.0)
    f = IRAFStarFinder(_q(o['threshold'], o), o['fwhm'], sigma_radius=o['sigma_radius'],
                       minsep_fwhm=o['minsep_fwhm'], exclude_border=o['exclude_border'],
                       brightest=o['brightest'], peakmax=_q(o['peakmax'], o), xycoords=o['xycoords'],
                       min_separation=o['min_separation'], **kw)
    t = f(s[o['on']], mask=_mask(s, o))
    return _table_out(t, 2 * f.kernel.xradius + 1, 2 * f.kernel.yradius + 1)   # centroid within the cutout of the peak


def prep_starfinder(rng, scene):
    d = _finder_common(rng, scene, wide=True)
    ky, kx = int(_opt(rng, 5, 7, 9)), int(_opt(rng, 5, 7, 9, 11))
    yy, xx = np.mgrid[0:ky, 0:kx].astype(float)
    sx, sy = float(rng.uniform(1.0, 2.2)), float(rng.uniform(1.0, 2.2))
    th = float(rng.uniform(0, np.pi))
    from pv.gen.c03_scenes import gauss2d
    kern = gauss2d(yy, xx, (kx - 1) / 2.0, (ky - 1) / 2.0, float(rng.uniform(0.5, 2.0)), sx, sy, th)
    d.update(kernel=Img(kern), min_separation=float(_opt(rng, 5.0, 3.0, rng.uniform(2.0, 7.0))))
    return d


def run_starfinder(s, o):
    from photutils.detection import StarFinder
    kern = np.array(o['kernel'], dtype=float, copy=True)
    f = StarFinder(_q(o['threshold'], o), kern, min_separation=o['min_separation'],
                   exclude_border=o['exclude_border'], brightest=o['brightest'], peakmax=_q(o['peakmax'], o))
    t = f(s[o['on']], mask=_mask(s, o))
    return _table_out(t, 2 * (kern.shape[1] // 2) + 1, 2 * (kern.shape[0] // 2) + 1)   # as for run_dao


# ----------------------------------------------------------------------
# 7-8. detect_sources / deblend_sources
# ----------------------------------------------------------------------
SPEC_SEGM = {'labels': K('frame', per_row=False), 'nlabels': K('free', per_row=False),
             'areas': K('free', per_row=False), 'bbox': K('bbox', per_row=False),
             'slices': K('slices', per_row=False), 'label_ids': K('free', per_row=False)}


def prep_detect(rng, scene):
    sig = scene['sigma']
    on = _opt(rng, 'data', 'conv')
    k = float(rng.uniform(1.5, 4.0)) * (sig if on == 'data' else 0.45 * sig)
    thr_map = None
    if rng.random() < 0.3:
        ny, nx = scene['data'].v.shape
        yy, xx = np.mgrid[0:ny, 0:nx]
        thr_map = Frame(k * (1.0 + 0.25 * np.cos(xx / 11.0 - yy / 7.0)), fill=0)
    return dict(threshold=k + scene.get('offset', 0.0), thr_map=thr_map, npixels=int(rng.integers(1, 9)),
                connectivity=int(_opt(rng, 4, 8)), use_mask=_use(rng, 0.5), on=on)


def _segm_out(seg):
    if seg is None:
        return {'nlabels': 0}, None
    return {'labels': np.array(seg.data), 'nlabels': int(seg.nlabels), 'areas': np.asarray(seg.areas),
            'bbox': list(seg.bbox), 'slices': list(seg.slices), 'label_ids': np.asarray(seg.labels)}, None


def run_detect(s, o):
    from photutils.segmentation import detect_sources
    thr = o['thr_map'] if o.get('thr_map') is not None else o['threshold']
    thr = _q(thr, o)
    seg = detect_sources(s[o['on']], thr, o['npixels'], connectivity=o['connectivity'], mask=_mask(s, o))
    return _segm_out(seg)


def prep_deblend(rng, scene):
    return dict(npixels=int(rng.integers(2, 8)), nlevels=int(_opt(rng, 32, 16, 8)),
                contrast=float(_opt(rng, 0.001, 0.01, 0.0, 0.05)), mode=_opt(rng, 'exponential', 'linear', 'sinh'),
                connectivity=int(_opt(rng, 4, 8)), relabel=_use(rng, 0.7), on=_opt(rng, 'conv', 'data'),
                sublabels=_opt(rng, None, None, None, 'every2nd', 'descending', 'duplicates', 'tuple_int16'),
                seg_history=_opt(rng, None, None, 'relabel', 'reassign'))


def run_deblend(s, o):
    from photutils.segmentation import SegmentationImage, deblend_sources
    if s['segm'].max() == 0:
        return {'nlabels': 0}, None
    segarr = np.array(s['segm'], copy=True)
    if o['connectivity'] == 4:
        # the scene's map is 8-connected; deblend_sources documents that the connectivity must be the one used for
        # the detection -> relabel the same footprint into 4-connected segments (scipy.ndimage.label, trusted)
        from scipy import ndimage as ndi
        segarr = ndi.label(segarr > 0)[0].astype(np.int32)
    seg = seg_with_history(segarr, o.get('seg_history'))
    labels = None
    if o['sublabels'] and seg.nlabels > 1:
        # generic axis (xi): label lists unsorted / descending / with duplicates / as a tuple of another integer dtype
        lab = seg.labels
        labels = {'every2nd': lab[::2], 'descending': lab[::-1], 'duplicates': np.concatenate([lab[:2], lab[:2]]),
                  'tuple_int16': tuple(np.asarray(lab[::-1], np.int16))}[o['sublabels']] if o['sublabels'] is not True \
            else lab[::2]
    out = deblend_sources(s[o['on']], seg, o['npixels'], labels=labels, nlevels=o['nlevels'],
                          contrast=o['contrast'], mode=o['mode'], connectivity=o['connectivity'],
                          relabel=o['relabel'], nproc=1, progress_bar=False)
    return _segm_out(out)


# ----------------------------------------------------------------------
# 9. SourceCatalog
# ----------------------------------------------------------------------
# Windowed centroid: an iteration that stops when the last step is below 1e-4 px (and applies twice that step), so a
# last-digit difference of its inputs (flux-fraction radius from a root finder, exact-overlap weights) can change the
# number of iterations: results agree only to the algorithm's own convergence threshold. Measured over two thorough
# runs: <= 1e-9 px except 7e-9 (translate) and 4.8e-7 (transpose) in one row each; tolerance 5e-4 px.
WIN_ATOL = 5e-4
SPEC_CAT = {
    'area': K('free'), 'background': K('img', unit='data'), 'background_centroid': K('free', unit='data'),
    'background_ma': K('img', scale='data'), 'background_mean': K('free', unit='data'),
    'background_sum': K('free', unit='data'), 'bbox': K('bbox'),
    'bbox_xmax': K('ix', 'bbox_ymax'), 'bbox_xmin': K('ix', 'bbox_ymin'),
    'bbox_ymax': K('iy', 'bbox_xmax'), 'bbox_ymin': K('iy', 'bbox_xmin'),
    'centroid': K('xy'), 'centroid_quad': K('xy'), 'centroid_win': K('xy', atol=WIN_ATOL),
    'convdata': K('img', unit='data'), 'convdata_ma': K('img', scale='data'),
    'covar_sigx2': K('free', 'covar_sigy2', md=True), 'covar_sigxy': K('free', md=True), 'covar_sigy2': K('free', 'covar_sigx2', md=True),
    'covariance': K('mat2', md=True), 'covariance_eigvals': K('free', md=True),
    'cutout_centroid': K('cxy'), 'cutout_centroid_quad': K('cxy'), 'cutout_centroid_win': K('cxy', atol=WIN_ATOL),
    'cutout_maxval_index': K('ciyx'), 'cutout_minval_index': K('ciyx'),
    'cxx': K('free', 'cyy', md=True), 'cxy': K('free', md=True), 'cyy': K('free', 'cxx', md=True),
    'data': K('img', unit='data'), 'data_ma': K('img', scale='data'),
    'eccentricity': K('free', md=True), 'ellipticity': K('free', md=True), 'elongation': K('free', md=True), 'equivalent_radius': K('free'),
    'error': K('img', unit='data'), 'error_ma': K('img', scale='data'), 'extra_properties': K('skip'),
    'fwhm': K('free', md=True), 'gini': K('free'), 'inertia_tensor': K('mat2', md=True, scale='data'), 'isscalar': K('free', per_row=False),
    'kron_aperture': K('aper'), 'kron_flux': K('free', unit='data'), 'kron_fluxerr': K('free', unit='data'),
    'kron_radius': K('free'), 'label': K('skip'), 'labels': K('free'),
    'local_background': K('free', unit='data'), 'local_background_aperture': K('aper'),
    'max_value': K('free', unit='data'), 'maxval_index': K('iyx'),
    'maxval_xindex': K('ix', 'maxval_yindex'), 'maxval_yindex': K('iy', 'maxval_xindex'),
    'min_value': K('free', unit='data'), 'minval_index': K('iyx'),
    'minval_xindex': K('ix', 'minval_yindex'), 'minval_yindex': K('iy', 'minval_xindex'),
    'moments': K('mom', scale='data'), 'moments_central': K('mom', md=True, scale='data'), 'nlabels': K('free', per_row=False),
    'orientation': K('theta_deg', md=True), 'perimeter': K('free'), 'properties': K('skip'),
    'segment': K('img'), 'segment_area': K('free'), 'segment_flux': K('free', unit='data'),
    'segment_fluxerr': K('free', unit='data'), 'segment_ma': K('img'),
    'semimajor_sigma': K('free', md=True), 'semiminor_sigma': K('free', md=True),
    'sky_bbox_ll': K('skip'), 'sky_bbox_lr': K('skip'), 'sky_bbox_ul': K('skip'), 'sky_bbox_ur': K('skip'),
    'sky_centroid': K('skip'), 'sky_centroid_icrs': K('skip'), 'sky_centroid_quad': K('skip'),
    'sky_centroid_win': K('skip'), 'slices': K('slices'),
    'xcentroid': K('x', 'ycentroid'), 'xcentroid_quad': K('x', 'ycentroid_quad'),
    'xcentroid_win': K('x', 'ycentroid_win', atol=WIN_ATOL),
    'ycentroid': K('y', 'xcentroid'), 'ycentroid_quad': K('y', 'xcentroid_quad'),
    'ycentroid_win': K('y', 'xcentroid_win', atol=WIN_ATOL),
    # method results
    'm_kron_flux2': K('free', unit='data'), 'm_kron_fluxerr2': K('free', unit='data'),
    'm_fluxfrac_r50': K('free'), 'm_fluxfrac_r80': K('free'),
    'm_circ_flux': K('free', unit='data'), 'm_circ_fluxerr': K('free', unit='data'),
    'm_kron_apertures2': K('aper'), 'm_circ_apertures': K('aper'),
    'm_cutout_data': K('img', scale='data'), 'm_cutout_bbox': K('bbox'), '_notes': K('skip'),
}


def prep_catalog(rng, scene):
    kp = _opt(rng, (2.5, 1.4, 0.0), (2.5, 1.4, 0.0), (2.0, 1.0, 2.5), (3.0, 2.0), (2.5, 1.4, 4.0), (2.5, 1.4, 6.0))
    hostile = scene.get('hostile') or []
    # masks placed next to a peak / over a whole segment only act when the mask is passed
    pm = 0.85 if ('peakmask' in hostile or 'allmasked' in hostile) else 0.5
    return dict(use_error=_use(rng, 0.7), use_mask=_use(rng, pm), use_bkg=_use(rng, 0.8),
                use_conv=_use(rng, 0.5), localbkg_width=int(_opt(rng, 0, 0, 4, 6, 9)),
                apermask_method=_opt(rng, 'correct', 'mask', 'none'), kron_params=kp,
                kron2=(float(rng.uniform(1.5, 2.6)), float(rng.uniform(0.8, 1.6))),
                circ_r=float(rng.uniform(2.0, 7.0)), cutout_shape=Pair((int(rng.integers(5, 22)), int(rng.integers(5, 22)))),
                sub=_opt(rng, None, None, None, 'one', 'slice'), methods=True, detcat=_use(rng, 0.2),
                seg_history=_opt(rng, *SEG_HISTORY))


class Raised:
    """An output whose evaluation raised inside photutils (recorded, the other outputs are still compared)."""

    def __init__(self, exc):
        from pv.core import exc_location
        self.exc, self.at, self.msg = type(exc).__name__, exc_location(exc), str(exc)[:200]


_ESSENTIAL = {'xcentroid', 'ycentroid', 'semimajor_sigma', 'kron_radius', 'bbox', 'isscalar'}


def _guard(fn, name):
    from pv.core import exc_location
    try:
        return fn()
    except Exception as exc:  # noqa: BLE001
        if name in _ESSENTIAL or exc_location(exc) is None or isinstance(exc, AssertionError):
            raise
        return Raised(exc)


def catalog_outputs(cat, o, names=None, methods=True):
    from photutils.segmentation import SourceCatalog
    out = {}
    allnames = public_props(SourceCatalog)
    missing = [n for n in allnames if n not in SPEC_CAT]
    if missing:
        raise AssertionError(f'harness: unclassified SourceCatalog properties {missing}')
    scalar = bool(cat.isscalar)
    for n in (names or allnames):
        k = SPEC_CAT[n]
        if k.kind == 'skip':
            continue
        v = _guard(lambda n=n: getattr(cat, n), n)
        if scalar and k.per_row and not isinstance(v, Raised):
            v = _wrap_scalar(v, k.kind)
        out[n] = v
    if methods:
        m = {}

        def pair(res, a, b):
            if isinstance(res, Raised):
                m[a] = m[b] = res
            else:
                m[a], m[b] = res
        pair(_guard(lambda: cat.kron_photometry(o['kron2']), 'm'), 'm_kron_flux2', 'm_kron_fluxerr2')
        m['m_fluxfrac_r50'] = _guard(lambda: cat.fluxfrac_radius(0.5), 'm')
        m['m_fluxfrac_r80'] = _guard(lambda: cat.fluxfrac_radius(0.8), 'm')
        pair(_guard(lambda: cat.circular_photometry(o['circ_r']), 'm'), 'm_circ_flux', 'm_circ_fluxerr')
        m['m_kron_apertures2'] = _guard(lambda: cat.make_kron_apertures(o['kron2']), 'm')
        m['m_circ_apertures'] = _guard(lambda: cat.make_circular_apertures(o['circ_r']), 'm')
        cuts = _guard(lambda: cat.make_cutouts(tuple(o['cutout_shape']), mode='partial', fill_value=np.nan), 'm')
        if o.get('border_mode'):
            pass          # cutouts beyond the frame are NaN-filled there and zero in the canvas: not compared
        elif isinstance(cuts, Raised):
            m['m_cutout_data'] = m['m_cutout_bbox'] = cuts
        else:
            cl = _aslist(cuts)
            m['m_cutout_data'] = [None if c is None else np.asarray(c.data) for c in cl]
            m['m_cutout_bbox'] = [None if c is None else c.bbox_original for c in cl]
        for n, v in m.items():
            k = SPEC_CAT[n]
            if scalar and k.per_row and not isinstance(v, Raised):
                v = _wrap_scalar(v, k.kind)
            out[n] = v
    return out


def catalog_rows(out, o, kron_params):
    """Measurement footprint of every row, from the row's own reported geometry: segment box grown by the
    local-background annulus, the 6-sigma ellipse of the Kron measurement, the Kron / circular /
    flux-fraction / windowed-centroid apertures. +2 px of slack."""
    xc = np.asarray(split_unit(out['xcentroid'])[0], float).ravel()
    yc = np.asarray(split_unit(out['ycentroid'])[0], float).ravel()
    a = np.asarray(split_unit(out['semimajor_sigma'])[0], float).ravel()
    kr = np.asarray(split_unit(out['kron_radius'])[0], float).ravel()
    n = len(xc)
    r = 6.0 * a
    r = np.fmax(r, kr * a * kron_params[0])
    if len(kron_params) == 3:
        r = np.fmax(r, kron_params[2])
    if 'm_fluxfrac_r50' in out:
        if not isinstance(out['m_fluxfrac_r50'], Raised):
            r50 = np.asarray(split_unit(out['m_fluxfrac_r50'])[0], float).ravel()
            r = np.fmax(r, 4.0 * 2.0 * np.fmax(r50, 0.5) / 2.3548200450309493)
        r = np.fmax(r, o['circ_r'])
        r = np.fmax(r, o['kron2'][0] * np.fmax(kr, o['kron2'][1]) * a)
        cs = max(o['cutout_shape']) / 2.0 + 1.0
        r = np.fmax(r, cs)
    r = r + 2.0
    bb = canon('bbox', out['bbox'])[0]
    w = o['localbkg_width']
    gx = 0.25 * (bb[:, 1] - bb[:, 0]) + w + 2.0 if w else 0.0
    gy = 0.25 * (bb[:, 3] - bb[:, 2]) + w + 2.0 if w else 0.0
    rows = np.column_stack([np.fmin(xc - r, bb[:, 0] - gx), np.fmax(xc + r, bb[:, 1] + gx),
                            np.fmin(yc - r, bb[:, 2] - gy), np.fmax(yc + r, bb[:, 3] + gy)])
    if o.get('border_mode'):
        # margin-less scenes with localbkg_width = 0: every measurement is a weighted SUM over data that is nothing
        # outside the original frame and exactly zero in the padded canvas, so apertures overhanging the frame give
        # identical sums in both frames; the footprint of a row is its segment (always inside)
        rows = np.column_stack([bb[:, 0], bb[:, 1] - 1.0, bb[:, 2], bb[:, 3] - 1.0]).astype(float)
    rows[~np.isfinite(rows).all(axis=1)] = np.nan      # NaN rows are excluded (never inside)
    assert len(rows) == n
    return rows


def seg_with_history(arr, mode):
    """generic axis (x): a SegmentationImage that was used and modified before it is handed in (cached properties read
    before and after every step), instead of a fresh one."""
    from photutils.segmentation import SegmentationImage
    seg = SegmentationImage(np.array(arr, copy=True))
    if mode is None or seg.nlabels == 0:
        return seg
    _ = (seg.slices, seg.areas, seg.bbox, seg.labels)
    if mode == 'relabel':
        seg.relabel_consecutive(start_label=3)
    elif mode == 'reassign':
        seg.reassign_label(int(seg.labels[0]), int(seg.max_label) + 5)
    elif mode == 'keep' and seg.nlabels > 2:
        seg.keep_labels(seg.labels[::-1][:-1])            # descending order, drops the first label
    elif mode == 'remove_relabel' and seg.nlabels > 2:
        seg.remove_label(int(seg.labels[1]), relabel=True)
    _ = (seg.slices, seg.areas, seg.labels)
    return seg


SEG_HISTORY = [None, None, None, 'relabel', 'reassign', 'keep', 'remove_relabel']


def make_catalog(s, o):
    from photutils.segmentation import SegmentationImage, SourceCatalog
    seg = seg_with_history(s['segm'], o.get('seg_history'))
    bkg = s['bkg'] if o['use_bkg'] else None
    conv = s['conv'] if o['use_conv'] else None
    cat = SourceCatalog(s['data'], seg, convolved_data=conv, error=_err(s, o), mask=_mask(s, o),
                        background=bkg, localbkg_width=o['localbkg_width'],
                        apermask_method=o['apermask_method'], kron_params=o['kron_params'])
    if o.get('detcat'):
        # multi-band use: second image measured with the centroids / shapes / apertures of the first
        d2 = s['data2']
        cat = SourceCatalog(d2, seg, error=_err(s, o), mask=_mask(s, o), background=bkg,
                            localbkg_width=o['localbkg_width'], apermask_method=o['apermask_method'],
                            kron_params=o['kron_params'], detection_cat=cat)
    if o['sub'] == 'one':
        cat = cat[len(cat) // 2]
    elif o['sub'] == 'slice' and len(cat) > 2:
        cat = cat[::2]
    return cat


def fallback_counters(out):
    """How many rows took a documented fallback branch (evidence only, never a verdict)."""
    def arr(n):
        v = out.get(n)
        if v is None or isinstance(v, Raised):
            return None
        return np.asarray(split_unit(v)[0], float)
    c = {}
    cen, quad, win = arr('centroid'), arr('centroid_quad'), arr('centroid_win')
    if cen is not None:
        cen = cen.reshape(-1, 2)
        c['rows'] = len(cen)
        c['rows_nan_centroid(all masked / no flux)'] = int(np.isnan(cen).any(axis=1).sum())
        if quad is not None:
            q = quad.reshape(-1, 2)
            c['rows_centroid_quad==centroid(fit failed -> barycentre)'] = int(np.all(q == cen, axis=1).sum())
        if win is not None:
            w = win.reshape(-1, 2)
            c['rows_centroid_win==centroid(reset to isophotal)'] = int(np.all(w == cen, axis=1).sum())
    kr = arr('kron_radius')
    if kr is not None:
        c['rows_kron_radius==0(minimum circular radius)'] = int((kr.ravel() == 0).sum())
    area = arr('area')
    if area is not None:
        a = area.ravel()
        c['rows_single_pixel'] = int((a == 1).sum())
        c['rows_2to5_pixels'] = int(((a >= 2) & (a <= 5)).sum())
    return c


def run_catalog(s, o):
    if s['segm'].max() == 0:
        return {'nlabels': 0}, np.zeros((0, 4))
    cat = make_catalog(s, o)
    out = catalog_outputs(cat, o, methods=o['methods'])
    rows = catalog_rows(out, o, o['kron_params'])
    out['_notes'] = fallback_counters(out)
    # rows without positive flux (fully masked, or no positive pixel): centroid NaN, zeroth moment 0 -> the central
    # moments are 0*NaN products whose NaN pattern depends on the order of the matrix products; such rows are
    # "infinitely ill conditioned" for the moment-derived outputs (all other outputs are still compared)
    cen = np.asarray(split_unit(out['centroid'])[0], float).reshape(-1, 2)
    cond = np.where(np.isnan(cen).any(axis=1), np.inf, 1.0)
    # tie band of the strict test `det(covariance) < 0 -> NaN` in SourceCatalog._covariance: for collinear pixels
    # (diagonal pair, thin line) the determinant mu20*mu02 - mu11**2 is 0 in exact arithmetic and +-1e-17 in floating
    # point, so NaN-or-regularised is decided by summation order; everything downstream (shape, Kron aperture,
    # windowed centroid) follows. Such rows are excluded as a whole and counted.
    mc = out.get('moments_central')
    if mc is not None and not isinstance(mc, Raised):
        m = np.asarray(split_unit(mc)[0], float).reshape(-1, 4, 4)
        with np.errstate(all='ignore'):
            mn = m / m[:, 0:1, 0:1]
            det = mn[:, 0, 2] * mn[:, 2, 0] - mn[:, 1, 1] ** 2
            scale = np.abs(mn[:, 0, 2] * mn[:, 2, 0]) + mn[:, 1, 1] ** 2
            tie = np.isfinite(det) & (scale > 0) & (np.abs(det) <= 1e-9 * scale)
        out['_notes']['rows_collinear_pixels(det(cov)=0 tie, excluded)'] = int(tie.sum())
        rows = np.array(rows, dtype=float, copy=True)
        rows[tie] = np.nan
    return out, rows, cond


# data_properties: one source = the whole (masked) array -> transposition and representation only
def prep_dataprops(rng, scene):
    src = scene['src'].v[0]
    h = Pair((int(rng.integers(6, 12)), int(rng.integers(6, 12))))
    mode = _opt(rng, 'source', 'source', 'source', 'peakmask', 'peakmask', 'tiny', 'edge')
    d = dict(center=XY(np.rint(src)), half=h, use_mask=_use(rng, 0.5), use_bkg=_use(rng, 0.5), mode=mode,
             own_mask=None,
             # the rarely used keyword at a non-default, NON-INTEGER value: scalar background level vs 2-D array
             bkg_form=_opt(rng, 'array', 'scalar', 'scalar'),
             bkg_level=float(np.round(rng.uniform(0.6, 9.4), 2) + 0.01) * scene.get('scale', 1.0))
    if mode == 'peakmask':
        # 5 of the 9 pixels around the brightest pixel of the cutout masked: quadratic fit has < 6 points -> fallback
        d['use_mask'] = True
        d['own_mask'] = Img(np.array([[0, 0, 0], [0, 0, 1], [1, 1, 1]], bool) if rng.random() < 0.5
                            else np.array([[1, 1, 0], [1, 0, 0], [1, 1, 0]], bool))
    elif mode == 'edge':
        # the source peak sits on the border of the cutout (no fit is performed: position of the maximum)
        off = np.array([h.v[1] * int(rng.choice([-1, 0, 1])), h.v[0] * int(rng.choice([-1, 1]))], dtype=float)
        d['center'] = XY(np.rint(src) + off)
    elif mode == 'tiny':
        # 1x1 .. 2x3 cutouts (single-pixel source, < 6 pixels)
        d['half'] = Pair((int(rng.integers(0, 2)), int(rng.integers(0, 2))))
        d['tiny_extra'] = Pair((int(rng.integers(0, 2)), int(rng.integers(0, 2))))
    return d


_DP_NAMES = ['xcentroid', 'ycentroid', 'centroid', 'bbox', 'bbox_xmin', 'bbox_xmax', 'bbox_ymin', 'bbox_ymax',
             'area', 'segment_flux', 'min_value', 'max_value', 'minval_index', 'maxval_index', 'minval_xindex',
             'minval_yindex', 'maxval_xindex', 'maxval_yindex', 'moments', 'moments_central', 'covariance',
             'covar_sigx2', 'covar_sigy2', 'covar_sigxy', 'cxx', 'cyy', 'cxy', 'semimajor_sigma',
             'semiminor_sigma', 'orientation', 'eccentricity', 'elongation', 'ellipticity', 'fwhm', 'gini',
             'perimeter', 'equivalent_radius', 'inertia_tensor', 'covariance_eigvals', 'cutout_centroid',
             'background_mean', 'background_sum', 'background_centroid', 'centroid_quad', 'kron_radius',
             'kron_flux', 'centroid_win']


def run_dataprops(s, o):
    from photutils.morphology import data_properties
    cx, cy = (int(v) for v in o['center'])
    hy, hx = o['half']
    ey, ex = o.get('tiny_extra', (0, 0))
    sl = (slice(cy - hy, cy + hy + 1 + ey), slice(cx - hx, cx + hx + 1 + ex))
    data = s['data'][sl]
    mask = s['mask'][sl] if o['use_mask'] else None
    bkg = s['bkg'][sl] if o['use_bkg'] else None
    if o['use_bkg'] and o.get('bkg_form') == 'scalar':
        bkg = o['bkg_level'] if o.get('unit') is None else o['bkg_level'] * o['unit']
    if o.get('own_mask') is not None:
        dd = np.where(np.isfinite(data), data, -np.inf)
        iy, ix = np.unravel_index(np.argmax(dd), dd.shape)
        iy, ix = min(max(iy, 1), data.shape[0] - 2), min(max(ix, 1), data.shape[1] - 2)
        mask = np.array(mask, copy=True)
        mask[iy - 1:iy + 2, ix - 1:ix + 2] |= np.asarray(o['own_mask'], bool)
    cat = data_properties(data, mask=mask, background=bkg)
    oo = dict(o, kron_params=(2.5, 1.4, 0.0))
    out = catalog_outputs(cat, oo, names=_DP_NAMES, methods=False)
    out['_notes'] = fallback_counters(out)
    return out, None


# ----------------------------------------------------------------------
# 10. profiles
# ----------------------------------------------------------------------
SPEC_PROFILE = {
    'radius': K('free', per_row=False), 'profile': K('free', per_row=False, unit='data'),
    'profile_error': K('free', per_row=False, unit='data'), 'area': K('free', per_row=False),
    # 1-D Gaussian fit to the profile: measured max relative deviation 4e-14 (1000 profiles); tolerance 1e-8
    'gaussian_fwhm': K('free', per_row=False, rtol=1e-8), 'gaussian_params': K('free', per_row=False, rtol=1e-8, atol=0.0),
    'gaussian_profile': K('free', per_row=False, rtol=1e-8, aamp=1e-8, unit='data'), '_gfit': K('skip'),
    'data_radius': K('free', per_row=False), 'data_profile': K('free', per_row=False, scale='data'),   # documented as plain ndarray
   
    'xycen': K('xy', per_row=False), 'ee_at_r': K('free', per_row=False), 'r_at_ee': K('free', per_row=False),
    'apertures': K('aper', per_row=False),
}


def mech_profile(o, name, base=None):
    # structural fact about the baseline result: the first (smallest) aperture selected no pixel at all
    empty = False
    if base is not None and 'area' in base:
        a = np.asarray(split_unit(base['area'])[0], float)
        empty = bool(a.size and a[0] == 0)
    return {'method_class': 'exact' if o['method'] == 'exact' else 'center/subpixel', 'which': o['which'],
            'empty_first_aperture': empty}


def prep_profile(rng, scene):
    src = scene['src'].v
    j = int(rng.integers(0, len(src)))
    xy = src[j] + rng.normal(0, 0.7, 2)
    rmax = float(rng.uniform(5.0, 14.0))
    if rng.random() < 0.15:
        # anywhere in the core (the data there are non-zero) with a large radius: some of these profiles reach
        # beyond the frame edge and exercise the exclusion rule
        ox, oy, nx, ny = scene['frame'].v
        m = scene['margin']
        xy = np.array([rng.uniform(ox + m, ox + nx - 1 - m), rng.uniform(oy + m, oy + ny - 1 - m)])
        rmax = float(rng.uniform(14.0, 30.0))
    step = float(_opt(rng, 1.0, 0.5, 1.5, 0.8))
    if rng.random() < 0.2:
        xy = np.rint(np.asarray(xy) * 2.0) / 2.0          # exactly k or k + 0.5
    return dict(xycen=XY(xy), rmax=rmax, step=step, use_error=_use(rng), use_mask=_use(rng, 0.5),
                method=_opt(rng, 'exact', 'exact', 'center', 'subpixel'), subpixels=int(rng.integers(1, 7)),
                which=_opt(rng, 'radial', 'cog'))


def gfit_endpoints_equivalent(g1, g2):
    """Arbitration for the 1-D Gaussian fit of a radial profile whose reported parameters differ between the two
    frames by more than 1e-8. The reported value is the end point of an iterative least-squares fit (astropy
    TRFLSQFitter, termination ftol/xtol/gtol 1e-8): on an ill-conditioned profile (seen: a ring-like profile fitted
    with amplitude -180, parameters 1.5e-5 apart under transposition while the profiles agree to 1e-15) rounding
    differences of the profile move the iteration at which it stops. Both end points are accepted iff (a) a fit
    polished to machine precision from each end point on its own profile arrives at the same optimum in both
    frames (1e-7) and (b) each reported end point is a minimum to the fitter's own tolerance: its sum of squared
    residuals exceeds the polished one by < 1e-6 relative. Returns (True | False | None = fitter stopped short of
    the minimum in one of the frames, info)."""
    from scipy.optimize import least_squares
    pol = []
    for r, pr, th in (g1, g2):
        fin = np.isfinite(r) & np.isfinite(pr)
        r, pr = r[fin], pr[fin]
        sc = max(float(np.max(np.abs(pr))), 1e-300)

        def res(t, r=r, pr=pr, sc=sc):
            return (t[0] * np.exp(-0.5 * ((r - 0.0) / t[1]) ** 2) - pr) / sc

        t0 = np.array([th[0], abs(th[2])])
        if not (np.all(np.isfinite(t0)) and t0[1] > 0):
            return False, 'non-finite end point'
        try:
            sol = least_squares(res, t0, xtol=1e-15, ftol=1e-15, gtol=1e-15, x_scale=np.maximum(np.abs(t0), 1e-300),
                                max_nfev=2000)
        except Exception as exc:  # noqa: BLE001
            return False, f'polish failed: {type(exc).__name__}'
        ssr0, ssr1 = float(np.sum(res(t0) ** 2)), float(np.sum(sol.fun ** 2))
        pol.append((sol.x, ssr0, ssr1))
    (x1, a0, a1), (x2, b0, b1) = pol
    same_opt = bool(np.allclose(x1, x2, rtol=1e-7, atol=0.0))
    at_min = (a0 - a1) <= 1e-6 * max(a1, 1e-30) and (b0 - b1) <= 1e-6 * max(b1, 1e-30)
    if not at_min:
        # the trusted fitter stopped short of the minimum (seen: noise-like profile, reported (-180, 2.80) with
        # SSR 2.11 while the minimum (-1492, 2.09) has 1.37): the reported value is a point on the iteration path,
        # not a function of the profile up to rounding -> undecided, counted by the caller
        return None, dict(polished=[x1.tolist(), x2.tolist()], ssr_excess=[a0 - a1, b0 - b1], ssr=[a1, b1])
    return same_opt, dict(polished=[x1.tolist(), x2.tolist()], ssr_excess=[a0 - a1, b0 - b1], ssr=[a1, b1])


def run_profile(s, o):
    from photutils.profiles import CurveOfGrowth, RadialProfile
    xy = tuple(float(v) for v in o['xycen'])
    out = {}
    if o['which'] == 'radial':
        edges = np.arange(0.0, o['rmax'] + 1e-9, o['step'])
        p = RadialProfile(s['data'], xy, edges, error=_err(s, o), mask=_mask(s, o),
                          method=o['method'], subpixels=o['subpixels'])
        out['radius'] = p.radius
        out['profile'] = p.profile
        out['profile_error'] = p.profile_error
        out['area'] = p.area
        gf = _guard(lambda: p.gaussian_fit, 'gaussian_fit')
        if isinstance(gf, Raised):
            out['gaussian_params'] = out['gaussian_fwhm'] = out['gaussian_profile'] = gf
        else:
            gsd = abs(float(getattr(gf.stddev, 'value', gf.stddev)))
            # a fitted width far beyond the sampled radii (flat / rising profile) is not constrained by the data
            unconstrained = not np.isfinite(gsd) or gsd > 10.0 * o['rmax']
            out['gaussian_params'] = np.array([float(getattr(gf.amplitude, 'value', gf.amplitude)),
                                               float(getattr(gf.mean, 'value', gf.mean)),
                                               np.nan if unconstrained else gsd])
            out['gaussian_fwhm'] = np.nan if unconstrained else p.gaussian_fwhm
            out['gaussian_profile'] = p.gaussian_profile
            # what the fit saw, for the end-point arbitration (gfit_endpoints_equivalent)
            out['_gfit'] = (np.asarray(split_unit(p.radius)[0], float), np.asarray(split_unit(p.profile)[0], float),
                            np.array([float(getattr(q, 'value', q)) for q in (gf.amplitude, gf.mean, gf.stddev)]))
        dr, dp = np.asarray(p.data_radius), p.data_profile
        dpv, un = split_unit(dp)
        idx = np.lexsort((np.asarray(dpv), dr))
        out['data_radius'] = dr[idx]
        out['data_profile'] = dp[idx]
    else:
        radii = np.arange(o['step'], o['rmax'] + 1e-9, o['step'])
        p = CurveOfGrowth(s['data'], xy, radii, error=_err(s, o), mask=_mask(s, o),
                          method=o['method'], subpixels=o['subpixels'])
        out['radius'] = p.radius
        out['profile'] = p.profile
        out['profile_error'] = p.profile_error
        out['area'] = p.area
        rs = radii[0] + (radii[-1] - radii[0]) * np.array([0.13, 0.41, 0.77])
        out['ee_at_r'] = _guard(lambda: p.calc_ee_at_radius(rs), 'ee_at_r')
        prof = p.profile
        pv = np.asarray(split_unit(prof)[0], float)
        out['r_at_ee'] = np.full(3, np.nan)
        if np.isfinite(pv).all() and pv.max() > pv[0]:
            targets = prof[0] + (prof.max() - prof[0]) * np.array([0.2, 0.5, 0.8])
            try:
                out['r_at_ee'] = p.calc_radius_at_ee(targets)
            except ValueError as exc:
                if 'monotonically' not in str(exc):
                    raise
                out['r_at_ee'] = np.full(3, np.nan)       # documented: profile not increasing at the start
    out['xycen'] = np.asarray(p.xycen, float)
    out['apertures'] = list(p.apertures)[-1:]
    r = o['rmax'] + 2.0
    rows = np.array([[xy[0] - r, xy[0] + r, xy[1] - r, xy[1] + r]])
    return out, rows


# ----------------------------------------------------------------------
# 11. make_model_image
# ----------------------------------------------------------------------
SPEC_MODEL = {'image': K('frame', per_row=False, unit='data')}


def mech_model(o, name, base=None):
    nothing = False
    if base is not None and 'image' in base:
        nothing = bool(np.all(np.asarray(split_unit(base['image'])[0]) == 0))
    return {'nothing_rendered': nothing}


def prep_model(rng, scene):
    ox, oy, nx, ny = scene['frame'].v
    n = int(rng.integers(1, 8))
    inside = rng.random() < 0.6
    lo = 12.0 if inside else -6.0
    x = rng.uniform(ox + lo, ox + nx - 1 - lo, n)
    y = rng.uniform(oy + lo, oy + ny - 1 - lo, n)
    which = _opt(rng, 'gauss2d', 'prf', 'moffat')
    shape = Pair((int(_opt(rng, 7, 9, 10, 13)), int(_opt(rng, 7, 8, 11, 15))))
    if rng.random() < 0.3:
        shape = int(_opt(rng, 7, 9, 12))
    snapped = rng.random() < 0.4
    if snapped and not False:
        # generic axis (ix): coordinates exactly at k and k + 0.5 (even and odd k), small truncating windows of even
        # and odd size: the window edge lands exactly on a pixel boundary / on the last pixel
        x, y = np.rint(x * 2.0) / 2.0, np.rint(y * 2.0) / 2.0
        shape = Pair((int(_opt(rng, 4, 5, 6, 7)), int(_opt(rng, 4, 5, 7, 8))))
    sc_ = scene.get('scale', 1.0)
    return dict(xy=XY(np.column_stack([x, y])), flux=rng.uniform(10, 500, n) * sc_, which=which,
                sx=rng.uniform(1.0, 3.0, n), sy=rng.uniform(1.0, 3.0, n), theta=rng.uniform(0, np.pi, n),
                model_shape=shape, use_bbox=_use(rng, 0.25) and which == 'gauss2d',
                local_bkg=_opt(rng, None, rng.uniform(0, 3, n) * sc_),
                discretize_method=_opt(rng, 'center', 'center', 'interp', 'oversample'),
                oversample=int(_opt(rng, 3, 5)), snapped=snapped, used_before=_use(rng, 0.3))


def run_model(s, o):
    from astropy.modeling.models import Gaussian2D, Moffat2D
    from astropy.table import QTable
    from photutils.datasets import make_model_image
    from photutils.psf import CircularGaussianPRF
    xy = np.asarray(o['xy'])
    n = len(xy)
    t = QTable()
    t['x_0'] = xy[:, 0]
    t['y_0'] = xy[:, 1]
    unit = o.get('unit')
    if o['which'] == 'gauss2d':
        model = Gaussian2D()
        t['amplitude'] = o['flux'] if unit is None else o['flux'] * unit
        t['x_stddev'] = o['sx']
        t['y_stddev'] = o['sy']
        t['theta'] = o['theta']
        x_name, y_name = 'x_mean', 'y_mean'
        t.rename_column('x_0', 'x_mean')
        t.rename_column('y_0', 'y_mean')
    elif o['which'] == 'prf':
        model = CircularGaussianPRF()
        t['flux'] = o['flux'] if unit is None else o['flux'] * unit
        t['fwhm'] = o['sx'] * 2.0
        x_name, y_name = 'x_0', 'y_0'
    else:
        model = Moffat2D()
        t['amplitude'] = o['flux'] if unit is None else o['flux'] * unit
        t['gamma'] = o['sx'] * 1.5
        t['alpha'] = o['sy'] + 1.0
        x_name, y_name = 'x_0', 'y_0'
    if o['local_bkg'] is not None:
        lbu = None if o.get('local_bkg_plain') else (o.get('local_bkg_unit_only') or unit)
        t['local_bkg'] = o['local_bkg'] if lbu is None else o['local_bkg'] * lbu
    kw = {}
    ms = o['model_shape']
    if o['use_bbox']:
        kw = dict(model_shape=None, bbox_factor=float(3.0))
        half = 3.0 * 5.5 * max(np.max(o['sx']), np.max(o['sy'])) / 5.5 + 2
        hy = hx = half
    else:
        kw = dict(model_shape=ms)
        my, mx = (ms, ms) if np.isscalar(ms) else ms
        hy, hx = my / 2.0 + 1.0, mx / 2.0 + 1.0
    if o.get('used_before'):
        # generic axis (x): a model object with a history (evaluated, then copied) instead of a fresh one
        model(1.0, 2.0)
        model = model.copy()
    img = make_model_image(s['data'].shape, model, t, x_name=x_name, y_name=y_name,
                           discretize_method=o['discretize_method'], discretize_oversample=o['oversample'],
                           progress_bar=False, **kw)
    rows = np.column_stack([xy[:, 0] - hx, xy[:, 0] + hx, xy[:, 1] - hy, xy[:, 1] + hy])
    return {'image': img}, rows


# ----------------------------------------------------------------------
# 12. centroid functions (transposition, representation)
# ----------------------------------------------------------------------
# Gaussian-fit centroids (Levenberg-Marquardt on a transposed cutout): measured on the unchanged tree: typically
# 1e-11 px, but 1.5e-5 px in the worst of ~6000 fits of a thorough run (poorly constrained fits through a footprint
# with holes); tolerance 5e-3 px as planned in DESIGN (>= 300x the worst seen, far below a half-pixel slip). Fits
# that run away from the cutout (result more than one cutout size outside it) are not centroids of anything and are
# reported as NaN on both sides (counted).
GFIT_ATOL = 5e-3
SPEC_CENTROID = {'com': K('cxy', per_row=False), 'quadratic': K('cxy', per_row=False),
                 'quadratic_peak': K('cxy', per_row=False), 'quadratic_search': K('cxy', per_row=False),
                 '1dg': K('cxy', per_row=False, atol=GFIT_ATOL), '2dg': K('cxy', per_row=False, atol=GFIT_ATOL),
                 'sources_com': K('xy', per_row=False), 'sources_quadratic': K('xy', per_row=False),
                 'sources_quadratic_peak': K('xy', per_row=False), 'sources_quadratic_search': K('xy', per_row=False),
                 'sources_2dg': K('xy', per_row=False, atol=GFIT_ATOL)}


def prep_centroid(rng, scene):
    src = scene['src'].v
    j = int(rng.integers(0, len(src)))
    half = Pair((int(rng.integers(4, 10)), int(rng.integers(4, 10))))
    if rng.random() < 0.3:
        half = Pair((half.v[0],) * 2)
    cen = np.rint(src[j] + rng.normal(0, 0.8, 2))
    box = Pair((int(_opt(rng, 5, 7, 9, 11)), int(_opt(rng, 5, 7, 9, 13))))
    fp = None
    if rng.random() < 0.3:
        f = rng.random((int(_opt(rng, 5, 7)), int(_opt(rng, 7, 9)))) < 0.8
        f[f.shape[0] // 2, f.shape[1] // 2] = True
        fp = Img(f)
    return dict(center=XY(cen), half=half, use_mask=_use(rng, 0.5), use_error=_use(rng, 0.5),
                fit_boxsize=Pair((int(_opt(rng, 3, 5, 7)), int(_opt(rng, 3, 5, 7)))),
                search_boxsize=_opt(rng, None, Pair((int(_opt(rng, 3, 5)), int(_opt(rng, 5, 7))))),
                peak_off=Pair((int(rng.integers(-1, 2)), int(rng.integers(-1, 2)))),     # (dy, dx) offset, not a position
                search2=Pair((int(_opt(rng, 3, 5)), int(_opt(rng, 5, 7)))),
                box_size=box, footprint=fp, pos=XY(src + rng.normal(0, 0.6, src.shape)),
                # full-frame peak guesses forwarded through centroid_sources(xpeak=, ypeak=) (one call per source)
                peaks=XY(np.rint(src) + rng.integers(-1, 2, src.shape)),
                fits=_use(rng, 0.5))


def run_centroid(s, o):
    from photutils.centroids import (centroid_1dg, centroid_2dg, centroid_com, centroid_quadratic,
                                     centroid_sources)
    cx, cy = (int(v) for v in o['center'])
    hy, hx = o['half']
    sl = (slice(cy - hy, cy + hy + 1), slice(cx - hx, cx + hx + 1))
    data = s['data'][sl]
    mask = s['mask'][sl] if o['use_mask'] else None
    err = s['error'][sl] if o['use_error'] else None
    out = {'com': np.asarray(centroid_com(data, mask=mask))}
    out['quadratic'] = np.asarray(centroid_quadratic(data, fit_boxsize=o['fit_boxsize'],
                                                     search_boxsize=o['search_boxsize'], mask=mask))
    px, py = hx + o['peak_off'][1], hy + o['peak_off'][0]
    out['quadratic_peak'] = np.asarray(centroid_quadratic(data, xpeak=int(px), ypeak=int(py),
                                                          fit_boxsize=o['fit_boxsize'], mask=mask))
    def sane(c, shape, origin=(0.0, 0.0)):
        c = np.array(c, dtype=float)
        ny_, nx_ = shape
        bad = ((c[..., 0] - origin[0] < -nx_) | (c[..., 0] - origin[0] > 2 * nx_)
               | (c[..., 1] - origin[1] < -ny_) | (c[..., 1] - origin[1] > 2 * ny_))
        if np.any(bad):
            c[bad] = np.nan
        return c
    sb = o['search2']
    out['quadratic_search'] = np.asarray(centroid_quadratic(data, xpeak=int(px), ypeak=int(py), search_boxsize=sb,
                                                            fit_boxsize=o['fit_boxsize'], mask=mask))
    def near_centre(c):
        # the cutout is centred on the source (+-1 px); a Gaussian fit that ends more than 3 px away has locked on
        # something else (a neighbour at the cutout edge, a noise ridge) and is multi-modal -> reported as NaN
        c = np.array(c, dtype=float)
        if np.all(np.isfinite(c)) and (abs(c[0] - hx) > 3.0 or abs(c[1] - hy) > 3.0):
            c[:] = np.nan
        return c
    if o['fits']:
        out['1dg'] = near_centre(sane(centroid_1dg(data, error=err, mask=mask), data.shape))
        out['2dg'] = near_centre(sane(centroid_2dg(data, error=err, mask=mask), data.shape))
    pos = np.asarray(o['pos'])
    kw = dict(box_size=o['box_size']) if o['footprint'] is None else dict(footprint=o['footprint'])
    full_mask = s['mask'] if o['use_mask'] else None
    x, y = centroid_sources(s['data'], pos[:, 0], pos[:, 1], mask=full_mask, centroid_func=centroid_com, **kw)
    out['sources_com'] = np.column_stack([x, y])
    x, y = centroid_sources(s['data'], pos[:, 0], pos[:, 1], mask=full_mask,
                            centroid_func=centroid_quadratic, **kw)
    out['sources_quadratic'] = np.column_stack([x, y])
    pk = np.asarray(o['peaks'])
    qp, qs = [], []
    for i in range(min(len(pos), 4)):
        x, y = centroid_sources(s['data'], pos[i:i + 1, 0], pos[i:i + 1, 1], mask=full_mask,
                                centroid_func=centroid_quadratic, xpeak=int(pk[i, 0]), ypeak=int(pk[i, 1]),
                                fit_boxsize=3, **kw)
        qp.append([x[0], y[0]])
        x, y = centroid_sources(s['data'], pos[i:i + 1, 0], pos[i:i + 1, 1], mask=full_mask,
                                centroid_func=centroid_quadratic, xpeak=int(pk[i, 0]), ypeak=int(pk[i, 1]),
                                fit_boxsize=3, search_boxsize=o['search2'], **kw)
        qs.append([x[0], y[0]])
    out['sources_quadratic_peak'] = np.array(qp)
    out['sources_quadratic_search'] = np.array(qs)
    if o['fits']:
        x, y = centroid_sources(s['data'], pos[:1, 0], pos[:1, 1], mask=full_mask,
                                centroid_func=centroid_2dg, **kw)
        bs = o['box_size'] if o['footprint'] is None else o['footprint'].shape
        c2 = sane(np.column_stack([x, y]), bs, origin=(pos[0, 0] - bs[1] / 2, pos[0, 1] - bs[0] / 2))
        if np.all(np.isfinite(c2)) and (abs(c2[0, 0] - pos[0, 0]) > 3.0 or abs(c2[0, 1] - pos[0, 1]) > 3.0):
            c2[:] = np.nan          # locked onto something else than the source the box is centred on (multi-modal)
        out['sources_2dg'] = c2
    return out, None


# ----------------------------------------------------------------------
# 13. Background2D, detect_threshold, calc_total_error (representation only)
# ----------------------------------------------------------------------
SPEC_BKG = {'background': K('frame', per_row=False, unit='data'), 'background_rms': K('frame', per_row=False, unit='data'),
            'background_mesh': K('free', per_row=False, scale='data'),
            'background_rms_mesh': K('free', per_row=False, scale='data'),
            'background_median': K('free', per_row=False, unit='data'),
            'background_rms_median': K('free', per_row=False, unit='data'),
            'npixels_mesh': K('free', per_row=False), 'npixels_map': K('free', per_row=False)}


def prep_bkg(rng, scene):
    return dict(box_size=Pair((int(rng.integers(8, 20)), int(rng.integers(8, 20)))),
                filter_size=Pair((int(_opt(rng, 1, 3)), int(_opt(rng, 3, 5)))),
                use_mask=_use(rng, 0.5), clip=True, estimator=_opt(rng, 'sextractor', 'median', 'mean', 'mmm', 'biweight'),
                rms=_opt(rng, 'std', 'mad', 'biweight'), exclude_percentile=float(_opt(rng, 10.0, 25.0)),
                edge_method='pad', use_coverage=_use(rng, 0.3), add_bkg=True)


def run_bkg(s, o):
    import photutils.background as pb
    from astropy.stats import SigmaClip
    est = {'sextractor': pb.SExtractorBackground, 'median': pb.MedianBackground, 'mean': pb.MeanBackground,
           'mmm': pb.MMMBackground, 'biweight': pb.BiweightLocationBackground}[o['estimator']]()
    rms = {'std': pb.StdBackgroundRMS, 'mad': pb.MADStdBackgroundRMS,
           'biweight': pb.BiweightScaleBackgroundRMS}[o['rms']]()
    cov = None
    if o['use_coverage']:
        cov = np.zeros(s['mask'].shape, bool)
        cov[:, :5] = True
    b = pb.Background2D(s['bdata'], o['box_size'], mask=_mask(s, o), coverage_mask=cov,
                        exclude_percentile=o['exclude_percentile'], filter_size=o['filter_size'],
                        sigma_clip=SigmaClip(sigma=3.0, maxiters=10) if o['clip'] else None,
                        bkg_estimator=est, bkgrms_estimator=rms)
    out = {'background': b.background, 'background_rms': b.background_rms,
           'background_mesh': b.background_mesh, 'background_rms_mesh': b.background_rms_mesh,
           'background_median': b.background_median, 'background_rms_median': b.background_rms_median,
           'npixels_mesh': b.npixels_mesh, 'npixels_map': b.npixels_map}
    return out, None


SPEC_THRESH = {'threshold': K('frame', per_row=False, unit='data')}


def prep_thresh(rng, scene):
    return dict(nsigma=float(rng.uniform(1.0, 4.0)), bkg=_opt(rng, None, 'scalar', 'array'),
                err=_opt(rng, None, 'scalar', 'array'), use_mask=_use(rng, 0.5), clip=True)


def run_thresh(s, o):
    from astropy.stats import SigmaClip
    from photutils.segmentation import detect_threshold
    bkg = {None: None, 'scalar': s['bkg_scalar'], 'array': s['bkg']}[o['bkg']]
    err = {None: None, 'scalar': s['err_scalar'], 'array': s['error']}[o['err']]
    kw = {}
    if not o['clip']:
        kw['sigma_clip'] = SigmaClip(sigma=1e9, maxiters=1)
    t = detect_threshold(s['bdata'], o['nsigma'], background=bkg, error=err, mask=_mask(s, o), **kw)
    return {'threshold': t}, None


SPEC_TOTERR = {'total_error': K('frame', per_row=False, unit='data')}


def prep_toterr(rng, scene):
    return dict(gain=_opt(rng, 'scalar', 'array'), gain_value=float(rng.uniform(1.5, 6.0)))


def run_toterr(s, o):
    from photutils.utils import calc_total_error
    g = o['gain_value']
    if o['gain'] == 'array':
        ny, nx = s['error'].shape
        g = g * (1.0 + 0.1 * np.cos(np.arange(nx) / 9.0))[None, :] * np.ones((ny, 1))
    if o.get('gain_unit') is not None:
        g = g * o['gain_unit']
    return {'total_error': calc_total_error(s['bdata'], s['error'], g)}, None


# ----------------------------------------------------------------------
# 14. PSFPhotometry
# ----------------------------------------------------------------------
# Fitted quantities. CircularGaussianPRF has no analytic derivative, so astropy's least-squares fitters use a
# forward-difference Jacobian whose step is relative to the parameter value - which includes the ABSOLUTE position.
# The converged solution satisfies J_approx^T r = 0, and with the residual r of a real scene (noise, elliptical
# sources fitted with a circular PRF) it moves with the absolute coordinates whatever the stopping tolerance (a fitter
# with acc=1e-14 gives bit-identical results). Measured on the unchanged tree (thorough run, 6465 fitted sources + a
# 1300-source probe): positions up to 1.6e-3 px (5 % of the reported x_err), flux 2.2e-4 relative, errors 4e-4
# relative, qfit/cfit 5e-5, images 8e-4*max|data|. Tolerances: 30x those maxima, still 10x below the smallest
# realistic covariance defect (a half-pixel origin slip = 0.5 px; a wrong cutout origin changes fluxes by O(1)).
SPEC_PSF = _TableSpec(free_unit=('flux_init', 'flux_fit', 'flux_err', 'local_bkg'),
                      x_init=K('x', 'y_init'), y_init=K('y', 'x_init'),
                      x_fit=K('x', 'y_fit', atol=5e-2, md=True), y_fit=K('y', 'x_fit', atol=5e-2, md=True),
                      flux_fit=K('free', rtol=1e-2, unit='data', md=True), x_err=K('free', 'y_err', rtol=5e-2, md=True),
                      y_err=K('free', 'x_err', rtol=5e-2, md=True), flux_err=K('free', rtol=5e-2, unit='data', md=True),
                      fwhm_fit=K('free', rtol=1e-2, md=True), fwhm_err=K('free', rtol=5e-2, md=True),
                      qfit=K('free', rtol=1e-2, atol=1e-3, md=True), cfit=K('free', rtol=1e-2, atol=1e-3, md=True),
                      model_image=K('frame', per_row=False, rtol=1e-2, aamp=3e-2, unit='data'),
                      resid_image=K('frame', per_row=False, rtol=1e-2, aamp=3e-2, unit='data'),
                      flags=K('free', md=True), n=K('free', per_row=False), window_tie=K('skip'),
                      _err_undefined=K('skip'))


def prep_psf(rng, scene):
    src = scene['src'].v
    fs = int(_opt(rng, 5, 7, 9))
    return dict(init=XY(src + rng.normal(0, 0.4, src.shape)), fit_shape=Pair((fs, int(_opt(rng, 5, 7, 9)))),
                fwhm=float(np.mean(scene['src_sx']) * 2.2), use_error=_use(rng), use_mask=_use(rng, 0.4),
                grouper=_opt(rng, None, None, 6.0), localbkg=_opt(rng, None, None, (5.0, 9.0)),
                aperture_radius=float(rng.uniform(3.0, 5.0)), finder=_use(rng, 0.2), fixed_fwhm=_use(rng, 0.7),
                flux_init=_use(rng, 0.5), iterative=_use(rng, 0.2), iter_mode=_opt(rng, 'new', 'all'))


def run_psf(s, o):
    from astropy.table import QTable
    from photutils.background import LocalBackground, MedianBackground
    from photutils.detection import DAOStarFinder
    from photutils.psf import CircularGaussianPRF, PSFPhotometry, SourceGrouper
    model = CircularGaussianPRF(fwhm=o['fwhm'])
    if not o['fixed_fwhm']:
        model.fwhm.fixed = False
    unit = o.get('unit')
    finder = None
    init = None
    if o['finder']:
        finder = DAOStarFinder(_q(5.0 * s['sigma'], o), o['fwhm'])
    else:
        init = QTable()
        xy = np.asarray(o['init'])
        init['x'] = xy[:, 0]
        init['y'] = xy[:, 1]
        if o['flux_init']:
            f = np.asarray(s['src_amp']) * 2 * np.pi * np.asarray(s['src_sx']) * np.asarray(s['src_sy'])
            init['flux'] = f if unit is None else f * unit
    lb = None
    if o['localbkg'] is not None:
        lb = LocalBackground(o['localbkg'][0], o['localbkg'][1], MedianBackground())
    grouper = None if o['grouper'] is None else SourceGrouper(o['grouper'])
    kwf = {}
    if o.get('tight', False):
        # user-supplied fitter converging to 1e-14 instead of astropy's default 1e-7: the default stopping rule
        # (xtol relative to |parameters|, which include the absolute positions) is itself not translation invariant
        from astropy.modeling.fitting import TRFLSQFitter

        class TightFitter(TRFLSQFitter):
            def __call__(self, *a, **k):
                k['acc'] = 1e-14
                return super().__call__(*a, **k)
        kwf['fitter'] = TightFitter()
        kwf['fitter_maxiters'] = 400
    if o.get('iterative'):
        # IterativePSFPhotometry needs a finder; sources come from the finder in every iteration
        from photutils.psf import IterativePSFPhotometry
        finder = DAOStarFinder(_q(5.0 * s['sigma'], o), o['fwhm'])
        init = None
        phot = IterativePSFPhotometry(model, tuple(o['fit_shape']), finder, grouper=grouper,
                                      localbkg_estimator=lb, aperture_radius=o['aperture_radius'], maxiters=2,
                                      mode=o['iter_mode'], progress_bar=False)
    else:
        phot = None
    phot = phot or PSFPhotometry(model, tuple(o['fit_shape']), finder=finder, grouper=grouper, **kwf,
                         localbkg_estimator=lb, aperture_radius=o['aperture_radius'], progress_bar=False)
    t = phot(s['data'], mask=_mask(s, o), error=_err(s, o), init_params=init)
    if t is None:
        return {'n': 0}, np.zeros((0, 4))
    out = {'n': len(t)}
    for c in t.colnames:
        out[c] = _col(t, c)
    out['model_image'] = phot.make_model_image(s['mask'].shape, psf_shape=tuple(o['fit_shape']))
    res = phot.make_residual_image(s['data'], psf_shape=tuple(o['fit_shape']))
    if type(res).__name__ == 'NDData':       # NDData in -> NDData out (a deep copy with the residual as data)
        res = res.data if res.unit is None else res.data * res.unit
    out['resid_image'] = res
    # rendering window of every source: first index = ceil(fit position - shape/2) -> a fitted position within 1e-3 px
    # of such a rounding boundary may put the window one pixel over in the related frame (fit noise ~1e-4 px)
    fy, fx = o['fit_shape']
    px = np.asarray(split_unit(t['x_fit'])[0], float) - fx / 2.0
    py = np.asarray(split_unit(t['y_fit'])[0], float) - fy / 2.0
    with np.errstate(invalid='ignore'):
        out['window_tie'] = bool(np.any(np.abs(px - np.rint(px)) < 1e-3) or np.any(np.abs(py - np.rint(py)) < 1e-3))
    # unconstrained fits (reported position error > 1 px or not finite: junk detections, sources without signal) are
    # "infinitely ill conditioned": their fitted columns are not compared and they veto the rendered images
    def col(n):
        return np.asarray(split_unit(t[n])[0], float) if n in t.colnames else np.zeros(len(t))
    with np.errstate(invalid='ignore'):
        ill = ~(np.isfinite(col('x_err')) & np.isfinite(col('y_err')) & (col('x_err') <= 1.0) & (col('y_err') <= 1.0))
        # no significant flux: qfit / cfit (residuals normalised by the fitted flux) and the position blow up
        ill |= (np.abs(col('qfit')) > 5.0) | (np.abs(col('flux_fit')) < 3.0 * np.abs(col('flux_err')))
        # fits that ran away from their initial position or were flagged (outside the image, negative flux, not
        # converged, no covariance, at the bounds) are not converged solutions of anything
        ill |= (np.abs(col('x_fit') - col('x_init')) > 2.0) | (np.abs(col('y_fit') - col('y_init')) > 2.0)
        if 'flags' in t.colnames:
            ill |= (np.asarray(t['flags']).astype(int) & (2 | 4 | 8 | 16 | 32)) != 0
    cond = np.where(ill, np.inf, 1.0)
    # parameter errors come from the fit covariance scaled by the residual variance: where the residuals are at
    # rounding level (noise-free / exactly fitted cutouts: qfit < 1e-6, or an error of exactly 0) the *_err columns are
    # not a function of the scene and are not judged (counted)
    with np.errstate(invalid='ignore'):
        err_undefined = (np.abs(col('qfit')) < 1e-6) | (col('x_err') == 0) | (col('y_err') == 0) | (col('flux_err') == 0)
        # the same holds for nearly exact fits: a position error below a milli-pixel means a residual variance that
        # is model-mismatch / rounding level (seen at thorough seed 5: x_err 2.8e-5 vs 2.6e-5 px, fwhm_err 3.4e-4 vs
        # 2.2e-4 under translation while every fitted value agreed); rows of noisy scenes have errors of 1e-2..1e-1 px
        err_undefined |= (col('x_err') < 1e-3) | (col('y_err') < 1e-3)
        for cn in t.colnames:
            if cn.endswith('_err') and cn not in ('x_err', 'y_err', 'flux_err') and cn[:-4] + '_fit' in t.colnames:
                # free shape parameters: a relative error below 1e-3 is the same regime
                err_undefined |= np.abs(col(cn)) < 1e-3 * np.abs(col(cn[:-4] + '_fit'))
    out['_err_undefined'] = err_undefined
    out['window_tie'] = bool(out['window_tie'] or ill.any())
    x, y = np.asarray(t['x_init'], float), np.asarray(t['y_init'], float)
    h = max(o['fit_shape']) / 2.0 + 2.0 + (o['localbkg'][1] if o['localbkg'] else 0.0) + o['aperture_radius']
    rows = np.column_stack([x - h, x + h, y - h, y + h])
    return out, rows, cond


# ----------------------------------------------------------------------
# 15. statistics layer on a pedestal image (representation only)
# ----------------------------------------------------------------------
class _StatSpec(dict):
    def __missing__(self, k):
        if k.startswith('b2d_') and (k.endswith('background') or k.endswith('background_rms')):
            return K('frame', per_row=False, unit='data')
        return K('free', per_row=False)


SPEC_STATS = _StatSpec()
_LOC = ['MeanBackground', 'MedianBackground', 'ModeEstimatorBackground', 'MMMBackground', 'SExtractorBackground',
        'BiweightLocationBackground']
_RMS = ['StdBackgroundRMS', 'MADStdBackgroundRMS', 'BiweightScaleBackgroundRMS']


def clip_gap_ok(data, mask, sigma, maxiters, gap):
    """True if no clipping bound of any iteration of SigmaClip(sigma, maxiters) on `data` (float64) comes within
    `gap` of a data value: only then is the clipped pixel set immune to a last-digit change of the bounds. Uses
    astropy SigmaClip (trusted base), never photutils."""
    from astropy.stats import SigmaClip
    d = np.asarray(data, float)
    vals = np.unique(d[~mask] if mask is not None else d)
    for it in range(1, maxiters + 1):
        _, lo, hi = SigmaClip(sigma=sigma, maxiters=it)(np.ma.MaskedArray(d, mask), return_bounds=True, masked=True)
        for b in (float(lo), float(hi)):
            if np.min(np.abs(vals - b)) <= gap:
                return False
    return True


def prep_stats(rng, scene):
    return dict(clip=_opt(rng, None, 3.0, 3.0), maxiters=int(_opt(rng, 2, 3, 5)), axis=_opt(rng, None, None, 0, 1),
                nsigma=float(rng.uniform(1.5, 4.0)), use_mask=_use(rng, 0.4),
                boxes=[Pair((int(rng.integers(12, 24)), int(rng.integers(12, 24)))),
                       Pair((int(rng.integers(40, 80)), int(rng.integers(40, 80)))), 'whole'],
                b2d=_use(rng, 0.6))


def run_stats(s, o):
    import photutils.background as pb
    from astropy.stats import SigmaClip
    from photutils.segmentation import detect_threshold
    data = s['pdata']
    mask = s['pmask'] if o['use_mask'] else None
    sc = None if o['clip'] is None else SigmaClip(sigma=o['clip'], maxiters=o['maxiters'])
    out = {}
    # detect_threshold with background=None, error=None: sigma-clipped mean / std of the whole image
    kw = {'sigma_clip': sc if sc is not None else SigmaClip(sigma=1e9, maxiters=1)}
    out['detect_threshold'] = np.asarray(split_unit(detect_threshold(data, o['nsigma'], mask=mask, **kw))[0])[0, 0]
    # estimator classes called directly (masked pixels as a MaskedArray when a mask is used and the input is plain)
    d_in = data
    if mask is not None and o.get('est_mask', True):
        # the estimator API takes masked pixels only as a MaskedArray (not possible for Quantity / integer input:
        # the check decides `est_mask` per variant, identically for the baseline and the variant call)
        d_in = np.ma.MaskedArray(np.ma.getdata(data), mask=mask | np.ma.getmaskarray(data))
    for name in _LOC + _RMS:
        est = getattr(pb, name)(sigma_clip=sc)
        out[name] = _guard(lambda est=est: est(d_in, axis=o['axis']), name)
    if o['b2d']:
        for i, box in enumerate(o['boxes']):
            bs = tuple(s['pmask'].shape) if box == 'whole' else tuple(box)
            b = pb.Background2D(data, bs, mask=mask, sigma_clip=sc, filter_size=1 if box == 'whole' else 3,
                                bkg_estimator=pb.MeanBackground(), bkgrms_estimator=pb.StdBackgroundRMS())
            out[f'b2d_{i}_background_median'] = b.background_median
            out[f'b2d_{i}_background_rms_median'] = b.background_rms_median
            out[f'b2d_{i}_background_mesh'] = b.background_mesh
            out[f'b2d_{i}_background_rms_mesh'] = b.background_rms_mesh
            if i == 0:
                out['b2d_0_background'] = b.background
                out['b2d_0_background_rms'] = b.background_rms
    return out, None


# ----------------------------------------------------------------------
# 16. isophote: elliptical sampling and a single isophote fit (representation only)
# ----------------------------------------------------------------------
class _FreeSpec(dict):
    def __missing__(self, k):
        return K('free', per_row=False)


SPEC_ISO = _FreeSpec()
_ISO_ATTRS = ['intens', 'int_err', 'rms', 'pix_stddev', 'grad', 'grad_error', 'eps', 'pa', 'x0', 'y0', 'ellip_err',
              'pa_err', 'x0_err', 'y0_err', 'a3', 'b3', 'a4', 'b4', 'ndata', 'nflag', 'niter', 'stop_code', 'sarea',
              'tflux_e', 'tflux_c', 'npix_e', 'npix_c', 'sma']


def prep_iso(rng, scene):
    g = scene['ggeom']
    return dict(sma=float(_opt(rng, 6.0, 20.0, 45.0, 45.0, 60.0)),
                integrmode=_opt(rng, 'bilinear', 'nearest_neighbor', 'mean', 'mean', 'median'),
                x0=g['x0'] + float(rng.normal(0, 0.5)), y0=g['y0'] + float(rng.normal(0, 0.5)),
                eps=float(np.clip(g['eps'] + rng.normal(0, 0.04), 0.05, 0.6)), pa=g['pa'] + float(rng.normal(0, 0.08)),
                nclip=int(_opt(rng, 0, 0, 2)), fit=_use(rng, 0.7), use_mask=_use(rng, 0.3))


def run_iso(s, o):
    from photutils.isophote import Ellipse, EllipseGeometry, EllipseSample
    img = s['gdata']
    if o['use_mask'] and o.get('mask_ok', True):
        img = np.ma.MaskedArray(np.ma.getdata(img), mask=s['gmask'] | np.ma.getmaskarray(img))
    geom = EllipseGeometry(o['x0'], o['y0'], o['sma'], o['eps'], o['pa'])
    out = {}
    smp = EllipseSample(img, o['sma'], geometry=geom, integrmode=o['integrmode'], nclip=o['nclip'])
    ang, rad, val = smp.extract()
    out['sample_angles'], out['sample_radii'], out['sample_values'] = np.asarray(ang), np.asarray(rad), np.asarray(val)
    smp.update()
    out['sample_mean'], out['sample_gradient'] = smp.mean, smp.gradient
    out['sample_gradient_error'], out['sample_sector_area'] = smp.gradient_error, smp.sector_area
    out['sample_points'] = np.array([smp.total_points, smp.actual_points])
    # every case also takes one area-integrated sample far out (sector sums beyond the 16-bit ranges), for both
    # area integrators
    for mode in ('mean', 'median'):
        big = EllipseSample(img, 50.0, geometry=geom, integrmode=mode)
        big.update()
        out[f'sample50_{mode}_mean'], out[f'sample50_{mode}_gradient'] = big.mean, big.gradient
    if o['fit']:
        iso = Ellipse(img, geom).fit_isophote(o['sma'], integrmode=o['integrmode'], nclip=o['nclip'])
        for a in _ISO_ATTRS:
            v = getattr(iso, a)
            out['fit_' + a] = np.nan if v is None else v
    return out, None


# ----------------------------------------------------------------------
# 17. small image-taking tools that have no adapter of their own (representation only)
# ----------------------------------------------------------------------
SPEC_TOOLS = _FreeSpec(sf_labels=K('frame', per_row=False), cutout_data=K('img', per_row=False, scale='data'),
                       local_background=K('free', per_row=False, scale='data'),
                       mask_get_values=K('free', per_row=False, scale='data'),
                       do_photometry_sum=K('free', per_row=False, scale='data'),
                       do_photometry_err=K('free', per_row=False, scale='data'),
                       depth=K('free', per_row=False, rtol=1e-6, atol=0.0),
                       cutout_bbox=K('bbox', per_row=False), cutout_slices=K('slices', per_row=False),
                       mask_cutout=K('img', per_row=False, scale='data'), mask_multiply=K('img', per_row=False, scale='data'),
                       epsf_data=K('free', per_row=False, rtol=1e-6, atol=1e-6),
                       fit2dg=K('free', per_row=False, rtol=1e-6, atol=1e-6),
                       fit2dg_flux=K('free', per_row=False, rtol=1e-6, aamp=1e-6),
                       fitfwhm=K('free', per_row=False, rtol=1e-6, atol=1e-6),
                       fitfwhm_nopos=K('free', per_row=False, rtol=1e-6, atol=1e-6),
                       fit2dg_nopos=K('free', per_row=False, rtol=1e-6, atol=1e-6),
                       imagepsf_eval=K('free', per_row=False, scale='data'))


def prep_tools(rng, scene):
    src = scene['src'].v
    return dict(pos=XY(src + rng.normal(0, 0.4, src.shape)), fit_shape=int(_opt(rng, 7, 9, 11)),
                lb=(float(rng.uniform(4, 6)), float(rng.uniform(8, 11))), cut_shape=Pair((int(rng.integers(5, 15)),
                                                                                           int(rng.integers(5, 15)))),
                cut_mode=_opt(rng, 'trim', 'partial'), r=float(rng.uniform(2.5, 5.0)),
                use_mask=_use(rng, 0.5), use_error=_use(rng, 0.5), thr=float(rng.uniform(2.0, 4.0)),
                epsf=_use(rng, 0.3), depth=_use(rng, 0.4), seed=int(rng.integers(0, 2 ** 31)),
                fwhm0=_opt(rng, None, float(np.round(rng.uniform(2.3, 5.7), 2))), fix_fwhm=_use(rng, 0.3),
                sf_kw=dict(connectivity=int(_opt(rng, 8, 4)), deblend=_use(rng, 0.7), nlevels=int(_opt(rng, 32, 12)),
                           contrast=float(_opt(rng, 0.001, 0.0137)), mode=_opt(rng, 'exponential', 'linear', 'sinh'),
                           relabel=_use(rng, 0.7)), sf_npix=int(rng.integers(3, 9)))


def run_tools(s, o):
    from astropy.convolution import convolve
    from astropy.nddata import NDData
    from astropy.table import Table
    from photutils.aperture import CircularAperture
    from photutils.background import LocalBackground, MedianBackground
    from photutils.morphology import gini
    from photutils.psf import EPSFBuilder, ImagePSF, extract_stars, fit_2dgaussian, fit_fwhm
    from photutils.segmentation import SourceFinder, make_2dgaussian_kernel
    from photutils.utils import CutoutImage, ImageDepth
    data, mask, err = s['data'], _mask(s, o), _err(s, o)
    pos = np.asarray(o['pos'])
    unit = o.get('unit')
    out = {}
    # morphology.gini on a cutout around the first source
    x0, y0 = (int(round(v)) for v in pos[0])
    sl = (slice(y0 - 6, y0 + 7), slice(x0 - 6, x0 + 7))
    out['gini'] = gini(data[sl], mask=None if mask is None else mask[sl])
    # LocalBackground at every source
    lb = LocalBackground(o['lb'][0], o['lb'][1], MedianBackground())
    # LocalBackground documents `data : 2D ndarray` only (a Quantity raises TypeError in np.array(bkg)): units stripped
    out['local_background'] = lb(data if unit is None else split_unit(data)[0], pos[:, 0], pos[:, 1], mask=mask)
    # fit_2dgaussian / fit_fwhm
    f2 = fit_2dgaussian(data, xypos=pos[:3], fit_shape=o['fit_shape'], fwhm=o['fwhm0'], fix_fwhm=o['fix_fwhm'],
                        mask=mask, error=err)
    r = f2.results
    out['fit2dg'] = np.column_stack([np.asarray(split_unit(r[c])[0], float) for c in ('x_fit', 'y_fit', 'fwhm_fit')
                                     if c in r.colnames])
    out['fit2dg_flux'] = r['flux_fit']
    out['fitfwhm'] = np.asarray(fit_fwhm(data, xypos=pos[:3], fit_shape=o['fit_shape'], fwhm=o['fwhm0'], mask=mask,
                                         error=err), float)
    # the xypos=None form (position from centroid_com of the cutout)
    cm = None if mask is None else mask[sl]
    ce = None if err is None else err[sl]
    out['fitfwhm_nopos'] = np.asarray(fit_fwhm(data[sl], mask=cm, error=ce), float)
    r0 = fit_2dgaussian(data[sl], fix_fwhm=False, mask=cm, error=ce).results
    out['fit2dg_nopos'] = np.array([float(split_unit(r0[c])[0][0]) for c in ('x_fit', 'y_fit', 'fwhm_fit')])
    # CutoutImage (a view / copy of the input around a position)
    c = CutoutImage(data, (float(pos[0, 1]), float(pos[0, 0])), tuple(o['cut_shape']), mode=o['cut_mode'])
    out['cutout_data'] = [np.asarray(split_unit(c.data)[0], float)]
    out['cutout_bbox'] = [c.bbox_original]
    out['cutout_slices'] = [c.slices_original]
    out['cutout_xyorigin'] = np.asarray(c.xyorigin)
    # ApertureMask methods and the aperture's own photometry
    ap = CircularAperture(pos[:3], o['r'])
    m0 = ap.to_mask('exact')[0]
    out['mask_cutout'] = [np.asarray(split_unit(m0.cutout(data))[0], float)]
    out['mask_multiply'] = [np.asarray(split_unit(m0.multiply(data))[0], float)]
    out['mask_get_values'] = m0.get_values(data, mask=mask)
    sums, errs = ap.do_photometry(data, error=err, mask=mask)
    out['do_photometry_sum'] = sums
    if err is not None:
        out['do_photometry_err'] = errs
    # SourceFinder on the image smoothed with make_2dgaussian_kernel (astropy convolve is trusted base)
    kern = make_2dgaussian_kernel(2.5, size=5)
    raw = split_unit(data)[0]
    conv = convolve(np.asarray(np.ma.getdata(raw), float), kern)
    thr = o['thr'] * s['sigma'] * 0.45 + s.get('offset', 0.0)
    if o.get('conv_variant') is not None:
        conv = o['conv_variant'](conv)
    seg = SourceFinder(npixels=o['sf_npix'], progress_bar=False, **o['sf_kw'])(
        conv if unit is None else conv * unit, _q(thr, o), mask=mask)
    out['sf_nlabels'] = 0 if seg is None else int(seg.nlabels)
    if seg is not None:
        out['sf_labels'] = np.array(seg.data)
    # ImagePSF built from an image cutout and evaluated off-grid
    psf_img = np.asarray(np.ma.getdata(split_unit(data)[0]))[y0 - 5:y0 + 6, x0 - 5:x0 + 6]
    model = ImagePSF(psf_img, x_0=5.3, y_0=4.6, flux=2.0)
    gy, gx = np.mgrid[0:11, 0:11]
    out['imagepsf_eval'] = np.asarray(model(gx + 0.0, gy + 0.0), float)
    if o['epsf'] and len(pos) >= 3:
        nd = NDData(np.asarray(np.ma.getdata(split_unit(data)[0])))
        stars = extract_stars(nd, Table({'x': pos[:, 0], 'y': pos[:, 1]}), size=11)
        if len(stars) >= 2:
            # one iteration, no clipping decisions: on blended / ragged scenes further iterations amplify a
            # last-digit difference of the layout variants (strided vs contiguous reductions) by many orders
            from astropy.stats import SigmaClip
            epsf, _ = EPSFBuilder(oversampling=2, maxiters=1, progress_bar=False,
                                  sigma_clip=SigmaClip(sigma=1e6, maxiters=1))(stars)
            out['epsf_data'] = np.asarray(epsf.data, float)
    if o['depth']:
        dm = mask if mask is not None else np.zeros(s['mask'].shape, bool)
        depth = ImageDepth(o['r'], nsigma=5.0, napers=60, niters=2, overlap=False, seed=o['seed'], zeropoint=25.0,
                           progress_bar=False)
        lim = _guard(lambda: depth(data, dm | (s['segm'] > 0)), 'depth')
        out['depth'] = lim if isinstance(lim, Raised) else np.asarray([split_unit(v)[0] for v in lim], float)
    return out, None


# ----------------------------------------------------------------------
# the table
# ----------------------------------------------------------------------
TR, TP, RP = 'translate', 'transpose', 'repr'

TABLE = [
    EP('aperture_photometry', prep_apphot, run_apphot, SPEC_APPHOT, {TR, TP, RP},
       must_reach=['photutils.aperture.photometry:aperture_photometry'], arrays=('data', 'error'), nddata='stddev',
       mech_fn=mech_apphot),
    EP('ApertureStats', prep_apstats, run_apstats, SPEC_APSTATS, {TR, TP, RP},
       must_reach=['photutils.aperture.stats:ApertureStats.centroid'], arrays=('data', 'error'), nddata='stddev',
       mech_fn=mech_apstats),
    EP('find_peaks', prep_peaks, run_peaks, SPEC_PEAKS, {TR, RP},
       must_reach=['photutils.detection.peakfinder:find_peaks'], arrays=('data', 'conv'), discrete=True),
    EP('DAOStarFinder', prep_dao, run_dao, SPEC_STARS, {TR, RP},
       must_reach=['photutils.detection.daofinder:DAOStarFinder.find_stars'], flavour='stars', discrete=True),
    EP('IRAFStarFinder', prep_iraf, run_iraf, SPEC_STARS, {TR, RP},
       must_reach=['photutils.detection.irafstarfinder:IRAFStarFinder.find_stars'], flavour='stars', discrete=True),
    EP('StarFinder', prep_starfinder, run_starfinder, SPEC_STARS, {TR, RP},
       must_reach=['photutils.detection.starfinder:StarFinder.find_stars'], flavour='stars', discrete=True),
    EP('detect_sources', prep_detect, run_detect, SPEC_SEGM, {TR, RP},
       must_reach=['photutils.segmentation.detect:detect_sources'], arrays=('data', 'conv'), discrete=True),
    EP('deblend_sources', prep_deblend, run_deblend, SPEC_SEGM, {TR, RP},
       must_reach=['photutils.segmentation.deblend:deblend_sources'], arrays=('data', 'conv'), discrete=True),
    EP('SourceCatalog', prep_catalog, run_catalog, SPEC_CAT, {TR, TP, RP},
       must_reach=['photutils.segmentation.catalog:SourceCatalog.centroid',
                   'photutils.segmentation.catalog:SourceCatalog.background_centroid',
                   'photutils.segmentation.catalog:SourceCatalog.kron_flux'],
       arrays=('data', 'error', 'bkg', 'conv', 'data2')),
    EP('data_properties', prep_dataprops, run_dataprops, SPEC_CAT, {TP, RP},
       must_reach=['photutils.morphology.core:data_properties'], arrays=('data', 'bkg'), flavour='single'),
    EP('profiles', prep_profile, run_profile, SPEC_PROFILE, {TR, TP, RP},
       must_reach=['photutils.profiles.core:ProfileBase._photometry',
                   'photutils.profiles.radial_profile:RadialProfile.profile',
                   'photutils.profiles.curve_of_growth:CurveOfGrowth.profile'], arrays=('data', 'error'),
       mech_fn=mech_profile),
    EP('make_model_image', prep_model, run_model, SPEC_MODEL, {TR, RP},
       must_reach=['photutils.datasets.images:make_model_image'], arrays=(), mech_fn=mech_model),
    EP('centroids', prep_centroid, run_centroid, SPEC_CENTROID, {TR, TP, RP},
       must_reach=['photutils.centroids.core:centroid_com', 'photutils.centroids.core:centroid_quadratic',
                   'photutils.centroids.core:centroid_sources', 'photutils.centroids.gaussian:centroid_2dg'],
       arrays=('data', 'error'), quantity=True),
    EP('PSFPhotometry', prep_psf, run_psf, SPEC_PSF, {TR, RP},
       must_reach=['photutils.psf.photometry:PSFPhotometry.__call__'], arrays=('data', 'error'), nddata=True,
       flavour='stars'),
    EP('Background2D', prep_bkg, run_bkg, SPEC_BKG, {RP},
       must_reach=['photutils.background.background_2d:Background2D.__init__'], arrays=('bdata',), nddata='data'),
    EP('detect_threshold', prep_thresh, run_thresh, SPEC_THRESH, {RP},
       must_reach=['photutils.segmentation.detect:detect_threshold'], arrays=('bdata', 'bkg', 'error')),
    EP('statistics', prep_stats, run_stats, SPEC_STATS, {RP},
       must_reach=['photutils.background.core:StdBackgroundRMS.calc_background_rms',
                   'photutils.background.core:MeanBackground.calc_background',
                   'photutils.background.core:ModeEstimatorBackground.calc_background',
                   'photutils.background.core:BiweightScaleBackgroundRMS.calc_background_rms'],
       arrays=('pdata',), nddata=False, flavour='pedestal'),
    EP('isophote', prep_iso, run_iso, SPEC_ISO, {RP},
       must_reach=['photutils.isophote.sample:EllipseSample.extract', 'photutils.isophote.sample:EllipseSample.update',
                   'photutils.isophote.ellipse:Ellipse.fit_isophote',
                   'photutils.isophote.integrator:_AreaIntegrator.integrate'],
       arrays=('gdata',), nddata=False, quantity=False, flavour='galaxy'),
    EP('image_tools', prep_tools, run_tools, SPEC_TOOLS, {RP},
       must_reach=['photutils.morphology.non_parametric:gini', 'photutils.psf.utils:fit_2dgaussian',
                   'photutils.utils.cutouts:CutoutImage.__init__', 'photutils.segmentation.finder:SourceFinder.__call__',
                   'photutils.background.local_background:LocalBackground.__call__'],
       arrays=('data', 'error'), nddata=False, quantity=True),
    EP('calc_total_error', prep_toterr, run_toterr, SPEC_TOTERR, {RP},
       must_reach=['photutils.utils.errors:calc_total_error'], arrays=('bdata', 'error')),
]
BY_NAME = {e.name: e for e in TABLE}


def run_quiet(ep, s, o):
    with warnings.catch_warnings():
        warnings.simplefilter('ignore')
        with np.errstate(all='ignore'):
            return ep.run(s, o)
