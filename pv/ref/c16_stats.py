"""Reference model for ApertureStats (C16): direct statistics of the pixel set.

Inputs are full-frame arrays built by pv.ref.c02_apphot.weight_map from the
aperture's own masks; nothing here imports photutils.
"""
from __future__ import annotations

import math

import numpy as np

MAD_TO_STD = 1.482602218505602      # 1 / Phi^-1(3/4)


# ----------------------------------------------------------------------
# sigma clipping (documented astropy semantics, iterative, 1-D)
# ----------------------------------------------------------------------
def _cen(v, name):
    return float(np.median(v)) if name == 'median' else float(np.mean(v))


def _std(v, name):
    if name == 'mad_std':
        return MAD_TO_STD * float(np.median(np.abs(v - np.median(v))))
    return float(np.std(v))


def sigma_clip_ref(v, sigma_lower=3.0, sigma_upper=3.0, maxiters=5, cenfunc='median', stdfunc='std'):
    """Return (keep, margin): boolean keep-flags for the 1-D finite vector v and
    the smallest distance (relative to the data scale) of any value from a
    clipping bound at any iteration (a tiny margin = a tie that rounding decides)."""
    v = np.asarray(v, dtype=float)
    n = v.size
    if n == 0:
        return np.zeros(0, bool), float('inf')
    cur = v.copy()
    it = 0
    lim = float('inf') if maxiters is None else maxiters
    scale = max(float(np.max(np.abs(v))), 1e-300)
    margin = float('inf')
    lo, hi = -float('inf'), float('inf')
    changed = 1
    while changed != 0 and it < lim:
        it += 1
        if cur.size == 0:
            # astropy: bounds of an empty set are NaN -> nothing is clipped in the end
            lo, hi = float('nan'), float('nan')
            break
        c, s = _cen(cur, cenfunc), _std(cur, stdfunc)
        lo, hi = c - s * sigma_lower, c + s * sigma_upper
        if not (s == 0.0 and np.all(cur == c) and cenfunc == 'median'):
            # (a set of identical values with zero spread is kept by any implementation whose centre is exact: the
            # median. The MEAN of n identical floats need not be that float - astropy's nanmean gave
            # -1.3024964703591597 for sixteen copies of -1.3024964703591602 and clipped all of them, thorough seed 4 -
            # so with cenfunc='mean' such a set is a tie that rounding decides)
            d = np.minimum(np.abs(cur - lo), np.abs(cur - hi))
            margin = min(margin, float(d.min()) / scale)
        new = cur[(cur >= lo) & (cur <= hi)]
        changed = cur.size - new.size
        cur = new
    if math.isnan(lo):
        return np.ones(n, bool), margin
    keep = (v >= lo) & (v <= hi)
    if lo != hi:
        d = np.minimum(np.abs(v - lo), np.abs(v - hi))
        margin = min(margin, float(d.min()) / scale)
    else:
        off = np.abs(v - lo)[v != lo]
        if off.size:
            margin = min(margin, float(off.min()) / scale)
    return keep, margin


# ----------------------------------------------------------------------
# 1-D statistics
# ----------------------------------------------------------------------
STAT_NAMES = ['min', 'max', 'mean', 'median', 'mode', 'std', 'var', 'mad_std', 'biweight_location',
              'biweight_midvariance']


def stats_ref(v):
    from astropy.stats import biweight_location, biweight_midvariance
    v = np.asarray(v, dtype=float)
    if v.size == 0:
        return {k: float('nan') for k in STAT_NAMES}
    med, mean = float(np.median(v)), float(np.mean(v))
    with np.errstate(all='ignore'):
        return {
            'min': float(np.min(v)), 'max': float(np.max(v)), 'mean': mean, 'median': med,
            'mode': 3.0 * med - 2.0 * mean,
            'std': float(np.std(v)), 'var': float(np.var(v)),
            'mad_std': MAD_TO_STD * float(np.median(np.abs(v - med))),
            'biweight_location': float(biweight_location(v)),
            'biweight_midvariance': float(biweight_midvariance(v)),
        }


def gini_ref(v):
    """Lotz et al. 2004 as written in the docstring. The docstring does not say
    whether the values are ordered before or after taking |x|; both orderings are
    returned (they coincide for non-negative data) and either is accepted."""
    v = np.asarray(v, dtype=float)
    n = v.size
    if n == 0:
        return float('nan'), float('nan')
    i = np.arange(1, n + 1)
    with np.errstate(all='ignore'):
        norm = abs(np.mean(v)) * n * (n - 1)
        a = float(np.sum((2 * i - n - 1) * np.abs(np.sort(v))) / norm)
        b = float(np.sum((2 * i - n - 1) * np.sort(np.abs(v))) / norm)
    return a, b


# ----------------------------------------------------------------------
# moments
# ----------------------------------------------------------------------
def moments_ref(xs, ys, v):
    """Centroid and covariance of the weighted point set, image coordinates.
    Returns dict(m00, cond, cx, cy, cov (2x2: xx, xy, yy), mu (central sums)) ."""
    xs = np.asarray(xs, float)
    ys = np.asarray(ys, float)
    v = np.asarray(v, float)
    if v.size == 0:
        nan = float('nan')
        return dict(m00=nan, cond=nan, cx=nan, cy=nan, cov=np.full((2, 2), nan), abs=nan)
    m00 = math.fsum(v.tolist())
    sabs = math.fsum(np.abs(v).tolist())
    if m00 == 0.0:
        nan = float('nan')
        return dict(m00=0.0, cond=float('inf'), cx=nan, cy=nan, cov=np.full((2, 2), nan), abs=sabs)
    cx = math.fsum((xs * v).tolist()) / m00
    cy = math.fsum((ys * v).tolist()) / m00
    dx, dy = xs - cx, ys - cy
    cxx = math.fsum((dx * dx * v).tolist()) / m00
    cyy = math.fsum((dy * dy * v).tolist()) / m00
    cxy = math.fsum((dx * dy * v).tolist()) / m00
    return dict(m00=m00, cond=sabs / abs(m00), cx=cx, cy=cy, cov=np.array([[cxx, cxy], [cxy, cyy]]), abs=sabs)


def raw_moments_ref(xs, ys, v, order=3):
    """M[p, q] = sum y^p x^q v  (p = row = y power, q = column = x power)."""
    M = np.zeros((order + 1, order + 1))
    A = np.zeros((order + 1, order + 1))
    xs = np.asarray(xs, float)
    ys = np.asarray(ys, float)
    v = np.asarray(v, float)
    for p in range(order + 1):
        for q in range(order + 1):
            t = (ys ** p) * (xs ** q) * v
            M[p, q] = math.fsum(t.tolist()) if t.size else 0.0
            A[p, q] = math.fsum(np.abs(t).tolist()) if t.size else 0.0
    return M, A


def shape_from_cov(cov):
    """Shape parameters of the Gaussian with covariance `cov` ([[xx, xy], [xy, yy]]).
    None if the matrix is not positive definite / not finite."""
    cov = np.asarray(cov, dtype=float)
    if not np.all(np.isfinite(cov)):
        return None
    w, vec = np.linalg.eigh(cov)          # ascending
    l2, l1 = float(w[0]), float(w[1])
    if l2 <= 0 or l1 <= 0:
        return None
    major = vec[:, 1]
    ang = math.degrees(math.atan2(major[1], major[0]))
    inv = np.linalg.inv(cov)
    return dict(semimajor_sigma=math.sqrt(l1), semiminor_sigma=math.sqrt(l2),
                fwhm=2.0 * math.sqrt(math.log(2.0) * (l1 + l2)),
                eccentricity=math.sqrt(max(0.0, 1.0 - l2 / l1)),
                elongation=math.sqrt(l1 / l2), ellipticity=1.0 - math.sqrt(l2 / l1),
                orientation=ang, aniso=(l1 - l2) / l1,
                cxx=float(inv[0, 0]), cyy=float(inv[1, 1]), cxy=2.0 * float(inv[0, 1]),
                eig=(l1, l2))


def angle_diff_mod180(a, b):
    d = (a - b + 90.0) % 180.0 - 90.0
    return abs(d)


# ----------------------------------------------------------------------
def selftest():
    from astropy.stats import SigmaClip, mad_std
    rng = np.random.default_rng(11)
    # own sigma-clip loop == astropy on 1-D vectors
    for _ in range(300):
        n = int(rng.integers(1, 60))
        v = rng.normal(0, 1, n)
        k = int(rng.integers(0, 4))
        if k and n > 3:
            v[rng.integers(0, n, k)] += rng.choice([-1, 1], k) * rng.uniform(3, 30, k)
        sl, su = float(rng.choice([1.0, 1.5, 2.0, 3.0])), float(rng.choice([1.0, 2.0, 3.0]))
        mi = [1, 2, 5, None][int(rng.integers(0, 4))]
        cf, sf = str(rng.choice(['median', 'mean'])), str(rng.choice(['std', 'mad_std']))
        keep, margin = sigma_clip_ref(v, sl, su, mi, cf, sf)
        out = SigmaClip(sigma_lower=sl, sigma_upper=su, maxiters=mi, cenfunc=cf, stdfunc=sf)(v, masked=True)
        am = np.ma.getmaskarray(out)
        if margin > 1e-9:
            assert np.array_equal(keep, ~am), (v, keep, am)
    assert abs(MAD_TO_STD * np.median(np.abs(np.array([1., 2, 4, 8]) - 3.0)) - mad_std([1., 2, 4, 8])) < 1e-14
    # hand cases for the moments
    m = moments_ref([0, 2], [5, 5], [1.0, 3.0])
    assert m['cx'] == 1.5 and m['cy'] == 5.0 and abs(m['cov'][0, 0] - 0.75) < 1e-15 and m['cov'][1, 1] == 0
    m = moments_ref([0, 1, 0, 1], [0, 0, 1, 1], [1, 1, 1, 1])
    assert m['cx'] == 0.5 and m['cy'] == 0.5 and m['cov'][0, 1] == 0 and m['cov'][0, 0] == 0.25
    M, _ = raw_moments_ref([1, 2], [3, 0], [2.0, 5.0])
    assert M[0, 0] == 7 and M[0, 1] == 12 and M[1, 0] == 6 and M[1, 1] == 6 and M[2, 0] == 18
    # shape: ellipse with a=3, b=1 at 30 deg
    th = math.radians(30)
    Rm = np.array([[math.cos(th), -math.sin(th)], [math.sin(th), math.cos(th)]])
    cov = Rm @ np.diag([9.0, 1.0]) @ Rm.T
    s = shape_from_cov(cov)
    assert abs(s['semimajor_sigma'] - 3) < 1e-12 and abs(s['semiminor_sigma'] - 1) < 1e-12
    assert angle_diff_mod180(s['orientation'], 30.0) < 1e-10
    assert abs(s['eccentricity'] - math.sqrt(8 / 9)) < 1e-12 and abs(s['elongation'] - 3) < 1e-12
    # generalized ellipse: a point on the 1-sigma contour satisfies cxx x^2 + cxy x y + cyy y^2 = 1
    p = Rm @ np.array([3.0, 0.0])
    assert abs(s['cxx'] * p[0] ** 2 + s['cxy'] * p[0] * p[1] + s['cyy'] * p[1] ** 2 - 1) < 1e-12
    p = Rm @ np.array([0.0, 1.0])
    assert abs(s['cxx'] * p[0] ** 2 + s['cxy'] * p[0] * p[1] + s['cyy'] * p[1] ** 2 - 1) < 1e-12
    assert shape_from_cov(np.array([[1.0, 0], [0, -1.0]])) is None
    assert abs(gini_ref([1., 1, 1, 1])[0]) < 1e-15
    assert abs(gini_ref([0., 0, 0, 4])[1] - 1.0) < 1e-15
    st = stats_ref([1.0, 2.0, 6.0])
    assert st['mean'] == 3 and st['median'] == 2 and st['mode'] == 0 and st['min'] == 1 and st['max'] == 6
    assert abs(st['var'] - 14 / 3) < 1e-14 and abs(st['mad_std'] - MAD_TO_STD) < 1e-15
    assert math.isnan(stats_ref([])['mean'])
