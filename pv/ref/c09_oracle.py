"""C09 helpers: structural comparison of arbitrary photutils return values and
the live-vs-fresh request evaluation used by every history family.

Nothing here imports the code under judgement except for isinstance checks on
the *types of returned values* (BoundingBox, ApertureMask, Aperture) which are
needed to take them apart; the oracle itself is always "the same request on a
freshly constructed object".
"""
from __future__ import annotations

import re

import numpy as np

from pv import core

_ADDR = re.compile(r' at 0x[0-9a-fA-F]+')
_META_SKIP = ('date', 'version')


class HarnessError(Exception):
    """A request failed without any photutils frame in its traceback."""


# ----------------------------------------------------------------------
# canonical form of returned values
# ----------------------------------------------------------------------
def canon(x, depth=0):
    """Turn a returned value into nested dict/list/ndarray/Quantity/str."""
    import astropy.units as u
    from astropy.modeling import Model
    from astropy.table import Column, Row, Table

    if depth > 8:
        return repr(type(x))
    if x is None or isinstance(x, (bool, int, float, complex, str, bytes)):
        return x
    if isinstance(x, np.generic):
        return x
    if isinstance(x, u.Quantity):
        return x
    if isinstance(x, Table):
        out = {'__colnames__': list(x.colnames), '__len__': len(x)}
        for c in x.colnames:
            out['col:' + c] = canon(x[c], depth + 1)
        meta = {k: v for k, v in dict(x.meta).items() if k not in _META_SKIP}
        out['__meta__'] = canon(meta, depth + 1)
        return out
    if isinstance(x, Row):
        return {c: canon(x[c], depth + 1) for c in x.colnames}
    if isinstance(x, Column):
        if hasattr(x, 'mask'):
            return np.ma.MaskedArray(np.asarray(x.data), mask=np.asarray(x.mask))
        a = np.asarray(x)
        if a.dtype == object:
            return [canon(v, depth + 1) for v in a.tolist()]
        if x.unit is not None:
            return {'unit': str(x.unit), 'values': a}
        return a
    if isinstance(x, np.ndarray):
        if x.dtype == object:
            return [canon(v, depth + 1) for v in x.tolist()]
        return x
    if isinstance(x, Model):
        out = {'__model__': type(x).__name__,
               'param_names': list(x.param_names),
               'parameters': np.array(x.parameters, dtype=float),
               'fixed': [bool(x.fixed[n]) for n in x.param_names],
               'bounds': [tuple(x.bounds[n]) for n in x.param_names]}
        return out
    tname = type(x).__name__
    mod = type(x).__module__ or ''
    if tname == 'SkyCoord':
        sph = x.spherical
        return {'__skycoord__': x.frame.name, 'lon_deg': np.asarray(sph.lon.deg), 'lat_deg': np.asarray(sph.lat.deg)}
    if mod.startswith('photutils'):
        if tname == 'BoundingBox':
            return {'__bbox__': [x.ixmin, x.ixmax, x.iymin, x.iymax]}
        if tname == 'ApertureMask':
            return {'__mask__': np.asarray(x.data), 'bbox': canon(x.bbox, depth + 1)}
        if hasattr(x, '_params') and hasattr(x, 'positions'):
            out = {'__aperture__': tname}
            for p in x._params:
                out[p] = canon(getattr(x, p), depth + 1)
            return out
    if isinstance(x, dict):
        return {str(k): canon(v, depth + 1) for k, v in x.items()}
    if isinstance(x, (list, tuple)):
        return [canon(v, depth + 1) for v in x]
    if isinstance(x, (set, frozenset)):
        return sorted(canon(v, depth + 1) for v in x)
    if isinstance(x, slice):
        return {'__slice__': [x.start, x.stop, x.step]}
    return _ADDR.sub('', repr(x))[:400]


def deep_same(a, b, rtol=0.0, atol=0.0, path=''):
    """(ok, worst_dev, why) for two canonical structures."""
    if isinstance(a, dict) or isinstance(b, dict):
        if not (isinstance(a, dict) and isinstance(b, dict)):
            return False, float('inf'), f'{path}: {type(a).__name__} vs {type(b).__name__}'
        if list(a.keys()) != list(b.keys()):
            return False, float('inf'), f'{path}: keys {list(a.keys())[:12]} vs {list(b.keys())[:12]}'
        worst = 0.0
        for k in a:
            ok, d, why = deep_same(a[k], b[k], rtol, atol, f'{path}/{k}')
            worst = max(worst, d)
            if not ok:
                return False, d, why
        return True, worst, ''
    if isinstance(a, list) or isinstance(b, list):
        if not (isinstance(a, list) and isinstance(b, list)):
            # allow list vs ndarray of plain numbers
            try:
                ok, d, why = core.same(np.asarray(a), np.asarray(b), rtol, atol)
                return ok, d, f'{path}: {why}' if not ok else ''
            except Exception:  # noqa: BLE001
                return False, float('inf'), f'{path}: list vs {type(b).__name__}'
        if len(a) != len(b):
            return False, float('inf'), f'{path}: len {len(a)} vs {len(b)}'
        worst = 0.0
        for i, (x, y) in enumerate(zip(a, b)):
            ok, d, why = deep_same(x, y, rtol, atol, f'{path}[{i}]')
            worst = max(worst, d)
            if not ok:
                return False, d, why
        return True, worst, ''
    if isinstance(a, (str, bytes)) or isinstance(b, (str, bytes)):
        ok = (type(a) is type(b)) and a == b
        if ok:
            return True, 0.0, ''
        if isinstance(a, str) and isinstance(b, str):
            i = next((k for k, (x, y) in enumerate(zip(a, b)) if x != y), min(len(a), len(b)))
            lo = max(0, i - 30)
            return False, float('inf'), f'{path}: str differs at {i}: ...{a[lo:i + 50]!r} vs ...{b[lo:i + 50]!r}'
        return False, float('inf'), f'{path}: {a!r:.120} vs {b!r:.120}'
    if a is None or b is None:
        ok = a is None and b is None
        return ok, 0.0 if ok else float('inf'), '' if ok else f'{path}: None vs value'
    if isinstance(a, (bool, np.bool_)) != isinstance(b, (bool, np.bool_)):
        return False, float('inf'), f'{path}: bool vs non-bool'
    try:
        ok, d, why = core.same(a, b, rtol=rtol, atol=atol)
    except Exception as exc:  # noqa: BLE001
        return False, float('inf'), f'{path}: incomparable ({type(exc).__name__}: {exc})'
    if ok:
        # dtype kind must agree as well (int result vs float result is a difference)
        ka = getattr(np.asarray(getattr(a, 'value', a)), 'dtype', None)
        kb = getattr(np.asarray(getattr(b, 'value', b)), 'dtype', None)
        if ka is not None and kb is not None and ka.kind != kb.kind:
            return False, float('inf'), f'{path}: dtype {ka} vs {kb}'
    return ok, d, (f'{path}: {why}' if not ok else '')


# ----------------------------------------------------------------------
# request evaluation
# ----------------------------------------------------------------------
class Out:
    """Outcome of one request: a value or an exception."""
    __slots__ = ('ok', 'value', 'exc', 'etype', 'at', 'msg')

    def __init__(self, ok, value=None, exc=None):
        self.ok = ok
        self.value = value
        self.exc = exc
        self.etype = None if exc is None else type(exc).__name__
        self.at = None if exc is None else core.exc_location(exc)
        self.msg = None if exc is None else str(exc)[:200]


def request(fn, expected=()):
    """Run one request; exceptions become values.

    An exception without a photutils frame in its traceback and not listed in
    `expected` is a harness error and is re-raised (never compared).
    """
    try:
        return Out(True, value=fn())
    except core.Skip:
        raise
    except Exception as exc:  # noqa: BLE001
        out = Out(False, exc=exc)
        if out.at is None and not isinstance(exc, tuple(expected)):
            raise HarnessError(f'{type(exc).__name__}: {exc}') from exc
        return out


def compare(case, live, fresh, what, mech, rtol=0.0, atol=0.0, devname=None):
    """Compare the outcome of one request on the live object with the same
    request on a fresh object.  Returns True if they agree."""
    mech = dict(mech)
    if live.ok and fresh.ok:
        a, b = canon(live.value), canon(fresh.value)
        ok, d, why = deep_same(a, b, rtol, atol)
        if ok:
            case.dev(devname or what, d)      # deviations of *accepted* comparisons (tolerance audit)
            return case.check(True, what, mech)
        return case.check(False, what, mech, why=why[:400], dev=d)
    if (not live.ok) and (not fresh.ok):
        case.note('both_raise')
        same_type = live.etype == fresh.etype
        m = dict(mech, exc=live.etype, at=live.at)
        return case.check(same_type, what + ':exc_type', m,
                          live=live.etype, fresh=fresh.etype, live_msg=live.msg, fresh_msg=fresh.msg)
    if not live.ok:
        m = dict(mech, exc=live.etype, at=live.at)
        return case.check(False, what + ':raised_unlike_fresh', m, msg=live.msg)
    m = dict(mech, exc=fresh.etype, at=fresh.at)
    return case.check(False, what + ':fresh_raised_live_ok', m, msg=fresh.msg)


def repr_fields(text):
    """'Cls(a=1, b=<X(c=2, d=3)>, e=[1, 2])' -> {'__cls__': 'Cls', 'a': '1', 'b': '<X(c=2, d=3)>', 'e': '[1, 2]'}.
    Falls back to {'__repr__': text} when the text does not have that shape."""
    text = _ADDR.sub('', text)
    i = text.find('(')
    if i <= 0 or not text.endswith(')'):
        return {'__repr__': text}
    body = text[i + 1:-1]
    parts, depth, cur = [], 0, ''
    for ch in body:
        if ch in '([<{':
            depth += 1
        elif ch in ')]>}':
            depth -= 1
        if ch == ',' and depth == 0:
            parts.append(cur)
            cur = ''
        else:
            cur += ch
    if cur.strip():
        parts.append(cur)
    out = {'__cls__': text[:i]}
    for p in parts:
        if '=' not in p:
            return {'__repr__': text}
        k, v = p.split('=', 1)
        out[k.strip()] = v.strip()
    return out


def selftest():
    assert repr_fields('Cls(a=1, b=<X(c=2, d=3)>, e=[1, 2])') == {
        '__cls__': 'Cls', 'a': '1', 'b': '<X(c=2, d=3)>', 'e': '[1, 2]'}
    assert repr_fields('<obj at 0x7f00>') == {'__repr__': '<obj>'}
    """The comparer against facts that do not depend on photutils."""
    import astropy.units as u
    from astropy.table import QTable
    a = {'x': np.arange(3.0), 'y': [1, 'a', None]}
    b = {'x': np.arange(3.0), 'y': [1, 'a', None]}
    assert deep_same(canon(a), canon(b))[0]
    b['x'] = b['x'] + np.array([0, 0, 1e-15])
    assert not deep_same(canon(a), canon(b))[0]
    assert deep_same(canon(a), canon(b), rtol=1e-12)[0]
    assert not deep_same(canon(np.arange(3) * u.m), canon(np.arange(3) * u.s))[0]
    assert not deep_same(canon(np.arange(3.0)), canon(np.arange(3.0) * u.s))[0]
    assert not deep_same(canon(np.array([1, 2])), canon(np.array([1.0, 2.0])))[0]      # dtype kind
    assert deep_same(canon(np.array([np.nan, 1.0])), canon(np.array([np.nan, 1.0])))[0]
    t1 = QTable({'a': [1, 2], 'f': [1.0, 2.0] * u.Jy})
    t2 = QTable({'a': [1, 2], 'f': [1.0, 2.0] * u.Jy})
    t1.meta['date'] = 'x'
    t2.meta['date'] = 'y'
    assert deep_same(canon(t1), canon(t2))[0]
    t2['f'][1] = 2.0000001 * u.Jy
    assert not deep_same(canon(t1), canon(t2))[0]
    t3 = QTable({'f': [1.0, 2.0] * u.Jy, 'a': [1, 2]})
    assert not deep_same(canon(t1), canon(t3))[0]                                       # column order
    # request(): exceptions are values; harness errors are not
    o = request(lambda: 1 + 1)
    assert o.ok and o.value == 2
    try:
        request(lambda: {}['k'])
        raise AssertionError('harness error swallowed')
    except HarnessError:
        pass
    o = request(lambda: {}['k'], expected=(KeyError,))
    assert not o.ok and o.etype == 'KeyError'
