"""C06 refinement oracle (pure numpy, never imports photutils).

`refine_report(S, O, ...)` judges whether the label array O is a *refinement*
of the label array S in the sense of property C06 and whether the reported
parent->children maps describe the pixels. It returns a list of
(what, ok, detail) tuples; the check module turns each into case.check().
"""
from __future__ import annotations

import numpy as np


def pair_table(S, O):
    """Distinct (input label, output label) pairs over all pixels, with counts."""
    S = np.asarray(S)
    O = np.asarray(O)
    sel = (S != 0) | (O != 0)
    # python ints: immune to dtype wrap-around in the *oracle*
    pairs = {}
    sl = S[sel].tolist()
    ol = O[sel].tolist()
    for a, b in zip(sl, ol):
        if a == 0 and b == 0:
            continue
        pairs[(a, b)] = pairs.get((a, b), 0) + 1
    return pairs


def refine_report(S, O, requested, npixels, relabel, contrast_is_one=False,
                  inv_map=None, dl=None, dl_map=None, out_labels=None):
    """
    S, O        input / output label arrays
    requested   iterable of input labels that may be deblended (None = all)
    inv_map     {parent: array of children}   (deblended_labels_inverse_map)
    dl          deblended_labels (1-D array)
    dl_map      {child: parent}               (deblended_labels_map)
    out_labels  `.labels` of the output object
    """
    S = np.asarray(S)
    O = np.asarray(O)
    rep = []

    def add(what, ok, **detail):
        rep.append((what, bool(ok), detail))

    add('shape_unchanged', S.shape == O.shape, s=S.shape, o=O.shape)
    if S.shape != O.shape:
        return rep, {}
    nz_s, nz_o = S != 0, O != 0
    nbad = int(np.count_nonzero(nz_s != nz_o))
    add('nonzero_set_unchanged', nbad == 0, pixels_differing=nbad,
        lost=int(np.count_nonzero(nz_s & ~nz_o)), gained=int(np.count_nonzero(~nz_s & nz_o)))

    pairs = pair_table(S, O)
    parent_of = {}      # output label -> set of input labels it touches
    kids = {}           # input label -> {output label: npix}
    for (a, b), n in pairs.items():
        if a == 0 or b == 0:
            continue        # already reported by nonzero_set_unchanged
        parent_of.setdefault(b, set()).add(a)
        kids.setdefault(a, {})[b] = n
    straddle = {b: sorted(p) for b, p in parent_of.items() if len(p) > 1}
    add('child_within_one_parent', not straddle, straddling=dict(list(straddle.items())[:5]))
    neg = [b for b in parent_of if b < 0]
    add('labels_positive', not neg, negative=neg[:5])

    in_labels = sorted(kids)
    split = {a: sorted(c) for a, c in kids.items() if len(c) >= 2}
    req = None if requested is None else set(int(v) for v in requested)
    if req is not None:
        stray = [a for a in split if a not in req]
        add('unrequested_label_untouched', not stray, split_but_not_requested=stray[:5])
    small = {a: {b: n for b, n in kids[a].items() if n < npixels} for a in split}
    small = {a: v for a, v in small.items() if v}
    add('child_min_npixels', not small, npixels=npixels, too_small=dict(list(small.items())[:5]))
    if contrast_is_one:
        add('contrast1_no_split', not split, split=dict(list(split.items())[:5]))
        add('contrast1_returns_input', np.array_equal(S, O) and S.dtype == O.dtype)
    if not relabel:
        moved = {a: list(c)[0] for a, c in kids.items() if len(c) == 1 and list(c)[0] != a}
        add('untouched_label_kept', not moved, relabelled=dict(list(moved.items())[:5]))
    olabs = sorted(parent_of)
    if relabel and not contrast_is_one:
        add('labels_1_to_N', olabs == list(range(1, len(olabs) + 1)),
            n=len(olabs), first=olabs[:5], last=olabs[-5:])
    if out_labels is not None:
        ol = [int(v) for v in np.asarray(out_labels).tolist()]
        present = sorted(set(int(v) for v in np.unique(O).tolist()) - {0})
        add('labels_attr_matches_data', ol == present, attr=ol[:8], data=present[:8])

    if inv_map is not None:
        m = {}
        bad_types = []
        for k, v in inv_map.items():
            va = np.asarray(v)
            if va.dtype.kind not in 'iu' or not isinstance(k, (int, np.integer)):
                bad_types.append((repr(k), str(va.dtype)))
            m[int(k)] = sorted(int(x) for x in va.tolist())
        add('map_types_integer', not bad_types, bad=bad_types[:5])
        add('map_keys_are_split_parents', sorted(m) == sorted(split),
            map_keys=sorted(m)[:10], split_parents=sorted(split)[:10])
        wrong = {a: (m[a], split.get(a)) for a in m if m[a] != split.get(a)}
        add('map_children_match_pixels', not wrong, wrong=dict(list(wrong.items())[:5]))
        if dl is not None:
            exp = sorted(b for c in split.values() for b in c)
            got = [int(v) for v in np.asarray(dl).tolist()]
            add('deblended_labels_match_pixels', got == exp, got=got[:10], exp=exp[:10])
        if dl_map is not None:
            exp = {b: a for a, c in split.items() for b in c}
            got = {int(k): int(v) for k, v in dl_map.items()}
            add('deblended_labels_map_matches_pixels', got == exp,
                got=dict(list(got.items())[:8]), exp=dict(list(exp.items())[:8]))
    facts = {'n_in': len(in_labels), 'n_out': len(olabs), 'n_split': len(split),
             'n_children': sum(len(c) for c in split.values()),
             'split': split}
    return rep, facts


def verdicts(rep):
    return {w: ok for w, ok, _ in rep}


def selftest():
    """The oracle against hand-made label arrays with known defects."""
    S = np.zeros((6, 8), int)
    S[1:5, 1:4] = 1      # 12 px
    S[0:2, 5:8] = 2      # 6 px
    S[4:6, 5:8] = 7      # 6 px
    # a correct refinement, relabel=False: 1 -> {8, 9}
    O = S.copy()
    O[1:3, 1:4] = 8
    O[3:5, 1:4] = 9
    rep, f = refine_report(S, O, None, 3, False, inv_map={1: np.array([8, 9])},
                           dl=np.array([8, 9]), dl_map={8: 1, 9: 1}, out_labels=[2, 7, 8, 9])
    bad = [w for w, ok, _ in rep if not ok]
    assert not bad, bad
    assert f['n_split'] == 1 and f['split'] == {1: [8, 9]}
    # the same with relabel=True numbering
    O2 = np.zeros_like(S)
    O2[S == 2] = 1
    O2[S == 7] = 2
    O2[1:3, 1:4] = 3
    O2[3:5, 1:4] = 4
    rep, _ = refine_report(S, O2, None, 3, True, inv_map={1: np.array([3, 4])},
                           dl=np.array([3, 4]), dl_map={3: 1, 4: 1}, out_labels=[1, 2, 3, 4])
    assert all(ok for _, ok, _ in rep), [w for w, ok, _ in rep if not ok]

    def fails(rep, what):
        v = verdicts(rep)
        assert v[what] is False, (what, v)

    # pixel lost
    O3 = O.copy(); O3[1, 1] = 0
    fails(refine_report(S, O3, None, 3, False)[0], 'nonzero_set_unchanged')
    # pixel gained
    O3 = O.copy(); O3[0, 0] = 8
    fails(refine_report(S, O3, None, 3, False)[0], 'nonzero_set_unchanged')
    # a child straddles two parents
    O3 = O.copy(); O3[S == 2] = 9
    fails(refine_report(S, O3, None, 3, False)[0], 'child_within_one_parent')
    # child too small
    O3 = S.copy(); O3[1, 1:3] = 8; O3[S == 1] = np.where(O3[S == 1] == 8, 8, 9)
    fails(refine_report(S, O3, None, 3, False)[0], 'child_min_npixels')
    # untouched segment relabelled although relabel=False
    O3 = O.copy(); O3[S == 7] = 10
    fails(refine_report(S, O3, None, 3, False)[0], 'untouched_label_kept')
    # not 1..N
    O3 = O2.copy(); O3[O3 == 4] = 5
    fails(refine_report(S, O3, None, 3, True)[0], 'labels_1_to_N')
    # label not requested but split
    fails(refine_report(S, O, [2], 3, False)[0], 'unrequested_label_untouched')
    # maps wrong
    fails(refine_report(S, O, None, 3, False, inv_map={1: np.array([8, 10])})[0], 'map_children_match_pixels')
    fails(refine_report(S, O, None, 3, False, inv_map={2: np.array([8, 9])})[0], 'map_keys_are_split_parents')
    fails(refine_report(S, O, None, 3, False, inv_map={1: np.array([8, 9])}, dl=np.array([8]))[0],
          'deblended_labels_match_pixels')
    fails(refine_report(S, O, None, 3, False, inv_map={1: np.array([8, 9])}, dl=np.array([8, 9]),
                        dl_map={8: 1, 9: 2})[0], 'deblended_labels_map_matches_pixels')
    fails(refine_report(S, O, None, 3, False, inv_map={1: np.array([8., 9.])})[0], 'map_types_integer')
    fails(refine_report(S, O, None, 3, False, out_labels=[2, 7, 8])[0], 'labels_attr_matches_data')
    # contrast = 1
    fails(refine_report(S, O, None, 3, False, contrast_is_one=True)[0], 'contrast1_returns_input')
    rep, _ = refine_report(S, S.copy(), None, 3, True, contrast_is_one=True)
    assert all(ok for _, ok, _ in rep)
    # wrap-around to 0 in a small dtype is a lost pixel
    S8 = S.astype(np.uint8); O8 = O.astype(np.uint8); O8[O8 == 9] = np.uint8(0)
    fails(refine_report(S8, O8, None, 3, False)[0], 'nonzero_set_unchanged')
