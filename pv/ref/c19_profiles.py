"""C19 reference: curves of growth / radial profiles from circular-aperture photometry.

The reference never imports photutils.profiles.  photutils.aperture.CircularAperture is the
allowed base (the aperture code is judged by C01/C02).  Two independent routes:

  A  `aperture_route`: CircularAperture(xycen, r).do_photometry / .area_overlap with the union
     mask (caller's mask OR non-finite data OR non-finite error) -- the property's statement taken
     literally; identical arithmetic to a correct profile class, compared exactly.
  B  `weights_route`: full-frame weight images of the same apertures (ApertureMask.to_image) and the
     harness's own masked sums; independent of do_photometry/area_overlap and of how the profile class
     slices, compared to summation-order rounding.
"""
from __future__ import annotations

import numpy as np


def union_mask(data, error, mask):
    bad = ~np.isfinite(data)
    if error is not None:
        bad = bad | ~np.isfinite(error)
    if mask is not None:
        bad = bad | np.asarray(mask, dtype=bool)
    return bad


def aperture_route(data, xycen, radii, error, mask, method, subpixels):
    """data/error plain float arrays; mask = union mask.  -> sums, errs (or None), areas."""
    from photutils.aperture import CircularAperture
    sums, errs, areas = [], [], []
    for r in radii:
        if r <= 0:
            sums.append(0.0)
            errs.append(0.0)
            areas.append(0.0)
            continue
        ap = CircularAperture(xycen, float(r))
        s, e = ap.do_photometry(data, error=error, mask=mask, method=method, subpixels=subpixels)
        a = ap.area_overlap(data, mask=mask, method=method, subpixels=subpixels)
        sums.append(s[0])
        if error is not None:
            errs.append(e[0])
        areas.append(a)
    return np.array(sums), (np.array(errs) if error is not None else None), np.array(areas)


def weights_route(data, xycen, radii, error, mask, method, subpixels):
    """-> dict(S, V, A, Sabs) arrays over radii (NaN where the aperture's box misses the image)."""
    from photutils.aperture import CircularAperture
    good = ~mask
    d = np.where(good, data, 0.0)
    v = None if error is None else np.where(good, error, 0.0) ** 2
    S, V, A, Sabs = [], [], [], []
    for r in radii:
        if r <= 0:
            S.append(0.0), V.append(0.0), A.append(0.0), Sabs.append(0.0)
            continue
        w = CircularAperture(xycen, float(r)).to_mask(method=method, subpixels=subpixels).to_image(data.shape)
        if w is None:
            S.append(np.nan), V.append(np.nan), A.append(np.nan), Sabs.append(np.nan)
            continue
        w = np.where(good, w, 0.0)
        S.append(float(np.sum(w * d)))
        Sabs.append(float(np.sum(w * np.abs(d))))
        A.append(float(np.sum(w)))
        V.append(float(np.sum(w * v)) if v is not None else 0.0)
    return dict(S=np.array(S), V=np.array(V), A=np.array(A), Sabs=np.array(Sabs))


def monotone_prefix(p):
    """number of leading points forming a strictly increasing sequence (>= 1 for non-empty p)."""
    p = np.asarray(p, dtype=float)
    k = 1
    while k < p.size and p[k] > p[k - 1]:
        k += 1
    return k


def selftest():
    # facts independent of photutils.profiles: analytic areas / sums of circular apertures
    data = np.full((41, 41), 2.5)
    mask = np.zeros(data.shape, bool)
    radii = np.array([0.0, 1.0, 2.5, 7.0])
    s, e, a = aperture_route(data, (20.0, 20.0), radii, np.ones_like(data), mask, 'exact', 5)
    assert np.allclose(a, np.pi * radii ** 2, rtol=1e-12)
    assert np.allclose(s, 2.5 * np.pi * radii ** 2, rtol=1e-12)
    assert np.allclose(e, np.sqrt(np.pi) * radii, rtol=1e-12)
    w = weights_route(data, (20.0, 20.0), radii, np.ones_like(data), mask, 'exact', 5)
    assert np.allclose(w['A'], a, rtol=1e-12) and np.allclose(w['S'], s, rtol=1e-12)
    assert np.allclose(np.sqrt(w['V']), e, rtol=1e-12)
    # half-plane mask halves everything for a centred aperture on a pixel-symmetric mask
    m2 = mask.copy()
    m2[:, :20] = True          # columns 0..19 masked, column 20 (the centre column) kept
    s2, _, a2 = aperture_route(data, (20.0, 20.0), radii[1:], None, m2, 'center', 5)
    full = aperture_route(data, (20.0, 20.0), radii[1:], None, mask, 'center', 5)[2]
    col = np.array([np.sum(np.hypot(0, np.arange(41) - 20.0) < r) for r in radii[1:]])
    assert np.allclose(a2, (full - col) / 2 + col), (a2, full, col)
    assert monotone_prefix([1, 2, 3, 3, 4]) == 3 and monotone_prefix([2, 1]) == 1 and monotone_prefix([1, 2]) == 2
    u = union_mask(np.array([[1.0, np.nan], [np.inf, 2.0]]), np.array([[1.0, 1.0], [1.0, np.nan]]),
                   np.array([[True, False], [False, False]]))
    assert u.tolist() == [[True, True], [True, True]]
